#!/bin/sh
# Run one property's check against a scratch worktree of /repo (a seeded change), without
# touching /repo: the framework is copied to /tmp/vmut/<name>/verif with the harness's path
# dependency redirected to the worktree. Usage: tools/mutcheck.sh Cxx /path/to/worktree [tier]
# The copy (and its build output) is removed afterwards unless KEEP=1.
set -e
PID="$1"; WT="$2"; TIER="${3:-quick}"
NAME="$(basename "$(dirname "$WT")")-$PID"
D="/tmp/vmut/$NAME"
rm -rf "$D"; mkdir -p "$D"
rsync -a --exclude work --exclude replays --exclude .git --exclude harness/target /verif/ "$D/verif/" || [ $? -eq 24 ]
cd "$D/verif"
for f in harness/Cargo.toml batchsim/Cargo.toml; do
  [ -f "$f" ] && sed -i "s#/repo/oxidize-pdf-core#$WT/oxidize-pdf-core#g" "$f"
done
for f in harness/.cargo/config.toml batchsim/.cargo/config.toml; do
  [ -f "$f" ] && sed -i "s#/verif/harness/target#$D/verif/harness/target#g" "$f"
done
sed -i "s#\.\./harness#$D/verif/harness#g" batchsim/Cargo.toml 2>/dev/null || true
export VERIF_REPO="$WT"
set +e
python3 tools/check.py "$PID" --tier "$TIER" > "$D/check.log" 2>&1
RC=$?
set -e
grep -E "VIOLATION|KNOWN-FINDING|\[check\]" "$D/check.log" || tail -5 "$D/check.log"
echo "exit=$RC"
mkdir -p /tmp/vmut/results
cp "$D/check.log" "/tmp/vmut/results/$NAME.log"
for r in "$D"/verif/replays/"$PID"/*.req; do [ -f "$r" ] && cp "$r" "/tmp/vmut/results/$NAME.$(basename "$r")"; done
[ "$KEEP" = "1" ] || rm -rf "$D"
exit $RC
