#!/usr/bin/env python3
"""Writes MANIFEST.json from tools/manifest_src.json (per-property claim texts) so that the
manifest stays valid and every property is either claimed or listed under not_applicable."""
import json, os
V = os.path.dirname(os.path.dirname(os.path.abspath(__file__)))
src = json.load(open(os.path.join(V, "tools", "manifest_src.json")))
ids = [json.loads(l)["id"] for l in open(os.path.join(V, "properties.jsonl"))]
checks, na = [], []
for pid in ids:
    pp = os.path.join(V, "tools", "props", pid + ".json")
    c = (json.load(open(pp)).get("claim") if os.path.exists(pp) else None) or src["claims"].get(pid)
    if c and c.get("claimed"):
        checks.append({
            "property_id": pid,
            "quick_cmd": f"python3 tools/check.py {pid} --tier quick",
            "thorough_cmd": f"python3 tools/check.py {pid} --tier thorough",
            "evidence_file": f"/verif/evidence/{pid}.json",
            "replay_cmd_template": f"python3 tools/check.py {pid} --replay {{path}}",
            "engine": "lean4-proof+correspondence",
            "level_claimed": {"category": c.get("category", "proof"), "text": c["text"], "design_ref": c.get("design_ref", f"DESIGN.md §7 {pid}")},
            "level_note": c["note"],
            "technique": c.get("technique", "Lean 4 theorem about an executable model + differential correspondence run against the real code"),
        })
    else:
        na.append({"property_id": pid, "reason": (c or {}).get("reason", "not yet built in this session: no check is claimed for it (work in progress, see DESIGN.md §7)")})
m = {
    "version": 1,
    "setup_cmd": src["setup_cmd"],
    "hooks": src["hooks"],
    "engines": src["engines"],
    "checks": checks,
    "notes": src.get("notes", ""),
    "not_applicable": na,
}
for e in m["engines"]:
    e["serves_properties"] = [c["property_id"] for c in checks]
json.dump(m, open(os.path.join(V, "MANIFEST.json"), "w"), indent=1, ensure_ascii=False)
print(f"claimed {len(checks)}, not claimed {len(na)}")
