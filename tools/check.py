#!/usr/bin/env python3
"""
The only entry point of the verification machinery.

    tools/check.py Cxx [--tier quick|thorough] [--replay FILE]

One run, for property Cxx (see DESIGN.md §2, §4):
  1. regenerate Gen/*.lean from /repo's working tree (tools/translate.py) when the property
     has a translated part
  2. `lake build` the property's theorem module and its driver; audit the axioms of every
     theorem in the module; grep for forbidden escape hatches
  3. `cargo build` the property's harness binary against /repo's working tree
  4. harness: generate requests (corpus first), run the REAL code on each in an isolated child
  5. driver: run the MODEL's executable definitions and the property's ORACLE on the same lines
  6. decide: exit 0 / KNOWN-FINDING lines / `VIOLATION property=Cxx replay=<path>` + exit 1
  7. rewrite evidence/Cxx.json
"""
import argparse
import fcntl
import hashlib
import json
import os
import re
import shutil
import subprocess
import sys
import time

VERIF = os.path.dirname(os.path.dirname(os.path.abspath(__file__)))
LEAN = os.path.join(VERIF, "lean")
HARNESS = os.path.join(VERIF, "harness")
REPO = "/repo"
ALLOWED_AXIOMS = {"propext", "Classical.choice", "Quot.sound"}
FORBIDDEN = re.compile(
    r"\bsorry\b|\badmit\b|^\s*axiom\s|native_decide|bv_decide|implemented_by|\bunsafe\s|maxHeartbeats\s+0\b"
)
ENV = dict(os.environ, CARGO_NET_OFFLINE="true")
ENV.setdefault("RUSTFLAGS", "--cfg bzsanti_oxidizepdf_verif")


def log(msg):
    print(f"[check] {msg}", flush=True)


def run(cmd, cwd=None, timeout=None, stdin=None, env=None):
    t0 = time.time()
    try:
        p = subprocess.run(
            cmd, cwd=cwd, stdin=stdin, stdout=subprocess.PIPE, stderr=subprocess.STDOUT,
            timeout=timeout, env=env or ENV, text=True, errors="replace",
        )
        return p.returncode, p.stdout, time.time() - t0
    except subprocess.TimeoutExpired as e:
        out = e.stdout if isinstance(e.stdout, str) else (e.stdout or b"").decode(errors="replace")
        return 124, out + "\n[timeout]", time.time() - t0


class Lock:
    def __init__(self, path):
        self.path = path

    def __enter__(self):
        os.makedirs(os.path.dirname(self.path), exist_ok=True)
        self.f = open(self.path, "w")
        fcntl.flock(self.f, fcntl.LOCK_EX)

    def __exit__(self, *a):
        fcntl.flock(self.f, fcntl.LOCK_UN)
        self.f.close()


def strip_lean_comments(src):
    # remove nested block comments and line comments (string literals are rare in our sources
    # and never contain the forbidden words)
    out, i, depth, n = [], 0, 0, len(src)
    while i < n:
        if src.startswith("/-", i):
            depth += 1
            i += 2
        elif depth and src.startswith("-/", i):
            depth -= 1
            i += 2
        elif depth:
            if src[i] == "\n":
                out.append("\n")
            i += 1
        elif src.startswith("--", i):
            while i < n and src[i] != "\n":
                i += 1
        else:
            out.append(src[i])
            i += 1
    return "".join(out)


def lean_module_path(mod):
    return os.path.join(LEAN, *mod.split(".")) + ".lean"


def module_closure(mod, seen=None):
    """OxiVerif modules transitively imported by `mod` (source scan)."""
    seen = seen if seen is not None else set()
    if mod in seen:
        return seen
    p = lean_module_path(mod)
    if not os.path.exists(p):
        return seen
    seen.add(mod)
    for m in re.findall(r"^\s*(?:public\s+)?import\s+(OxiVerif[\w.]*)", open(p).read(), re.M):
        module_closure(m, seen)
    return seen


def theorem_names_in_source(mod):
    src = strip_lean_comments(open(lean_module_path(mod)).read())
    return re.findall(r"^\s*(?:private\s+|protected\s+)?theorem\s+([\w.'₀-₉]+)", src, re.M)


def failing_decls(mod, build_out):
    """Map `file:line:col: error` of the Props module to the enclosing theorem names."""
    path = lean_module_path(mod)
    rel = os.path.relpath(path, LEAN)
    lines = open(path).read().split("\n")
    bad = set()
    for m in re.finditer(re.escape(rel) + r":(\d+):\d+: error", build_out):
        ln = int(m.group(1))
        for j in range(min(ln, len(lines)) - 1, -1, -1):
            mm = re.match(r"\s*(?:private\s+|protected\s+)?(?:theorem|example|def|lemma|instance)\s*([\w.']*)", lines[j])
            if mm:
                bad.add(mm.group(1) or f"example@{j+1}")
                break
    return sorted(bad)


def load_cfg(pid):
    p = os.path.join(VERIF, "tools", "props", pid + ".json")
    cfg = json.load(open(p)) if os.path.exists(p) else {}
    low = pid.lower()
    cfg.setdefault("props_module", f"OxiVerif.Props.{pid}")
    cfg.setdefault("driver", f"drv_{low}")
    cfg.setdefault("bin", low)
    cfg.setdefault("harness_dir", HARNESS)
    cfg.setdefault("level", "proof")
    cfg.setdefault("translate", [])
    cfg.setdefault("rule", "a case is non-trivial when the generator tagged it `nt`; distinct = distinct request lines")
    cfg.setdefault("trusted_base", [])
    cfg.setdefault("assumptions", [])
    cfg.setdefault("required_theorems", [])
    cfg.setdefault("emit_timeout_quick", 600)
    cfg.setdefault("emit_timeout_thorough", 3600)
    return cfg


def load_known(pid):
    """known_findings/<pid>.json — committed, never written at run time."""
    p = os.path.join(VERIF, "known_findings", pid + ".json")
    if not os.path.exists(p):
        return []
    return [e for e in json.load(open(p)).get("findings", []) if e.get("property") == pid]


def match_known(entry, req, impl, oracle):
    if entry.get("status") != "open":
        return False
    m = entry.get("matcher", {})
    for key, val in (("req_re", req), ("impl_re", impl), ("oracle_re", oracle)):
        if key in m and not re.search(m[key], val):
            return False
    return bool(m)


def write_replay(pid, kind, header, reqs):
    d = os.path.join(VERIF, "replays", pid)
    os.makedirs(d, exist_ok=True)
    body = "".join(f"# {h}\n" for h in header) + "".join(r + "\n" for r in reqs)
    h = hashlib.sha1(body.encode()).hexdigest()[:12]
    path = os.path.join(d, f"{kind}-{h}.req")
    open(path, "w").write(body)
    return path


def run_cases(cfg, pid, work, mode_args, timeout):
    """harness → cases.tsv → driver → list of dict(req, impl, tags, model, oracle)"""
    hdir = os.path.join(VERIF, cfg["harness_dir"])
    binp = os.path.join(hdir, "target", "debug", cfg["bin"])
    rc, out, dt = run([binp] + mode_args + ["--out", work], cwd=hdir, timeout=timeout)
    if rc != 0:
        return None, f"harness exited {rc}: {out[-2000:]}", dt
    cases_path = os.path.join(work, "cases.tsv")
    rows = []
    with open(cases_path, errors="replace") as f:
        for l in f:
            parts = l.rstrip("\n").split("\t")
            while len(parts) < 3:
                parts.append("")
            rows.append(parts[:3])
    drv = os.path.join(LEAN, ".lake", "build", "bin", cfg["driver"])
    inp = os.path.join(work, "driver_in.tsv")
    with open(inp, "w") as f:
        for r in rows:
            f.write(r[0] + "\t" + r[1] + "\n")
    with open(inp) as fin:
        rc, dout, dt2 = run([drv], stdin=fin, timeout=timeout)
    if rc != 0:
        return None, f"driver exited {rc}: {dout[-2000:]}", dt + dt2
    mlines = dout.split("\n")
    if mlines and mlines[-1] == "":
        mlines.pop()
    if len(mlines) != len(rows):
        return None, f"driver produced {len(mlines)} lines for {len(rows)} requests", dt + dt2
    res = []
    for r, ml in zip(rows, mlines):
        mp = ml.split("\t")
        res.append({"req": r[0], "impl": r[1], "tags": r[2], "model": mp[0], "oracle": mp[1] if len(mp) > 1 else "na"})
    return res, None, dt + dt2


def main():
    ap = argparse.ArgumentParser()
    ap.add_argument("prop")
    ap.add_argument("--tier", default=os.environ.get("VERIF_TIER") or "quick", choices=["quick", "thorough"])
    ap.add_argument("--replay")
    args = ap.parse_args()
    pid = args.prop.upper()
    tier = args.tier
    try:
        seed = int(os.environ.get("VERIF_SEED", "0") or 0)
    except ValueError:
        seed = 0
    t0 = time.time()
    cfg = load_cfg(pid)
    work = os.path.join(VERIF, "work", pid)
    shutil.rmtree(work, ignore_errors=True)
    os.makedirs(work, exist_ok=True)
    os.makedirs(os.path.join(VERIF, "evidence"), exist_ok=True)

    broken = []          # things that no longer check: (kind, detail)
    notes = []
    timings = {}

    # ---- 1. translator ---------------------------------------------------------------
    gen_diff = ""
    if cfg["translate"]:
        with Lock(os.path.join(LEAN, ".lake", "verif.lock")):
            dt_all = 0.0
            for script in cfg["translate"]:
                argv = script.split()
                rc, out, dt = run([sys.executable, os.path.join(VERIF, "tools", argv[0])] + argv[1:], cwd=VERIF)
                dt_all += dt
                n_before = len(broken)
                for l in out.splitlines():
                    if l.startswith("TIE-BROKEN"):
                        broken.append(("translator", l))
                    if l.startswith("GEN-DIFF"):
                        gen_diff += l + "\n"
                if rc != 0 and len(broken) == n_before:
                    broken.append(("translator", f"{script} exited {rc}: {out[-1500:]}"))
        timings["translate_s"] = round(dt_all, 2)

    # ---- 2. Lean: theorems, audit, driver ---------------------------------------------
    pm = cfg["props_module"]
    declared = theorem_names_in_source(pm) if os.path.exists(lean_module_path(pm)) else []
    theorems = {}
    failing = []
    with Lock(os.path.join(LEAN, ".lake", "verif.lock")):
        rc, out, dt = run(["lake", "build", pm], cwd=LEAN, timeout=3000)
        timings["lake_props_s"] = round(dt, 2)
        props_ok = rc == 0
        if not props_ok:
            failing = failing_decls(pm, out) or ["<module does not build>"]
            open(os.path.join(work, "lake_props.log"), "w").write(out)
            broken.append(("theorem", f"{pm} no longer elaborates; failing: {', '.join(failing)}"))
            # which file failed? a dependency (Gen/Model/Lemmas) failing is also a broken obligation
            for m in re.finditer(r"error: (OxiVerif/[\w/]+\.lean):(\d+)", out):
                notes.append(f"lean error at {m.group(1)}:{m.group(2)}")
        else:
            audit_file = os.path.join(work, "AuditRun.lean")
            open(audit_file, "w").write(
                f"import OxiVerif.Base.Audit\nimport {pm}\n#eval OxiVerif.auditModule `{pm}\n")
            rc2, aout, dt2 = run(["lake", "build", "OxiVerif.Base.Audit"], cwd=LEAN, timeout=1200)
            rc2, aout, dt2 = run(["lake", "env", "lean", audit_file], cwd=LEAN, timeout=1200)
            timings["audit_s"] = round(dt2, 2)
            decl_last = {d.split(".")[-1] for d in declared}
            for m in re.finditer(r"AUDIT (\S+) :: (\S*)", aout):
                axs = [a for a in m.group(2).split(",") if a]
                # only theorems written in the source file (not auto-generated equation lemmas)
                if m.group(1).split(".")[-1] in decl_last:
                    theorems[m.group(1)] = axs
            if rc2 != 0 or not theorems:
                broken.append(("audit", f"axiom audit failed: {aout[-800:]}"))
            for t, axs in theorems.items():
                extra = [a for a in axs if a not in ALLOWED_AXIOMS]
                if extra:
                    broken.append(("axioms", f"{t} depends on {extra}"))
            for t in cfg["required_theorems"]:
                if not any(n == t or n.endswith("." + t) for n in theorems):
                    broken.append(("theorem", f"required theorem {t} is missing from {pm}"))
        # forbidden escape hatches in every OxiVerif module the theorems depend on
        for mod in sorted(module_closure(pm)):
            src = strip_lean_comments(open(lean_module_path(mod)).read())
            for i, l in enumerate(src.split("\n")):
                if FORBIDDEN.search(l):
                    broken.append(("forbidden", f"{mod}:{i+1}: {l.strip()[:80]}"))
        rc, out, dt = run(["lake", "build", cfg["driver"]], cwd=LEAN, timeout=3000)
        timings["lake_driver_s"] = round(dt, 2)
        driver_ok = rc == 0
        if not driver_ok:
            open(os.path.join(work, "lake_driver.log"), "w").write(out)
            broken.append(("driver", f"model driver {cfg['driver']} does not build: {out[-800:]}"))
        if tier == "thorough" and props_ok:
            rc, out, dt = run(["lake", "env", "leanchecker", pm], cwd=LEAN, timeout=3000)
            timings["leanchecker_s"] = round(dt, 2)
            if rc != 0:
                broken.append(("leanchecker", out[-800:]))

    obligations = len(declared) if not props_ok else len(theorems)
    discharged = 0 if not props_ok and failing == ["<module does not build>"] else (
        len(theorems) if props_ok else max(0, len(declared) - len([f for f in failing if f in declared])))

    # ---- 3. harness build --------------------------------------------------------------
    rc, out, dt = run(["cargo", "build", "--offline", "--bin", cfg["bin"]], cwd=os.path.join(VERIF, cfg["harness_dir"]), timeout=3000)
    timings["cargo_s"] = round(dt, 2)
    harness_ok = rc == 0
    if not harness_ok:
        open(os.path.join(work, "cargo.log"), "w").write(out)
        errs = [l for l in out.splitlines() if l.startswith("error")][:5]
        broken.append(("harness", f"harness binary {cfg['bin']} does not compile against /repo: {' | '.join(errs)}"))

    # ---- 4./5. correspondence + oracle ----------------------------------------------------
    results = []
    run_err = None
    if harness_ok and driver_ok:
        corpus = os.path.join(VERIF, "corpus", pid)
        if args.replay:
            mode = ["replay", "--file", os.path.abspath(args.replay)]
        else:
            mode = ["emit", "--seed", str(seed), "--tier", tier]
            if os.path.isdir(corpus):
                mode += ["--corpus", corpus]
        results, run_err, dt = run_cases(cfg, pid, work, mode, cfg[f"emit_timeout_{tier}"])
        timings["correspondence_s"] = round(dt, 2)
        if results is None:
            broken.append(("run", run_err))
            results = []

    def classify(results):
        disagreements, oracle_fail = [], []
        for r in results:
            if r["oracle"].startswith("fail"):
                oracle_fail.append(r)
            elif r["model"] != r["impl"]:
                disagreements.append(r)
        return disagreements, oracle_fail

    disagreements, oracle_fail = classify(results)

    # ---- search for a concrete failing input when something broke but none is at hand -----
    searched = 0
    known = load_known(pid)

    def unlisted(fails):
        return [r for r in fails if not any(match_known(e, r["req"], r["impl"], r["oracle"]) for e in known)]

    # (oracle failures that are listed known findings do not count as "a failing input at hand")
    if (broken or disagreements) and not unlisted(oracle_fail) and harness_ok and driver_ok and not args.replay:
        budget_end = time.time() + (240 if tier == "quick" else 1200)
        k = 0
        while time.time() < budget_end and k < 6 and not unlisted(oracle_fail):
            k += 1
            sw = os.path.join(work, f"search{k}")
            os.makedirs(sw, exist_ok=True)
            mode = ["emit", "--seed", str(seed * 1000003 + 7919 * k + 1), "--tier", "thorough" if k > 1 else tier]
            res, err, _ = run_cases(cfg, pid, sw, mode, max(60, budget_end - time.time()))
            if res:
                searched += len(res)
                d2, o2 = classify(res)
                oracle_fail = oracle_fail + o2
                if not disagreements:
                    disagreements = d2
            shutil.rmtree(sw, ignore_errors=True)
        notes.append(f"search for a failing input: {searched} further cases")

    # ---- 6. decision ---------------------------------------------------------------------
    known_hit = {}
    unknown_fail = []
    for r in oracle_fail:
        hit = next((e for e in known if match_known(e, r["req"], r["impl"], r["oracle"])), None)
        if hit:
            known_hit.setdefault(hit["id"], (hit, r))
        else:
            unknown_fail.append(r)
    for kid, (e, r) in sorted(known_hit.items()):
        print(f"KNOWN-FINDING: property={pid} {kid}: {e.get('what','')} [e.g. {r['req'][:120]}]", flush=True)

    violations = 0
    header_common = [f"property {pid}", f"seed {seed}", f"tier {tier}"]
    if unknown_fail:
        violations = len(unknown_fail)
        # smallest failing request first (cheap shrinking: prefer the shortest witness)
        unknown_fail.sort(key=lambda r: len(r["req"]))
        r = unknown_fail[0]
        hdr = header_common + [
            "kind impl-vs-oracle: the real code's answer violates the property's spec-side predicate",
            f"oracle {r['oracle']}", f"impl {r['impl'][:400]}", f"model {r['model'][:400]}",
            f"further failing inputs this run: {len(unknown_fail) - 1}",
        ] + [f"broken: {k}: {d[:300]}" for k, d in broken]
        path = write_replay(pid, "viol", hdr, [x["req"] for x in unknown_fail[:20]])
        print(f"VIOLATION property={pid} replay={path}", flush=True)
    elif disagreements or broken:
        violations = max(1, len(disagreements))
        hdr = header_common + ["kind tie-or-proof-broken: the property is no longer shown to hold"]
        for k, d in broken:
            hdr.append(f"broken {k}: {d[:600]}")
        if disagreements:
            disagreements.sort(key=lambda r: len(r["req"]))
            r = disagreements[0]
            hdr += [
                f"correspondence {cfg['driver']} (model) vs {cfg['bin']} (implementation) no longer holds",
                f"first disagreeing request: {r['req'][:400]}", f"impl {r['impl'][:400]}", f"model {r['model'][:400]}",
                f"disagreeing requests this run: {len(disagreements)}",
            ]
        hdr.append(f"searched {searched} further generated cases for an input on which the oracle fails: none found")
        path = write_replay(pid, "broken", hdr, [x["req"] for x in disagreements[:20]])
        print(f"VIOLATION property={pid} replay={path} no-failing-input-found", flush=True)

    # ---- 7. evidence -----------------------------------------------------------------------
    hist = {}
    for r in results:
        for t in r["tags"].split():
            hist[t] = hist.get(t, 0) + 1
    distinct_nt = len({r["req"] for r in results if "nt" in r["tags"].split()})
    samples = []
    if results:
        step = max(1, len(results) // 5)
        for r in results[::step][:6]:
            samples.append({"request": r["req"][:300], "impl": r["impl"][:300], "model": r["model"][:300], "oracle": r["oracle"]})
    samples += [{"theorem": t, "axioms": a} for t, a in list(theorems.items())[:40]]
    cov = {
        "obligations": obligations,
        "discharged": discharged,
        "checker_cmd": f"cd /verif/lean && lake build {pm} && lake env lean <audit of {pm}>" + (" && lake env leanchecker " + pm if tier == "thorough" else ""),
        "trusted_base": ["Lean 4.33.0 kernel", "axioms: " + ",".join(sorted({a for v in theorems.values() for a in v}) or ["none"]),
                         "tools/check.py, tools/translate.py, harness (canonicalisation, generators)"] + cfg["trusted_base"],
        "theorems": sorted(theorems) if theorems else declared,
        "failing_theorems": failing,
        "evaluations": len(results),
        "distinct_nontrivial": distinct_nt,
        "distinct_requests": len({r["req"] for r in results}),
        "rule": cfg["rule"],
        "samples": samples or [{"note": "no cases were run"}],
        "programs": len(results),
        "disagreements_checked": len(results),
        "model_vs_impl_disagreements": len(disagreements),
        "impl_vs_oracle_failures": len(oracle_fail),
        "known_findings_reproduced": sorted(known_hit),
        "search_cases": searched,
        "input_distribution": dict(sorted(hist.items(), key=lambda kv: -kv[1])[:60]),
        "crash_classes": {k: sum(1 for r in results if r["impl"].startswith(k)) for k in ("panic", "abort", "timeout")},
        "broken": [f"{k}: {d[:300]}" for k, d in broken],
        "gen_diff_vs_committed": gen_diff[:2000],
        "timings": timings,
        "notes": notes,
        "explanation": cfg.get("explanation", ""),
    }
    ev = {
        "property_id": pid, "tier": tier, "seed": seed, "level": cfg["level"],
        "coverage": cov,
        "assumptions": cfg["assumptions"],
        "wall_s": round(time.time() - t0, 2),
        "violations": violations,
    }
    with open(os.path.join(VERIF, "evidence", pid + ".json"), "w") as f:
        json.dump(ev, f, indent=1, ensure_ascii=False)
        f.write("\n")
    log(f"{pid} tier={tier} seed={seed} theorems={discharged}/{obligations} cases={len(results)} "
        f"disagree={len(disagreements)} oracle_fail={len(oracle_fail)} known={len(known_hit)} "
        f"violations={violations} wall={ev['wall_s']}s")
    sys.exit(1 if violations else 0)


if __name__ == "__main__":
    main()
