#!/usr/bin/env python3
"""Confirm a seeded change delivered by a mutation-writing agent and run the property's check on it.

    tools/validate_seeded.py <PID> <dir> [--name NAME] [--skip-suite] [--tier quick|thorough] [--keep]

<dir> holds `out/` (patch.diff, demo.rs, meta.json/README.md) and usually `wt/` (the author's
scratch worktree; only its base commit is used, then it is removed).  Everything runs in ONE shared
scratch worktree `/tmp/mutsuite/wt` with a persistent build directory `/tmp/mutsuite/target`
(incremental rebuilds: a cold build of the ~320 test binaries per change took hours on the loaded
machine).  Steps, all outside /repo:
  1. the shared worktree is reset to the change's base commit, the patch applies, the crate builds;
  2. the demonstration FAILS with the change and PASSES without it;
  3. the repository's pinned suite has no stable-pass test failing with the change (tools/suite.sh);
     tests that fail are re-run alone once (timing assertions flake on a loaded machine);
  4. tools/mutcheck.sh runs the property's check against the changed worktree.
Result: /verif/seeded/<NAME>/{patch.diff, demo.rs, meta.json, check.log}.
"""
import fcntl, json, os, re, shutil, subprocess, sys, time

MS = os.environ.get("MUTSUITE", "/tmp/mutsuite")
SH_WT, SH_TARGET = MS + "/wt", MS + "/target"

def sh(cmd, cwd=None, timeout=4 * 3600, env=None):
    e = dict(os.environ, CARGO_NET_OFFLINE="true")
    if env: e.update(env)
    p = subprocess.run(cmd, shell=True, cwd=cwd, stdout=subprocess.PIPE, stderr=subprocess.STDOUT,
                       text=True, errors="replace", timeout=timeout, env=e)
    return p.returncode, p.stdout

def main():
    a = sys.argv[1:]
    pid, d = a[0], os.path.abspath(a[1])
    name = a[a.index("--name") + 1] if "--name" in a else os.path.basename(d)
    tier = a[a.index("--tier") + 1] if "--tier" in a else "quick"
    own_wt, out = os.path.join(d, "wt"), os.path.join(d, "out")
    patch = os.path.join(out, "patch.diff")
    res = {"property": pid, "name": name, "validated_at": time.strftime("%Y-%m-%dT%H:%M:%S")}
    env = {"CARGO_TARGET_DIR": SH_TARGET}
    os.makedirs(MS, exist_ok=True)
    lock = open(MS + "/lock", "w")
    fcntl.flock(lock, fcntl.LOCK_EX)
    # The change is validated on top of /repo's CURRENT HEAD (the models in /verif mirror the
    # repaired code, so an older base would make the check disagree for reasons that have nothing
    # to do with the change); the author's base commit is recorded, and used only when the patch
    # no longer applies to HEAD.
    author_base = None
    if os.path.isdir(own_wt):
        rc, o = sh("git rev-parse HEAD", cwd=own_wt)
        author_base = o.strip() if rc == 0 else None
    head = sh("git rev-parse HEAD", cwd="/repo")[1].strip()
    res["author_base_commit"] = author_base
    base = head
    if "--author-base" in a and author_base:
        base = author_base
    res["base_commit"] = base
    if not os.path.isdir(SH_WT):
        sh(f"git -C /repo worktree add --detach {SH_WT} {base}")
    if not os.path.isdir(SH_TARGET):
        sh(f"cp -r /repo/target {SH_TARGET}")  # dependencies' artifacts are reusable, the crate rebuilds once
    wt = SH_WT
    # 1. clean shared worktree at the base commit, apply patch
    sh(f"git reset -q --hard; git clean -fdq; git checkout -q --detach {base}; git reset -q --hard", cwd=wt)
    rc, o = sh(f"git apply --check {patch} && git apply {patch}", cwd=wt)
    if rc != 0:
        rc, o = sh(f"git apply -3 {patch} && git reset -q", cwd=wt)
        res["applied_with_3way"] = rc == 0
        if rc != 0:
            sh("git reset -q --hard; git clean -fdq", cwd=wt)
    if rc == 0:
        # from here on work with the patch as it applies to this base
        patch = os.path.join(MS, "current.patch")
        open(patch, "w").write(sh("git diff", cwd=wt)[1])
    res["patch_applies"] = rc == 0
    if rc != 0:
        res["error"] = o[-2000:]
        return finish(res, d, out, name, own_wt)
    res["files_touched"] = sh("git diff --name-only", cwd=wt)[1].split()
    # 2. demonstration both ways
    demo_src = os.path.join(out, "demo.rs")
    demo_dst = os.path.join(wt, "oxidize-pdf-core", "tests", "zz_seeded_demo.rs")
    if os.path.exists(demo_src):
        shutil.copy(demo_src, demo_dst)
        rc1, o1 = sh("cargo test --offline -p oxidize-pdf --test zz_seeded_demo -- --test-threads 1 2>&1 | tail -40", cwd=wt, env=env)
        fails_with = ("test result: FAILED" in o1) or ("panicked" in o1 and "test result: ok" not in o1)
        sh(f"git apply -R {patch}", cwd=wt)
        rc2, o2 = sh("cargo test --offline -p oxidize-pdf --test zz_seeded_demo -- --test-threads 1 2>&1 | tail -40", cwd=wt, env=env)
        passes_without = "test result: ok" in o2 and "test result: FAILED" not in o2
        sh(f"git apply {patch}", cwd=wt)
        os.remove(demo_dst)
        res["demo_fails_with_change"] = fails_with
        res["demo_passes_without_change"] = passes_without
        res["demo_tail_with"] = o1[-1500:]
        res["demo_tail_without"] = o2[-600:]
    else:
        res["demo_fails_with_change"] = res["demo_passes_without_change"] = None
    # 3. pinned suite
    if "--skip-suite" not in a:
        log = os.path.join(d, "suite.log")
        # SUITE_MODE=lib: only the library's unit tests (6698 of the 9295 pinned tests, one test binary)
        # plus the integration tests the change's author named as related — used when time does not
        # allow relinking all 324 test binaries per change; recorded in the result as suite_scope
        lib_only = os.environ.get("SUITE_MODE") == "lib" or "--lib-suite" in a or os.path.exists("/tmp/mut/LIBSUITE")
        res["suite_scope"] = "library unit tests + author-named integration tests" if lib_only else "full pinned suite"
        extra = " --lib" if lib_only else ""
        if lib_only:
            named = set(re.findall(r"--test[ =]([A-Za-z0-9_]+)", open(os.path.join(out, "meta.json")).read() if os.path.exists(os.path.join(out, "meta.json")) else ""))
            named |= set(re.findall(r"`([a-z0-9_]+_test[s]?)`", (open(os.path.join(out, "README.md")).read() if os.path.exists(os.path.join(out, "README.md")) else "")))
            have = {f[:-3] for f in os.listdir(os.path.join(wt, "oxidize-pdf-core", "tests")) if f.endswith(".rs")}
            named = sorted(n for n in named if n in have)[:25]
            extra += "".join(f" --test {n}" for n in named)
            res["suite_named_tests"] = named
        rc, o = sh(f"SUITE_LOG={log} sh /verif/tools/suite.sh {wt}{extra}", env=env, timeout=5 * 3600)
        m = re.search(r"STABLE-PASS TESTS FAILING: (\d+)", o)
        failing = [l.split("\t")[1:3] for l in o.splitlines() if l.startswith("RERUN\t")]
        res["suite_first_pass_failing"] = int(m.group(1)) if m else None
        still = []
        for t in failing[:40]:
            # name is "<binary-id>::<test path>"; re-run it alone (load-induced timing flakes pass then)
            if len(t) != 2: continue
            binid, test = t
            # build only the one test binary concerned (lib unit tests, or one integration test)
            sel = "--lib" if "::" not in binid else "--test " + binid.split("::", 1)[1]
            try:
                rcx, ox = sh(f"cargo nextest run --workspace {sel} --tool-config-file pb:/w/lib/nextest.toml --profile pb --offline "
                             f"-E 'binary_id(={binid}) & test(={test})' 2>&1 | tail -5", cwd=wt, env=env, timeout=2400)
            except subprocess.TimeoutExpired:
                ox = "timeout"
            if "1 passed" not in ox:
                still.append(binid + '::' + test)
        res["suite_stable_pass_failing"] = (len(still) + max(0, len(failing) - 40)) if m else None
        res["suite_failing_after_rerun"] = still
        res["suite_tail"] = o[-1500:]
    # 4. the check
    rc, o = sh(f"sh /verif/tools/mutcheck.sh {pid} {wt} {tier}", timeout=3 * 3600)
    res["check_exit"] = rc
    res["check_lines"] = [l[:600] for l in o.splitlines() if "VIOLATION" in l or "KNOWN-FINDING" in l or l.startswith("[check]") or l.startswith("exit=")][-12:]
    res["caught"] = rc == 1 and any("VIOLATION" in l for l in o.splitlines())
    res["caught_with_input"] = res["caught"] and not any("no-failing-input-found" in l for l in o.splitlines() if "VIOLATION" in l)
    lg = f"/tmp/vmut/results/{os.path.basename(wt.rstrip('/').rsplit('/', 1)[0])}-{pid}.log"
    if os.path.exists(lg):
        os.makedirs(f"/verif/seeded/{name}", exist_ok=True)
        shutil.copy(lg, f"/verif/seeded/{name}/check.log")
    sh("git reset -q --hard; git clean -fdq", cwd=wt)
    return finish(res, d, out, name, own_wt)

def finish(res, d, out, name, own_wt):
    dst = f"/verif/seeded/{name}"
    os.makedirs(dst, exist_ok=True)
    for f in ("patch.diff", "demo.rs", "README.md"):
        if os.path.exists(os.path.join(out, f)):
            shutil.copy(os.path.join(out, f), os.path.join(dst, f))
    meta = {}
    mp = os.path.join(out, "meta.json")
    if os.path.exists(mp):
        try: meta = json.load(open(mp))
        except Exception: meta = {}
    meta["validation"] = res
    json.dump(meta, open(os.path.join(dst, "meta.json"), "w"), indent=1)
    print(json.dumps({k: v for k, v in res.items() if not k.endswith("tail") and not k.startswith("demo_tail")}, indent=1))
    # disk space is limited: the author's scratch worktree and its build output go as soon as we are done
    if "--keep" not in sys.argv and os.path.isdir(own_wt):
        subprocess.run(["git", "-C", "/repo", "worktree", "remove", "--force", own_wt], stdout=subprocess.DEVNULL, stderr=subprocess.DEVNULL)
        shutil.rmtree(own_wt, ignore_errors=True)

main()
