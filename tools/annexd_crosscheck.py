#!/usr/bin/env python3
"""
Provenance / cross-check of lean/OxiVerif/Spec/AnnexD.lean (property C25).

ISO 32000-1:2008 Annex D, Table D.2 ("Latin character set and encodings") gives, per character
NAME, the OCTAL code in StandardEncoding (STD), MacRomanEncoding (MAC), WinAnsiEncoding (WIN) and
PDFDocEncoding (PDF); `-` = not in that encoding.  It is transcribed below in the standard's own
form (one line per character name).  Character names are turned into Unicode with the Adobe Glyph
List (only the names that occur; one line each in AGL below).

Cross-checks done here (no network, independent sources available in this sandbox):
  1. no code is assigned twice inside one encoding (catches most transcription slips);
  2. StandardEncoding is transcribed a second time *positionally* (the PostScript
     `StandardEncoding` vector as printed in the PLRM / Type 1 spec) and compared;
  3. WinAnsiEncoding is compared with Python's `cp1252` codec on every defined slot,
     MacRomanEncoding with Python's `mac_roman` codec on every defined slot; the documented
     differences are listed explicitly (EXPECTED_DIFFS) and nothing else may differ;
  4. PDFDocEncoding 0xA1..0xFF (except 0xAD) must equal Latin-1, 0x20..0x7E ASCII;
  5. the 256-entry tables in Spec/AnnexD.lean are parsed and must equal what this file derives.

`--emit` prints the four tables in the Lean source form used in Spec/AnnexD.lean.

Decisions (also recorded in docs/C25.md):
  * Footnote 5 of Table D.2: "space" is *also* encoded as 0312 in MacRomanEncoding and as 0240 in
    WinAnsiEncoding, "the meaning of this duplicate code shall be a nonbreaking space" -> the slot
    holds U+00A0 NO-BREAK SPACE (so the tables stay injective; U+0020 <-> 0x20).
  * Footnote 4: "hyphen" is also encoded as 0255 in WinAnsiEncoding -> the slot holds U+00AD SOFT
    HYPHEN (the cp1252 / Unicode identification of that duplicate); U+002D <-> 0x2D.
  * Footnote 2: in WinAnsiEncoding the unused codes > 040 "map to the bullet character", but
    "only code 0225 shall be specifically assigned to the bullet" -> 0x7F, 0x81, 0x8D, 0x8F, 0x90,
    0x9D are UNDEFINED slots here (no requirement on what a decoder yields).
  * PDFDocEncoding: 0x09, 0x0A, 0x0D are the only defined slots below 0x18 (Table D.2 note /
    Table D.3); 0x7F, 0x9F, 0xAD undefined.
  * No encoding defines 0x00..0x1F (except the three PDFDoc controls and PDFDoc 0x18..0x1F).
"""
import re
import sys
import os

D2 = """
A 101 101 101 101
AE 341 256 306 306
Aacute - 347 301 301
Acircumflex - 345 302 302
Adieresis - 200 304 304
Agrave - 313 300 300
Aring - 201 305 305
Atilde - 314 303 303
B 102 102 102 102
C 103 103 103 103
Ccedilla - 202 307 307
D 104 104 104 104
E 105 105 105 105
Eacute - 203 311 311
Ecircumflex - 346 312 312
Edieresis - 350 313 313
Egrave - 351 310 310
Eth - - 320 320
Euro - - 200 240
F 106 106 106 106
G 107 107 107 107
H 110 110 110 110
I 111 111 111 111
Iacute - 352 315 315
Icircumflex - 353 316 316
Idieresis - 354 317 317
Igrave - 355 314 314
J 112 112 112 112
K 113 113 113 113
L 114 114 114 114
Lslash 350 - - 225
M 115 115 115 115
N 116 116 116 116
Ntilde - 204 321 321
O 117 117 117 117
OE 352 316 214 226
Oacute - 356 323 323
Ocircumflex - 357 324 324
Odieresis - 205 326 326
Ograve - 361 322 322
Oslash 351 257 330 330
Otilde - 315 325 325
P 120 120 120 120
Q 121 121 121 121
R 122 122 122 122
S 123 123 123 123
Scaron - - 212 227
T 124 124 124 124
Thorn - - 336 336
U 125 125 125 125
Uacute - 362 332 332
Ucircumflex - 363 333 333
Udieresis - 206 334 334
Ugrave - 364 331 331
V 126 126 126 126
W 127 127 127 127
X 130 130 130 130
Y 131 131 131 131
Yacute - - 335 335
Ydieresis - 331 237 230
Z 132 132 132 132
Zcaron - - 216 231
a 141 141 141 141
aacute - 207 341 341
acircumflex - 211 342 342
acute 302 253 264 264
adieresis - 212 344 344
ae 361 276 346 346
agrave - 210 340 340
ampersand 046 046 046 046
aring - 214 345 345
asciicircum 136 136 136 136
asciitilde 176 176 176 176
asterisk 052 052 052 052
at 100 100 100 100
atilde - 213 343 343
b 142 142 142 142
backslash 134 134 134 134
bar 174 174 174 174
braceleft 173 173 173 173
braceright 175 175 175 175
bracketleft 133 133 133 133
bracketright 135 135 135 135
breve 306 371 - 030
brokenbar - - 246 246
bullet 267 245 225 200
c 143 143 143 143
caron 317 377 - 031
ccedilla - 215 347 347
cedilla 313 374 270 270
cent 242 242 242 242
circumflex 303 366 210 032
colon 072 072 072 072
comma 054 054 054 054
copyright - 251 251 251
currency 250 333 244 244
d 144 144 144 144
dagger 262 240 206 201
daggerdbl 263 340 207 202
degree - 241 260 260
dieresis 310 254 250 250
divide - 326 367 367
dollar 044 044 044 044
dotaccent 307 372 - 033
dotlessi 365 365 - 232
e 145 145 145 145
eacute - 216 351 351
ecircumflex - 220 352 352
edieresis - 221 353 353
egrave - 217 350 350
eight 070 070 070 070
ellipsis 274 311 205 203
emdash 320 321 227 204
endash 261 320 226 205
equal 075 075 075 075
eth - - 360 360
exclam 041 041 041 041
exclamdown 241 301 241 241
f 146 146 146 146
fi 256 336 - 223
five 065 065 065 065
fl 257 337 - 224
florin 246 304 203 206
four 064 064 064 064
fraction 244 332 - 207
g 147 147 147 147
germandbls 373 247 337 337
grave 301 140 140 140
greater 076 076 076 076
guillemotleft 253 307 253 253
guillemotright 273 310 273 273
guilsinglleft 254 334 213 210
guilsinglright 255 335 233 211
h 150 150 150 150
hungarumlaut 315 375 - 034
hyphen 055 055 055 055
i 151 151 151 151
iacute - 222 355 355
icircumflex - 224 356 356
idieresis - 225 357 357
igrave - 223 354 354
j 152 152 152 152
k 153 153 153 153
l 154 154 154 154
less 074 074 074 074
logicalnot - 302 254 254
lslash 370 - - 233
m 155 155 155 155
macron 305 370 257 257
minus - - - 212
mu - 265 265 265
multiply - - 327 327
n 156 156 156 156
nine 071 071 071 071
ntilde - 226 361 361
numbersign 043 043 043 043
o 157 157 157 157
oacute - 227 363 363
ocircumflex - 231 364 364
odieresis - 232 366 366
oe 372 317 234 234
ogonek 316 376 - 035
ograve - 230 362 362
one 061 061 061 061
onehalf - - 275 275
onequarter - - 274 274
onesuperior - - 271 271
ordfeminine 343 273 252 252
ordmasculine 353 274 272 272
oslash 371 277 370 370
otilde - 233 365 365
p 160 160 160 160
paragraph 266 246 266 266
parenleft 050 050 050 050
parenright 051 051 051 051
percent 045 045 045 045
period 056 056 056 056
periodcentered 264 341 267 267
perthousand 275 344 211 213
plus 053 053 053 053
plusminus - 261 261 261
q 161 161 161 161
question 077 077 077 077
questiondown 277 300 277 277
quotedbl 042 042 042 042
quotedblbase 271 343 204 214
quotedblleft 252 322 223 215
quotedblright 272 323 224 216
quoteleft 140 324 221 217
quoteright 047 325 222 220
quotesinglbase 270 342 202 221
quotesingle 251 047 047 047
r 162 162 162 162
registered - 250 256 256
ring 312 373 - 036
s 163 163 163 163
scaron - - 232 235
section 247 244 247 247
semicolon 073 073 073 073
seven 067 067 067 067
six 066 066 066 066
slash 057 057 057 057
space 040 040 040 040
sterling 243 243 243 243
t 164 164 164 164
thorn - - 376 376
three 063 063 063 063
threequarters - - 276 276
threesuperior - - 263 263
tilde 304 367 230 037
trademark - 252 231 222
two 062 062 062 062
twosuperior - - 262 262
u 165 165 165 165
uacute - 234 372 372
ucircumflex - 236 373 373
udieresis - 237 374 374
ugrave - 235 371 371
underscore 137 137 137 137
v 166 166 166 166
w 167 167 167 167
x 170 170 170 170
y 171 171 171 171
yacute - - 375 375
ydieresis - 330 377 377
yen 245 264 245 245
z 172 172 172 172
zcaron - - 236 236
zero 060 060 060 060
"""

# Adobe Glyph List, restricted to the names above (single letters and digits handled by rule).
AGL = {
    "AE": 0xC6, "Aacute": 0xC1, "Acircumflex": 0xC2, "Adieresis": 0xC4, "Agrave": 0xC0, "Aring": 0xC5,
    "Atilde": 0xC3, "Ccedilla": 0xC7, "Eacute": 0xC9, "Ecircumflex": 0xCA, "Edieresis": 0xCB,
    "Egrave": 0xC8, "Eth": 0xD0, "Euro": 0x20AC, "Iacute": 0xCD, "Icircumflex": 0xCE, "Idieresis": 0xCF,
    "Igrave": 0xCC, "Lslash": 0x141, "Ntilde": 0xD1, "OE": 0x152, "Oacute": 0xD3, "Ocircumflex": 0xD4,
    "Odieresis": 0xD6, "Ograve": 0xD2, "Oslash": 0xD8, "Otilde": 0xD5, "Scaron": 0x160, "Thorn": 0xDE,
    "Uacute": 0xDA, "Ucircumflex": 0xDB, "Udieresis": 0xDC, "Ugrave": 0xD9, "Yacute": 0xDD,
    "Ydieresis": 0x178, "Zcaron": 0x17D, "aacute": 0xE1, "acircumflex": 0xE2, "acute": 0xB4,
    "adieresis": 0xE4, "ae": 0xE6, "agrave": 0xE0, "ampersand": 0x26, "aring": 0xE5, "asciicircum": 0x5E,
    "asciitilde": 0x7E, "asterisk": 0x2A, "at": 0x40, "atilde": 0xE3, "backslash": 0x5C, "bar": 0x7C,
    "braceleft": 0x7B, "braceright": 0x7D, "bracketleft": 0x5B, "bracketright": 0x5D, "breve": 0x2D8,
    "brokenbar": 0xA6, "bullet": 0x2022, "caron": 0x2C7, "ccedilla": 0xE7, "cedilla": 0xB8, "cent": 0xA2,
    "circumflex": 0x2C6, "colon": 0x3A, "comma": 0x2C, "copyright": 0xA9, "currency": 0xA4,
    "dagger": 0x2020, "daggerdbl": 0x2021, "degree": 0xB0, "dieresis": 0xA8, "divide": 0xF7,
    "dollar": 0x24, "dotaccent": 0x2D9, "dotlessi": 0x131, "eacute": 0xE9, "ecircumflex": 0xEA,
    "edieresis": 0xEB, "egrave": 0xE8, "eight": 0x38, "ellipsis": 0x2026, "emdash": 0x2014,
    "endash": 0x2013, "equal": 0x3D, "eth": 0xF0, "exclam": 0x21, "exclamdown": 0xA1, "fi": 0xFB01,
    "five": 0x35, "fl": 0xFB02, "florin": 0x192, "four": 0x34, "fraction": 0x2044, "germandbls": 0xDF,
    "grave": 0x60, "greater": 0x3E, "guillemotleft": 0xAB, "guillemotright": 0xBB,
    "guilsinglleft": 0x2039, "guilsinglright": 0x203A, "hungarumlaut": 0x2DD, "hyphen": 0x2D,
    "iacute": 0xED, "icircumflex": 0xEE, "idieresis": 0xEF, "igrave": 0xEC, "less": 0x3C,
    "logicalnot": 0xAC, "lslash": 0x142, "macron": 0xAF, "minus": 0x2212, "mu": 0xB5, "multiply": 0xD7,
    "nine": 0x39, "ntilde": 0xF1, "numbersign": 0x23, "oacute": 0xF3, "ocircumflex": 0xF4,
    "odieresis": 0xF6, "oe": 0x153, "ogonek": 0x2DB, "ograve": 0xF2, "one": 0x31, "onehalf": 0xBD,
    "onequarter": 0xBC, "onesuperior": 0xB9, "ordfeminine": 0xAA, "ordmasculine": 0xBA, "oslash": 0xF8,
    "otilde": 0xF5, "paragraph": 0xB6, "parenleft": 0x28, "parenright": 0x29, "percent": 0x25,
    "period": 0x2E, "periodcentered": 0xB7, "perthousand": 0x2030, "plus": 0x2B, "plusminus": 0xB1,
    "question": 0x3F, "questiondown": 0xBF, "quotedbl": 0x22, "quotedblbase": 0x201E,
    "quotedblleft": 0x201C, "quotedblright": 0x201D, "quoteleft": 0x2018, "quoteright": 0x2019,
    "quotesinglbase": 0x201A, "quotesingle": 0x27, "registered": 0xAE, "ring": 0x2DA, "scaron": 0x161,
    "section": 0xA7, "semicolon": 0x3B, "seven": 0x37, "six": 0x36, "slash": 0x2F, "space": 0x20,
    "sterling": 0xA3, "thorn": 0xFE, "three": 0x33, "threequarters": 0xBE, "threesuperior": 0xB3,
    "tilde": 0x2DC, "trademark": 0x2122, "two": 0x32, "twosuperior": 0xB2, "uacute": 0xFA,
    "ucircumflex": 0xFB, "udieresis": 0xFC, "ugrave": 0xF9, "underscore": 0x5F, "yacute": 0xFD,
    "ydieresis": 0xFF, "yen": 0xA5, "zcaron": 0x17E, "zero": 0x30,
}

# Footnotes 4 and 5 (duplicate codes), see the decisions in the module docstring.
EXTRA = {"MAC": {0o312: 0xA0}, "WIN": {0o240: 0xA0, 0o255: 0xAD}, "STD": {}, "PDF": {0x09: 0x09, 0x0A: 0x0A, 0x0D: 0x0D}}

# Second, positional transcription of the PostScript StandardEncoding vector (PLRM App. E.5).
STD_POS = {
    0x20: "space exclam quotedbl numbersign dollar percent ampersand quoteright parenleft parenright asterisk plus comma hyphen period slash",
    0x30: "zero one two three four five six seven eight nine colon semicolon less equal greater question",
    0x40: "at A B C D E F G H I J K L M N O",
    0x50: "P Q R S T U V W X Y Z bracketleft backslash bracketright asciicircum underscore",
    0x60: "quoteleft a b c d e f g h i j k l m n o",
    0x70: "p q r s t u v w x y z braceleft bar braceright asciitilde .notdef",
    0xA0: ".notdef exclamdown cent sterling fraction yen florin section currency quotesingle quotedblleft guillemotleft guilsinglleft guilsinglright fi fl",
    0xB0: ".notdef endash dagger daggerdbl periodcentered .notdef paragraph bullet quotesinglbase quotedblbase quotedblright guillemotright ellipsis perthousand .notdef questiondown",
    0xC0: ".notdef grave acute circumflex tilde macron breve dotaccent dieresis .notdef ring cedilla .notdef hungarumlaut ogonek caron",
    0xD0: "emdash .notdef .notdef .notdef .notdef .notdef .notdef .notdef .notdef .notdef .notdef .notdef .notdef .notdef .notdef .notdef",
    0xE0: ".notdef AE .notdef ordfeminine .notdef .notdef .notdef .notdef Lslash Oslash OE ordmasculine .notdef .notdef .notdef .notdef",
    0xF0: ".notdef ae .notdef .notdef .notdef dotlessi .notdef .notdef lslash oslash oe germandbls .notdef .notdef .notdef .notdef",
}

# slots where Python's codec legitimately differs from Annex D: (encoding, byte) -> (annexD, codec)
EXPECTED_DIFFS = {
    ("MAC", 0xDB): (0xA4, 0x20AC),   # Annex D: currency; Mac OS Roman since 8.5: euro
}


def uni(name):
    if len(name) == 1:
        return ord(name)
    return AGL[name]


def derive():
    tabs = {k: [None] * 256 for k in ("STD", "MAC", "WIN", "PDF")}
    errs = []
    for line in D2.strip().splitlines():
        parts = line.split()
        if len(parts) != 5:
            errs.append(f"bad line {line!r}")
            continue
        name, codes = parts[0], parts[1:]
        for k, oc in zip(("STD", "MAC", "WIN", "PDF"), codes):
            if oc == "-":
                continue
            if not re.fullmatch(r"[0-3][0-7][0-7]", oc):
                errs.append(f"bad octal {oc} for {name}")
                continue
            b = int(oc, 8)
            if tabs[k][b] is not None:
                errs.append(f"{k} code {oc} assigned twice ({name})")
            tabs[k][b] = uni(name)
    for k, ex in EXTRA.items():
        for b, u in ex.items():
            if tabs[k][b] is not None:
                errs.append(f"{k} extra slot {b:#x} already taken")
            tabs[k][b] = u
    return tabs, errs


def crosscheck(tabs):
    errs = []
    # 2. positional StandardEncoding
    pos = [None] * 256
    for base, names in STD_POS.items():
        ns = names.split()
        assert len(ns) == 16, (hex(base), len(ns))
        for i, n in enumerate(ns):
            if n != ".notdef":
                pos[base + i] = uni(n)
    for b in range(256):
        if pos[b] != tabs["STD"][b]:
            errs.append(f"STD {b:#04x}: by-name {tabs['STD'][b]} positional {pos[b]}")
    # 3. codecs
    for k, codec in (("WIN", "cp1252"), ("MAC", "mac_roman")):
        for b in range(256):
            u = tabs[k][b]
            if u is None:
                continue
            try:
                c = ord(bytes([b]).decode(codec))
            except UnicodeDecodeError:
                c = None
            if (k, b) in EXPECTED_DIFFS:
                if EXPECTED_DIFFS[(k, b)] != (u, c):
                    errs.append(f"{k} {b:#04x}: expected documented difference {EXPECTED_DIFFS[(k, b)]}, got {(u, c)}")
            elif c != u:
                errs.append(f"{k} {b:#04x}: Annex D {u:#x} codec {c}")
    # undefined WinAnsi slots are exactly these
    undef = [b for b in range(0x20, 256) if tabs["WIN"][b] is None]
    if undef != [0x7F, 0x81, 0x8D, 0x8F, 0x90, 0x9D]:
        errs.append(f"WIN undefined slots {[hex(b) for b in undef]}")
    # 4. PDFDoc
    for b in range(256):
        u = tabs["PDF"][b]
        if 0x20 <= b <= 0x7E and u != b:
            errs.append(f"PDF {b:#04x} not ASCII")
        if 0xA1 <= b <= 0xFF and b != 0xAD and u != b:
            errs.append(f"PDF {b:#04x} not Latin-1")
    undef = [b for b in range(0x18, 256) if tabs["PDF"][b] is None]
    if undef != [0x7F, 0x9F, 0xAD]:
        errs.append(f"PDF undefined slots {[hex(b) for b in undef]}")
    # every table is injective
    for k, t in tabs.items():
        vals = [u for u in t if u is not None]
        if len(vals) != len(set(vals)):
            errs.append(f"{k} not injective")
    return errs


LEAN_NAMES = {"STD": "standardTbl", "MAC": "macRomanTbl", "WIN": "winAnsiTbl", "PDF": "pdfDocTbl"}


def emit(tabs):
    out = []
    for k in ("STD", "MAC", "WIN", "PDF"):
        out.append(f"def {LEAN_NAMES[k]} : List (Option Nat) := [")
        for row in range(16):
            cells = []
            for col in range(16):
                u = tabs[k][row * 16 + col]
                cells.append("X" if u is None else f"s 0x{u:04X}")
            sep = "," if row < 15 else ""
            out.append(f"  /- {row:X}0 -/ " + ", ".join(c.rjust(8) for c in cells) + sep)
        out.append("]")
        out.append("")
    return "\n".join(out)


def parse_lean(path):
    src = open(path).read()
    res = {}
    for k, name in LEAN_NAMES.items():
        m = re.search(r"def " + name + r" : List \(Option Nat\) := \[(.*?)\n\]", src, re.S)
        if not m:
            return None, f"table {name} not found in {path}"
        body = re.sub(r"/-.*?-/", "", m.group(1))
        cells = [c.strip() for c in body.replace("\n", " ").split(",")]
        t = []
        for c in cells:
            if c == "X":
                t.append(None)
            else:
                mm = re.fullmatch(r"s 0x([0-9A-Fa-f]+)", c)
                if not mm:
                    return None, f"cell {c!r} in {name}"
                t.append(int(mm.group(1), 16))
        res[k] = t
    return res, None


def main():
    tabs, errs = derive()
    errs += crosscheck(tabs)
    if "--emit" in sys.argv:
        print(emit(tabs))
    lean = os.path.join(os.path.dirname(os.path.dirname(os.path.abspath(__file__))), "lean", "OxiVerif", "Spec", "AnnexD.lean")
    if os.path.exists(lean):
        lt, e = parse_lean(lean)
        if e:
            errs.append(e)
        else:
            for k in tabs:
                if len(lt[k]) != 256:
                    errs.append(f"{LEAN_NAMES[k]} has {len(lt[k])} entries")
                elif lt[k] != tabs[k]:
                    bad = [hex(b) for b in range(256) if lt[k][b] != tabs[k][b]]
                    errs.append(f"{LEAN_NAMES[k]} differs from the by-name transcription at {bad}")
    for e in errs:
        print("ANNEXD-CROSSCHECK-FAIL", e)
    if not errs:
        for k in ("STD", "MAC", "WIN", "PDF"):
            print(f"ok {k}: {sum(1 for u in tabs[k] if u is not None)} defined slots")
    sys.exit(1 if errs else 0)


if __name__ == "__main__":
    main()
