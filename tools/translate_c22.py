#!/usr/bin/env python3
"""
C22 translator: re-target /repo's batch module at the `shuttle` controlled scheduler.

Copies /repo/oxidize-pdf-core/src/batch/*.rs into /verif/batchsim/src/batch/ with exactly these
textual substitutions (nothing else is touched):

    std::sync::        ->  shuttle::sync::
    use std::thread;   ->  use shuttle::thread;

`crate::error` / `crate::operations` resolve to re-exports of the REAL crate (batchsim/src/lib.rs).
Prints `TIE-BROKEN <why>` when the file list changed, a substitution target disappeared, or the
non-test part of a file reaches threads / locks by a path the substitutions do not cover.
Prints `GEN-DIFF <file> ...` when the generated text differs from the committed snapshot.
"""
import os
import re
import subprocess
import sys

VERIF = os.path.dirname(os.path.dirname(os.path.abspath(__file__)))
REPO = os.environ.get("VERIF_REPO", "/repo")
SRC = os.path.join(REPO, "oxidize-pdf-core", "src", "batch")
DST = os.path.join(VERIF, "batchsim", "src", "batch")
EXPECTED = ["job.rs", "mod.rs", "progress.rs", "result.rs", "worker.rs"]
# file -> (needle, minimum occurrences in the non-test part)
MUST = {
    "mod.rs": [("std::sync::", 1), ("use std::thread;", 1)],
    "progress.rs": [("std::sync::", 1)],
    "worker.rs": [("std::sync::", 2), ("use std::thread;", 1)],
}
# anything that would start threads / block outside the controlled scheduler
ESCAPES = [
    r"std::thread::", r"std::\{", r"\bcrossbeam", r"\brayon\b", r"\bparking_lot\b", r"\btokio\b",
    r"std::sync\s*;", r"\bCondvar\b", r"\bBarrier\b", r"std::process", r"\bOnceLock\b", r"\blazy_static\b",
]
# anchors of the code shape the Lean model transcribes; a rewrite must be re-modelled.
# worker.rs: the ORDERED sequence of synchronising statements of `process_jobs` (dispatcher loop,
# Custom wrapper, non-Custom wrapper, hand-over, close) and of the worker loop.  Every occurrence
# of one of these tokens in the non-test part is collected in source order and the resulting
# sequence must be exactly SEQ["worker.rs"] -- a statement that is dropped, duplicated, moved
# (e.g. the store after fail_job) or replaced (e.g. a copied bool instead of the shared flag)
# breaks the tie.
TOKENS = {
    "worker.rs": [
        ("disp-load", "if cancelled.load(Ordering::SeqCst) {"),
        ("wrap-load", "if cancelled_clone.load(Ordering::SeqCst) {"),
        ("cancelled", "JobResult::Cancelled {"),
        ("ret-cancelled", "return Err(PdfError::OperationCancelled);"),
        ("start", ".start_job();"),
        ("op-custom", "panic::catch_unwind(AssertUnwindSafe(operation))"),
        ("op-other", "panic::catch_unwind(AssertUnwindSafe(|| execute_job(job)))"),
        ("complete", ".complete_job();"),
        ("success", "JobResult::Success {"),
        ("soe", "if stop_on_error {"),
        ("store", "cancelled_clone.store(true, Ordering::SeqCst);"),
        ("fail", ".fail_job();"),
        ("failed", "JobResult::Failed {"),
        ("send", ".send("),
        ("enqueue", ".send(WorkerMessage::Job(idx, wrapped_job))"),
        ("close-results", "drop(result_sender);"),
        ("close-jobs", "drop(self.sender);"),
        ("collect", "results[idx] = Some(result);"),
        ("flatten", "results.into_iter().flatten().collect()"),
        ("recv", "receiver.recv()"),
        ("run", "let _ = operation();"),
        ("load-any", ".load("),
        ("store-any", ".store("),
        ("continue", "continue;"),
        ("break", "break"),
    ],
}
WRAPPER = ["wrap-load", "load-any", "send", "cancelled", "ret-cancelled", "start", "OP",
           "complete", "send", "success", "soe", "store", "store-any", "fail", "send", "failed"]
SEQ = {
    "worker.rs": (
        ["collect",
         "disp-load", "load-any", "send", "cancelled", "continue"]
        + [("op-custom" if t == "OP" else t) for t in WRAPPER]
        + [("op-other" if t == "OP" else t) for t in WRAPPER]
        + ["enqueue", "send", "break", "close-results", "close-jobs", "flatten"]
    ),
}
# plain presence anchors
SHAPE = {
    "worker.rs": [
        "let message = {",
        "receiver.recv()",
        "Ok(WorkerMessage::Job(_idx, job)) => {",
        "fn panic_to_error(",
    ],
    "progress.rs": [
        "self.running_jobs.fetch_add(1, Ordering::SeqCst);",
        "self.running_jobs.fetch_sub(1, Ordering::SeqCst);",
        "self.completed_jobs.fetch_add(1, Ordering::SeqCst);",
        "self.failed_jobs.fetch_add(1, Ordering::SeqCst);",
        "self.completed_jobs + self.failed_jobs >= self.total_jobs",
        "let completed = self.completed_jobs.load(Ordering::SeqCst);",
        "let failed = self.failed_jobs.load(Ordering::SeqCst);",
        "let running = self.running_jobs.load(Ordering::SeqCst);",
    ],
    "mod.rs": [
        "if total_jobs == 0 {",
        "while !cancelled.load(Ordering::SeqCst) {",
        "if info.is_complete() {",
        "JobResult::Success { .. } => successful += 1,",
        "JobResult::Failed { .. } => failed += 1,",
        "JobResult::Cancelled { .. } => {}",
        "cancelled: self.cancelled.load(Ordering::SeqCst),",
        "self.cancelled.store(true, Ordering::SeqCst);",
        "self.parallelism = parallelism.max(1);",
    ],
    "result.rs": [
        "self.job_results.iter().filter(|r| r.is_success())",
        "self.job_results.iter().filter(|r| r.is_failed())",
        "self.job_results.iter().filter(|r| r.is_cancelled())",
        "self.job_results.iter().all(|r| r.is_success())",
        "(self.successful as f64 / self.total_jobs as f64) * 100.0",
    ],
}


def statement_sequence(fname, body):
    """ordered list of token names found in `body` (the part of process_jobs up to its end)"""
    hits = []
    for name, needle in TOKENS[fname]:
        start = 0
        while True:
            i = body.find(needle, start)
            if i < 0:
                break
            hits.append((i, name))
            start = i + 1
    hits.sort()
    return [n for _, n in hits]


def non_test_part(text):
    i = text.find("#[cfg(test)]")
    return text if i < 0 else text[:i]


def committed(rel):
    try:
        p = subprocess.run(["git", "-C", VERIF, "show", "HEAD:" + rel], stdout=subprocess.PIPE,
                           stderr=subprocess.DEVNULL)
        if p.returncode == 0:
            return p.stdout.decode(errors="replace")
    except OSError:
        pass
    return None


def main():
    ok = True
    try:
        files = sorted(f for f in os.listdir(SRC) if f.endswith(".rs"))
    except OSError as e:
        print(f"TIE-BROKEN batch module directory unreadable: {e}")
        return 1
    if files != EXPECTED:
        print(f"TIE-BROKEN batch module file list changed: {files} (expected {EXPECTED})")
        ok = False
    os.makedirs(DST, exist_ok=True)
    for stale in os.listdir(DST):
        if stale.endswith(".rs") and stale not in files:
            os.remove(os.path.join(DST, stale))
    for f in files:
        text = open(os.path.join(SRC, f), encoding="utf-8", errors="replace").read()
        body = non_test_part(text)
        for needle, n in MUST.get(f, []):
            if body.count(needle) < n:
                print(f"TIE-BROKEN {f}: substitution target `{needle}` occurs {body.count(needle)} time(s) in the non-test part (expected >= {n})")
                ok = False
        for anchor in SHAPE.get(f, []):
            if anchor not in body:
                print(f"TIE-BROKEN {f}: modelled statement `{anchor}` no longer present; Model/C22.lean transcribes it")
                ok = False
        if f in SEQ:
            # process_jobs only: from its signature to the next top-level method
            i0 = body.find("pub fn process_jobs(")
            i1 = body.find("/// Shutdown the worker pool")
            if i0 < 0 or i1 < i0:
                print(f"TIE-BROKEN {f}: cannot delimit WorkerPool::process_jobs")
                ok = False
            else:
                got = statement_sequence(f, body[i0:i1])
                # the generic tokens also match inside the specific ones at the same offset or later
                # on the same statement; keep the comparison simple: compare the sequences verbatim
                if got != SEQ[f]:
                    k = next((j for j, (x, y) in enumerate(zip(got, SEQ[f])) if x != y), min(len(got), len(SEQ[f])))
                    print(f"TIE-BROKEN {f}: statement sequence of WorkerPool::process_jobs differs from the one "
                          f"Model/C22.lean transcribes at position {k}: found {got[max(0,k-2):k+3]}, expected {SEQ[f][max(0,k-2):k+3]}")
                    ok = False
        out = text.replace("std::sync::", "shuttle::sync::").replace("use std::thread;", "use shuttle::thread;")
        for pat in ESCAPES:
            m = re.search(pat, non_test_part(out))
            if m:
                print(f"TIE-BROKEN {f}: `{m.group(0)}` in the non-test part is not covered by the substitutions (threads/locks outside the controlled scheduler)")
                ok = False
        header = f"// GENERATED by tools/translate_c22.py from oxidize-pdf-core/src/batch/{f} -- do not edit\n"
        out = header + out
        rel = os.path.join("batchsim", "src", "batch", f)
        old = committed(rel)
        path = os.path.join(DST, f)
        if old is None and os.path.exists(path):
            old = open(path, encoding="utf-8", errors="replace").read()
        if old is not None and old != out:
            a, b = old.split("\n"), out.split("\n")
            changed = sum(1 for x, y in zip(a, b) if x != y) + abs(len(a) - len(b))
            first = next((i + 1 for i, (x, y) in enumerate(zip(a, b)) if x != y), min(len(a), len(b)) + 1)
            print(f"GEN-DIFF {rel}: differs from the committed snapshot ({changed} line(s), first at line {first})")
        path = os.path.join(DST, f)
        if not os.path.exists(path) or open(path, encoding="utf-8", errors="replace").read() != out:
            open(path, "w", encoding="utf-8").write(out)
    # the sim crate shares the harness target dir; check.py looks for <harness_dir>/target/debug/<bin>
    link = os.path.join(VERIF, "batchsim", "target")
    want = os.path.join("..", "harness", "target")
    if not os.path.islink(link) and not os.path.exists(link):
        os.makedirs(os.path.join(VERIF, "harness", "target"), exist_ok=True)
        os.symlink(want, link)
    return 0 if ok else 1


if __name__ == "__main__":
    sys.exit(main())
