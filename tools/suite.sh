#!/bin/sh
# Run the repository's pinned suite in a checkout (default /repo) with the hook guard OFF and
# report stable-pass tests that fail. Usage: tools/suite.sh [dir] [extra nextest filter args…]
DIR="${1:-/repo}"; shift 2>/dev/null
LOG="${SUITE_LOG:-/tmp/suite.$$.log}"
cd "$DIR" && CARGO_NET_OFFLINE=true cargo nextest run --workspace --no-fail-fast --tool-config-file pb:/w/lib/nextest.toml --profile pb --test-threads 8 --offline "$@" > "$LOG" 2>&1
grep -E "Summary" "$LOG"
python3 - "$LOG" <<'PY'
import json,sys,re
sp=set(json.load(open('/root/.vp/BASELINE.json'))['stable_pass'])
bad=set(); ids={}
for l in open(sys.argv[1], errors='replace'):
    m=re.match(r"\s+(FAIL|SIGABRT|SIGSEGV|TIMEOUT|LEAK-FAIL|SIG\w+)\s+\[.*?\]\s+(?:\(.*?\)\s+)?(\S+)\s+(\S+)", l)
    if m:
        name=m.group(2)+'::'+m.group(3)
        if name in sp: bad.add(name); ids[name]=(m.group(2),m.group(3))
print("STABLE-PASS TESTS FAILING:", len(bad))
for b in sorted(bad): print("  ", b)
for b in sorted(bad): print("RERUN\t%s\t%s" % ids[b])
PY
