#!/usr/bin/env python3
"""
C08 translator: limits and LZW constants of parser/filters.rs -> lean/OxiVerif/Gen/C08Consts.lean.

Extracted from the CURRENT source (repository root from $VERIF_REPO, default /repo):
  const MAX_DECOMPRESSED_SIZE / MAX_COMPRESSION_RATIO / RATIO_GUARD_MIN_OUTPUT   (top of the file)
  const MIN_BITS / MAX_BITS / CLEAR_CODE / EOD_CODE, `dictionary.truncate(N)`,
  `if dictionary.len() < N`                                                       (decode_lzw_with_limit)
  the four forwarding functions decode_ascii_hex / decode_ascii85 / decode_lzw / decode_run_length,
  each of which must be exactly `<name>_with_limit(<args>, MAX_DECOMPRESSED_SIZE)` — that is what
  makes "unbounded = bounded at the ceiling" a fact about the code and not only about the model.

Props/C08.lean proves `Gen.C08.maxDecompressedSize = 256 * 2^20` and that the model's constants
equal the generated ones, so an edited limit stops a theorem from checking.
Output lines understood by tools/check.py: `TIE-BROKEN <why>`, `GEN-DIFF <text>`.
"""
import os
import re
import subprocess
import sys

VERIF = os.path.dirname(os.path.dirname(os.path.abspath(__file__)))
REPO = os.environ.get("VERIF_REPO", "/repo")
SRC = os.path.join(REPO, "oxidize-pdf-core/src/parser/filters.rs")
OUT_REL = "lean/OxiVerif/Gen/C08Consts.lean"
OUT = os.path.join(VERIF, OUT_REL)

broken = False


def tie_broken(msg):
    global broken
    broken = True
    print("TIE-BROKEN " + msg, flush=True)


def const_expr(src, name, ty):
    m = re.search(r"^\s*const\s+" + name + r"\s*:\s*" + ty + r"\s*=\s*([^;]+);", src, re.M)
    if not m:
        tie_broken(f"constant {name}: {ty} not found in parser/filters.rs")
        return None
    e = m.group(1).strip().replace("_", "")
    if not re.fullmatch(r"[0-9 *+()]+", e):
        tie_broken(f"constant {name} has an expression the translator does not understand: {e}")
        return None
    return e


def norm(s):
    return re.sub(r"\s+", " ", s).strip()


def main():
    try:
        full = open(SRC).read()
    except OSError as e:
        tie_broken(f"cannot read {SRC}: {e}")
        return 1
    i = full.find("#[cfg(test)]\nmod tests")
    src_head = full if i < 0 else full[:i]
    defs = []
    for lean, name, ty in [
        ("maxDecompressedSize", "MAX_DECOMPRESSED_SIZE", "usize"),
        ("maxCompressionRatio", "MAX_COMPRESSION_RATIO", "usize"),
        ("ratioGuardMinOutput", "RATIO_GUARD_MIN_OUTPUT", "usize"),
    ]:
        e = const_expr(src_head, name, "usize")
        if e is not None:
            defs.append((lean, e, f"`const {name}: {ty}`"))
    m = re.search(r"fn decode_lzw_with_limit\(.*?\n}\n", full, re.S)
    if not m:
        tie_broken("fn decode_lzw_with_limit not found")
    else:
        body = m.group(0)
        for lean, name, ty in [
            ("lzwMinBits", "MIN_BITS", "u32"), ("lzwMaxBits", "MAX_BITS", "u32"),
            ("lzwClearCode", "CLEAR_CODE", "u16"), ("lzwEodCode", "EOD_CODE", "u16"),
        ]:
            e = const_expr(body, name, ty)
            if e is not None:
                defs.append((lean, e, f"`const {name}: {ty}` in decode_lzw_with_limit"))
        t = re.search(r"dictionary\.truncate\((\d+)\)", body)
        if t:
            defs.append(("lzwTruncate", t.group(1), "`dictionary.truncate(N)` on Clear"))
        else:
            tie_broken("dictionary.truncate(N) not found in decode_lzw_with_limit")
        t = re.search(r"if dictionary\.len\(\) < (\d+) \{", body)
        if t:
            defs.append(("lzwTableSize", t.group(1), "`if dictionary.len() < N` (table full)"))
        else:
            tie_broken("`if dictionary.len() < N {` not found in decode_lzw_with_limit")
    # forwarding functions
    fwd = [
        ("decode_ascii_hex", r"fn decode_ascii_hex\(data: &\[u8\]\) -> ParseResult<Vec<u8>> \{ decode_ascii_hex_with_limit\(data, MAX_DECOMPRESSED_SIZE\) \}"),
        ("decode_ascii85", r"fn decode_ascii85\(data: &\[u8\]\) -> ParseResult<Vec<u8>> \{ decode_ascii85_with_limit\(data, MAX_DECOMPRESSED_SIZE\) \}"),
        ("decode_lzw", r"fn decode_lzw\(data: &\[u8\], params: Option<&PdfDictionary>\) -> ParseResult<Vec<u8>> \{ decode_lzw_with_limit\(data, params, MAX_DECOMPRESSED_SIZE\) \}"),
        ("decode_run_length", r"fn decode_run_length\(data: &\[u8\]\) -> ParseResult<Vec<u8>> \{ decode_run_length_with_limit\(data, MAX_DECOMPRESSED_SIZE\) \}"),
    ]
    flat = norm(full)
    ok_fwd = True
    for name, pat in fwd:
        if not re.search(pat, flat):
            ok_fwd = False
            tie_broken(f"{name} is no longer `{name}_with_limit(.., MAX_DECOMPRESSED_SIZE)`")
    # objects.rs: PdfStream::decode / decode_with_limit forward to decode_stream{,_with_limit}
    try:
        obj = norm(open(os.path.join(REPO, "oxidize-pdf-core/src/parser/objects.rs")).read())
        if "super::filters::decode_stream(&self.data, &self.dict, options)" not in obj or \
           "super::filters::decode_stream_with_limit(&self.data, &self.dict, options, max_bytes)" not in obj:
            ok_fwd = False
            tie_broken("PdfStream::decode / decode_with_limit no longer forward to filters::decode_stream{,_with_limit}")
    except OSError as e:
        tie_broken(f"cannot read objects.rs: {e}")
    if broken:
        return 1
    lines = [
        "/- GENERATED by tools/translate_c08.py from oxidize-pdf-core/src/parser/filters.rs — do not edit.",
        "   Constants of the decompression limits and of the LZW decoder, as written in the source. -/",
        "namespace OxiVerif.Gen.C08",
        "",
    ]
    for lean, e, doc in defs:
        lines.append(f"/-- {doc} -/")
        lines.append(f"def {lean} : Nat := {e}")
        lines.append("")
    lines.append("/-- `decode_ascii_hex`, `decode_ascii85`, `decode_lzw`, `decode_run_length` are their")
    lines.append("`_with_limit` twins called with `MAX_DECOMPRESSED_SIZE`, and `PdfStream::decode{,_with_limit}`")
    lines.append("forward to `decode_stream{,_with_limit}` (matched textually). -/")
    lines.append(f"def unboundedIsBoundedAtMax : Bool := {'true' if ok_fwd else 'false'}")
    lines.append("")
    lines.append("end OxiVerif.Gen.C08")
    text = "\n".join(lines) + "\n"
    os.makedirs(os.path.dirname(OUT), exist_ok=True)
    old = open(OUT).read() if os.path.exists(OUT) else None
    if old != text:
        open(OUT, "w").write(text)
    try:
        head = subprocess.run(["git", "-C", VERIF, "show", "HEAD:" + OUT_REL], capture_output=True, text=True)
        if head.returncode == 0 and head.stdout != text:
            a, b = head.stdout.splitlines(), text.splitlines()
            for x, y in zip(a, b):
                if x != y:
                    print(f"GEN-DIFF {OUT_REL}: committed `{x.strip()}` now `{y.strip()}`", flush=True)
            if len(a) != len(b):
                print(f"GEN-DIFF {OUT_REL}: {len(a)} lines committed, {len(b)} now", flush=True)
    except OSError:
        pass
    return 0


if __name__ == "__main__":
    sys.exit(main())
