#!/bin/sh
# MANIFEST.setup_cmd: build the framework from files on disk only (offline).
set -e
cd /verif/lean && lake build 2>&1 | tail -3
cd /verif/harness && cp /repo/Cargo.lock Cargo.lock && CARGO_NET_OFFLINE=true RUSTFLAGS="--cfg bzsanti_oxidizepdf_verif" cargo build --offline --bins 2>&1 | tail -3
