#!/bin/sh
# MANIFEST.setup_cmd: build the framework from files on disk only (offline).
# Builds what the claimed checks need; every check rebuilds incrementally anyway, so a failure
# here is reported but does not stop the remaining builds.
cd /verif
IDS=$(python3 -c "import json;print(' '.join(c['property_id'] for c in json.load(open('MANIFEST.json'))['checks']))")
cd /verif/lean
lake build OxiVerif.Base.Driver OxiVerif.Base.Audit 2>&1 | tail -1
for id in $IDS; do
  low=$(echo "$id" | tr 'A-Z' 'a-z')
  lake build "OxiVerif.Props.$id" "drv_$low" 2>&1 | tail -1
done
cd /verif/harness && cp /repo/Cargo.lock Cargo.lock
export CARGO_NET_OFFLINE=true RUSTFLAGS="--cfg bzsanti_oxidizepdf_verif"
for id in $IDS; do
  low=$(echo "$id" | tr 'A-Z' 'a-z')
  dir=$(python3 -c "import json,os;p='/verif/tools/props/$id.json';print(json.load(open(p)).get('harness_dir','harness') if os.path.exists(p) else 'harness')")
  bin=$(python3 -c "import json,os;p='/verif/tools/props/$id.json';print(json.load(open(p)).get('bin','$low') if os.path.exists(p) else '$low')")
  (cd "/verif/$dir" && cargo build --offline --bin "$bin" 2>&1 | tail -1)
done
exit 0
