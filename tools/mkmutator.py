#!/usr/bin/env python3
"""Prints the prompt for a fresh mutation-writing agent for property Cxx and creates its worktree."""
import json, sys, os, subprocess
pid = sys.argv[1]; tag = sys.argv[2] if len(sys.argv) > 2 else "a"
rec = next(json.loads(l) for l in open('/verif/properties.jsonl') if json.loads(l)['id'] == pid)
wt = f"/tmp/mut/{pid}{tag}/wt"; out = f"/tmp/mut/{pid}{tag}/out"
os.makedirs(out, exist_ok=True)
if not os.path.exists(wt):
    subprocess.run(["git", "-C", "/repo", "worktree", "add", "--detach", wt, "HEAD"], check=True, stdout=subprocess.DEVNULL, stderr=subprocess.DEVNULL)
t = open('/verif/tools/MUTATOR_PROMPT.md').read()
for k, v in {"{WT}": wt, "{OUT}": out, "{ID}": pid, "{TITLE}": rec['title'], "{STATEMENT}": rec['statement'],
             "{QUANT}": rec['quantifier']['text'], "{FILES}": ", ".join(rec['anchors']['files'])}.items():
    t = t.replace(k, v)
print(t)
