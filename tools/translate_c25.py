#!/usr/bin/env python3
"""
C25 translator: Rust encoding tables -> lean/OxiVerif/Gen/C25Tables.lean (DATA, not code).

Sources (current working tree of /repo):
  oxidize-pdf-core/src/text/encoding.rs
      winansi_encode_char, winansi_decode_char, macroman_encode_char      (whole match)
      TextEncoding::encode  (WinAnsi arm list, MacRoman arm list; Standard/PDFDoc = `text.bytes()`)
      TextEncoding::decode  (WinAnsi arm list, MacRoman arm list; Standard/PDFDoc = from_utf8_lossy)
      TextEncoding::encode_strict (dispatch + the ASCII limit of Standard/PDFDoc)
  oxidize-pdf-core/src/parser/encoding.rs
      EnhancedDecoder::initialize_encoding_tables: the Latin-1 loop bounds, `windows1252_extensions`,
      `macroman_chars`, `pdfdoc_chars` (+ the keys removed from the Latin-1 clone);
      decode_with_encoding: the `byte < 0x80` split and the replacement character

  oxidize-pdf-core/src/text/extraction_cmap.rs
      decode_winansi, decode_macroman, decode_standard (whole match) and the dispatch on the base encoding
      name in decode_with_encoding

Every function body is matched as a WHOLE against a template (comments stripped, white space
collapsed) whose only holes are the arm lists / constants; so a change of control flow around the
tables is noticed too.  Output lines understood by tools/check.py:
  TIE-BROKEN <why>   the source no longer has the expected shape (nothing is written for that part)
  GEN-DIFF <text>    the regenerated file differs from the committed snapshot (git HEAD)
"""
import os
import re
import subprocess
import sys

VERIF = os.path.dirname(os.path.dirname(os.path.abspath(__file__)))
REPO = os.environ.get("VERIF_REPO", "/repo")
SRC_TEXT = os.path.join(REPO, "oxidize-pdf-core/src/text/encoding.rs")
SRC_PARSER = os.path.join(REPO, "oxidize-pdf-core/src/parser/encoding.rs")
SRC_XCMAP = os.path.join(REPO, "oxidize-pdf-core/src/text/extraction_cmap.rs")
OUT_REL = "lean/OxiVerif/Gen/C25Tables.lean"
OUT = os.path.join(VERIF, OUT_REL)

broken = []


def tie_broken(msg):
    broken.append(msg)
    print("TIE-BROKEN " + msg, flush=True)


def strip_comments(src):
    """Remove // comments (not inside char/string literals) and /* */ comments."""
    out = []
    i, n = 0, len(src)
    while i < n:
        c = src[i]
        if src.startswith("//", i):
            while i < n and src[i] != "\n":
                i += 1
        elif src.startswith("/*", i):
            j = src.find("*/", i + 2)
            i = n if j < 0 else j + 2
        elif c == '"':
            j = i + 1
            while j < n and src[j] != '"':
                j += 2 if src[j] == "\\" else 1
            out.append(src[i:j + 1])
            i = j + 1
        elif c == "'" or (c == "b" and src.startswith("b'", i)):
            k = i + (2 if c == "b" else 1)
            m = re.match(r"(\\u\{[0-9A-Fa-f]+\}|\\x[0-9A-Fa-f]{2}|\\.|[^'\\])'", src[k:])
            if m:
                out.append(src[i:k + m.end()])
                i = k + m.end()
            else:  # a lifetime, not a char literal
                out.append(c)
                i += 1
        else:
            out.append(c)
            i += 1
    return "".join(out)


def norm(s):
    return re.sub(r"\s+", " ", s).strip()


def cut_tests(src):
    i = src.find("#[cfg(test)]")
    return src if i < 0 else src[:i]


def fn_body(src, header_re, what):
    """Text of `fn … { … }` (header included) found by brace matching."""
    m = re.search(header_re, src)
    if not m:
        tie_broken(f"{what}: function header not found")
        return None
    i = src.find("{", m.end() - 1)
    depth, j = 0, i
    in_char = False
    while j < len(src):
        c = src[j]
        if c == "'" :
            mm = re.match(r"'(\\u\{[0-9A-Fa-f]+\}|\\x[0-9A-Fa-f]{2}|\\.|[^'\\])'", src[j:])
            if mm:
                j += mm.end()
                continue
        if c == '"':
            k = j + 1
            while k < len(src) and src[k] != '"':
                k += 2 if src[k] == "\\" else 1
            j = k + 1
            continue
        if c == "{":
            depth += 1
        elif c == "}":
            depth -= 1
            if depth == 0:
                return src[m.start():j + 1]
        j += 1
    tie_broken(f"{what}: unbalanced braces")
    return None


HEX = r"0x[0-9A-Fa-f_]+"


def hexval(t):
    return int(t.replace("_", ""), 16)


def char_lit(t):
    """Value of a Rust char literal `'x'`, `'\\u{..}'`, `b'?'`."""
    m = re.fullmatch(r"b?'(.*)'", t)
    if not m:
        return None
    body = m.group(1)
    mm = re.fullmatch(r"\\u\{([0-9A-Fa-f]+)\}", body)
    if mm:
        return int(mm.group(1), 16)
    mm = re.fullmatch(r"\\x([0-9A-Fa-f]{2})", body)
    if mm:
        return int(mm.group(1), 16)
    esc = {"\\n": 10, "\\r": 13, "\\t": 9, "\\\\": 92, "\\'": 39, "\\0": 0, '\\"': 34}
    if body in esc:
        return esc[body]
    if len(body) == 1:
        return ord(body)
    return None


def split_arms(text):
    """Split `PAT => RHS, PAT => RHS, …` at depth-0 commas (char literals respected)."""
    arms, depth, cur, i = [], 0, [], 0
    while i < len(text):
        c = text[i]
        if c == "'" or text.startswith("b'", i):
            k = i + (1 if c == "'" else 2)
            mm = re.match(r"(\\u\{[0-9A-Fa-f]+\}|\\x[0-9A-Fa-f]{2}|\\.|[^'\\])'", text[k:])
            if mm:
                cur.append(text[i:k + mm.end()])
                i = k + mm.end()
                continue
        if c in "([{":
            depth += 1
        elif c in ")]}":
            depth -= 1
        if c == "," and depth == 0:
            arms.append("".join(cur).strip())
            cur = []
        else:
            cur.append(c)
        i += 1
    last = "".join(cur).strip()
    if last:
        arms.append(last)
    return arms


def parse_rhs(rhs, kind):
    """-> ('ident',) | ('const', k) | ('none',) | None"""
    rhs = rhs.strip()
    if kind == "opt":           # Option<u8>
        if rhs == "None":
            return ("none",)
        if rhs == "Some(ch as u8)":
            return ("ident",)
        m = re.fullmatch(r"Some\((" + HEX + r")\)", rhs)
        if m:
            return ("const", hexval(m.group(1)))
        m = re.fullmatch(r"Some\((b'.*')\)", rhs)
        if m and char_lit(m.group(1)) is not None:
            return ("const", char_lit(m.group(1)))
    elif kind == "push":        # result.push(..)
        if rhs == "result.push(ch as u8)":
            return ("ident",)
        m = re.fullmatch(r"result\.push\((" + HEX + r")\)", rhs)
        if m:
            return ("const", hexval(m.group(1)))
        m = re.fullmatch(r"result\.push\((b'.*')\)", rhs)
        if m and char_lit(m.group(1)) is not None:
            return ("const", char_lit(m.group(1)))
    elif kind == "char":        # char-valued
        if rhs == "byte as char":
            return ("ident",)
        # a byte is never a surrogate, so from_u32 succeeds and this is the identity
        if rhs == "char::from_u32(byte as u32).unwrap_or('?')":
            return ("ident",)
        v = char_lit(rhs)
        if v is not None:
            return ("const", v)
    return None


def parse_match(arms_text, kind, what, domain_max):
    """-> (arms:list of ('range',lo,hi)|('point',c,b), dflt) or None"""
    arms, dflt = [], ("absent",)
    parts = split_arms(arms_text)
    for idx, a in enumerate(parts):
        if "=>" not in a:
            tie_broken(f"{what}: cannot parse arm {a[:60]!r}")
            return None
        pat, rhs = a.split("=>", 1)
        pat = pat.strip()
        r = parse_rhs(rhs, kind)
        if r is None:
            tie_broken(f"{what}: unrecognised right-hand side in arm `{norm(a)[:80]}`")
            return None
        if pat == "_":
            if idx != len(parts) - 1:
                tie_broken(f"{what}: default arm is not last")
                return None
            dflt = r
            continue
        for alt in [p.strip() for p in pat.split("|")]:
            m = re.fullmatch(r"(" + HEX + r")\s*\.\.=\s*(" + HEX + r")", alt)
            if m:
                lo, hi = hexval(m.group(1)), hexval(m.group(2))
            elif re.fullmatch(HEX, alt):
                lo = hi = hexval(alt)
            else:
                tie_broken(f"{what}: unrecognised pattern `{alt}`")
                return None
            if hi > domain_max:
                tie_broken(f"{what}: pattern `{alt}` exceeds the scrutinee's domain")
                return None
            if r[0] == "ident":
                if hi > 0xFF and kind in ("opt", "push"):
                    tie_broken(f"{what}: `{alt} => … ch as u8` truncates above 0xFF (not an identity arm)")
                    return None
                arms.append(("range", lo, hi))
            elif r[0] == "const":
                if hi - lo > 255:
                    tie_broken(f"{what}: constant arm over a range of {hi - lo + 1} values")
                    return None
                for c in range(lo, hi + 1):
                    arms.append(("point", c, r[1]))
            else:  # `PAT => None` inside the arms: shadowing arm, keep as data is impossible
                tie_broken(f"{what}: non-default arm `{alt}` yields None")
                return None
    return arms, dflt


def hole_match(template, text, what):
    """template: normalised text with `<<name>>` holes; returns dict or None."""
    rx = ""
    for part in re.split(r"(<<\w+>>)", template):
        m = re.fullmatch(r"<<(\w+)>>", part)
        rx += f"(?P<{m.group(1)}>.*?)" if m else re.escape(part)
    mm = re.fullmatch(rx, text)
    if not mm:
        # locate the first point of divergence for the message
        fixed = re.split(r"<<\w+>>", template)[0]
        k = 0
        while k < min(len(fixed), len(text)) and fixed[k] == text[k]:
            k += 1
        tie_broken(f"{what}: body no longer matches the expected shape (near `{text[max(0,k-30):k+50]}`)")
        return None
    return mm.groupdict()


T_ENC_CHAR = "pub fn {name}(ch: char) -> Option<u8> {{ match ch as u32 {{ <<arms>> }} }}"
T_DEC_CHAR = "pub fn winansi_decode_char(byte: u8) -> char { match byte { <<arms>> } }"
T_ENCODE = (
    "pub fn encode(&self, text: &str) -> Vec<u8> { match self { "
    "TextEncoding::StandardEncoding | TextEncoding::PdfDocEncoding => { text.bytes().collect() } "
    "TextEncoding::WinAnsiEncoding => { let mut result = Vec::new(); for ch in text.chars() { "
    "match ch as u32 { <<win>> } } result } "
    "TextEncoding::MacRomanEncoding => { let mut result = Vec::new(); for ch in text.chars() { "
    "match ch as u32 { <<mac>> } } result } } }"
)
T_DECODE = (
    "pub fn decode(&self, data: &[u8]) -> String { match self { "
    "TextEncoding::StandardEncoding | TextEncoding::PdfDocEncoding => { "
    "String::from_utf8_lossy(data).to_string() } "
    "TextEncoding::WinAnsiEncoding => { let mut result = String::new(); for &byte in data { "
    "let ch = match byte { <<win>> }; result.push(ch); } result } "
    "TextEncoding::MacRomanEncoding => { let mut result = String::new(); for &byte in data { "
    "let ch = match byte { <<mac>> }; result.push(ch); } result } } }"
)
T_STRICT = (
    "pub fn encode_strict(&self, text: &str) -> Result<Vec<u8>, char> { "
    "let mut out = Vec::with_capacity(text.len()); for ch in text.chars() { match self { "
    "TextEncoding::WinAnsiEncoding => match winansi_encode_char(ch) { "
    "Some(b) => out.push(b), None => return Err(ch), }, "
    "TextEncoding::MacRomanEncoding => match macroman_encode_char(ch) { "
    "Some(b) => out.push(b), None => return Err(ch), }, "
    "TextEncoding::StandardEncoding | TextEncoding::PdfDocEncoding => { "
    "if (ch as u32) <= <<limit>> { out.push(ch as u8); } else { return Err(ch); } } } } Ok(out) }"
)


def lean_arms(name, arms, doc):
    lines = [f"/-- {doc} -/", f"def {name} : List Arm := ["]
    items = []
    for a in arms:
        if a[0] == "range":
            items.append(f"  .range 0x{a[1]:02X} 0x{a[2]:02X}")
        else:
            items.append(f"  .point 0x{a[1]:02X} 0x{a[2]:02X}")
    lines.append(",\n".join(items))
    lines.append("]")
    return "\n".join(lines)


def lean_dflt(name, d):
    v = {"none": ".none", "ident": ".ident", "absent": ".absent"}.get(d[0])
    if d[0] == "const":
        v = f".const 0x{d[1]:02X}"
    return f"def {name} : Dflt := {v}"


def translate():
    out = []
    try:
        text_src = cut_tests(open(SRC_TEXT, encoding="utf-8").read())
    except OSError as e:
        tie_broken(f"cannot read {SRC_TEXT}: {e}")
        return None
    text_src = strip_comments(text_src)

    def whole(header_re, template, what):
        body = fn_body(text_src, header_re, what)
        if body is None:
            return None
        return hole_match(template, norm(body), what)

    tables = []   # (lean name, arms, dflt, doc)

    for fn in ("winansi_encode_char", "macroman_encode_char"):
        g = whole(r"pub fn " + fn + r"\(", T_ENC_CHAR.format(name=fn), fn)
        if g:
            r = parse_match(g["arms"], "opt", fn, 0xFFFFFFFF)
            if r:
                tables.append((fn, r, f"`{fn}` (text/encoding.rs): `match ch as u32`"))
    g = whole(r"pub fn winansi_decode_char\(", T_DEC_CHAR, "winansi_decode_char")
    if g:
        r = parse_match(g["arms"], "char", "winansi_decode_char", 0xFF)
        if r:
            tables.append(("winansi_decode_char", r, "`winansi_decode_char` (text/encoding.rs): `match byte`"))
    g = whole(r"pub fn encode\(&self", T_ENCODE, "TextEncoding::encode")
    if g:
        for k, nm in (("win", "te_encode_winansi"), ("mac", "te_encode_macroman")):
            r = parse_match(g[k], "push", f"TextEncoding::encode/{k}", 0xFFFFFFFF)
            if r:
                tables.append((nm, r, f"`TextEncoding::encode`, {k} branch: `match ch as u32`"))
    g = whole(r"pub fn decode\(&self", T_DECODE, "TextEncoding::decode")
    if g:
        for k, nm in (("win", "te_decode_winansi"), ("mac", "te_decode_macroman")):
            r = parse_match(g[k], "char", f"TextEncoding::decode/{k}", 0xFF)
            if r:
                tables.append((nm, r, f"`TextEncoding::decode`, {k} branch: `match byte`"))
    limit = None
    g = whole(r"pub fn encode_strict\(&self", T_STRICT, "TextEncoding::encode_strict")
    if g:
        if re.fullmatch(HEX, g["limit"].strip()):
            limit = hexval(g["limit"].strip())
            if limit > 0xFF:
                tie_broken("encode_strict: ASCII limit above 0xFF (`ch as u8` truncates)")
                limit = None
        else:
            tie_broken(f"encode_strict: limit `{g['limit']}` is not a hex literal")

    # ---- parser/encoding.rs ---------------------------------------------------------------
    ptables = None
    try:
        psrc = strip_comments(cut_tests(open(SRC_PARSER, encoding="utf-8").read()))
        ptables = translate_parser(psrc)
    except OSError as e:
        tie_broken(f"cannot read {SRC_PARSER}: {e}")

    # ---- text/extraction_cmap.rs: the base-encoding decoders of `decode_with_encoding` -----------
    xtables = None
    try:
        xsrc = strip_comments(cut_tests(open(SRC_XCMAP, encoding="utf-8").read()))
        xtables = translate_xcmap(xsrc)
    except OSError as e:
        tie_broken(f"cannot read {SRC_XCMAP}: {e}")

    expected = {"winansi_encode_char", "macroman_encode_char", "winansi_decode_char", "te_encode_winansi",
                "te_encode_macroman", "te_decode_winansi", "te_decode_macroman"}
    if {t[0] for t in tables} != expected or limit is None or ptables is None or xtables is None:
        return None

    camel = {
        "winansi_encode_char": "winansiEncodeChar", "macroman_encode_char": "macromanEncodeChar",
        "winansi_decode_char": "winansiDecodeChar", "te_encode_winansi": "teEncodeWinAnsi",
        "te_encode_macroman": "teEncodeMacRoman", "te_decode_winansi": "teDecodeWinAnsi",
        "te_decode_macroman": "teDecodeMacRoman",
    }
    out.append("import OxiVerif.Model.C25Arms")
    out.append("/-!")
    out.append("GENERATED by tools/translate_c25.py — do not edit.")
    out.append("Source: oxidize-pdf-core/src/text/encoding.rs, oxidize-pdf-core/src/parser/encoding.rs")
    out.append("Every `match` is a `List Arm` in source order + the default arm; meaning: `Model/C25Arms.lean`.")
    out.append("-/")
    out.append("namespace OxiVerif.C25.Gen")
    out.append("open OxiVerif.C25")
    out.append("")
    for nm, (arms, dflt), doc in tables:
        out.append(lean_arms(camel[nm] + "Arms", arms, doc))
        out.append(lean_dflt(camel[nm] + "Dflt", dflt))
        out.append("")
    out.append("/-- `encode_strict`, Standard/PDFDoc branch: `(ch as u32) <= LIMIT` is accepted as the byte itself. -/")
    out.append(f"def strictAsciiMax : Nat := 0x{limit:02X}")
    out.append("")
    out.extend(ptables)
    for nm, (arms, dflt), doc in xtables:
        out.append(lean_arms(nm + "Arms", arms, doc))
        out.append(lean_dflt(nm + "Dflt", dflt))
        out.append("")
    out.append("end OxiVerif.C25.Gen")
    return "\n".join(out) + "\n"


T_INIT = (
    "fn initialize_encoding_tables(&mut self) { for i in <<llo>>..=<<lhi>> { "
    "if let Some(ch) = char::from_u32(i as u32) { self.latin1_map.insert(i, ch); } } "
    "let windows1252_extensions = [ <<w>> ]; "
    "self.windows1252_map = self.latin1_map.clone(); "
    "for (byte, ch) in windows1252_extensions.iter() { self.windows1252_map.insert(*byte, *ch); } "
    "let macroman_chars = [ <<m>> ]; "
    "for (byte, ch) in macroman_chars.iter() { self.macroman_map.insert(*byte, *ch); } "
    "let pdfdoc_chars = [ <<p>> ]; "
    "self.pdfdoc_map = self.latin1_map.clone(); <<rm>>"
    "for (byte, ch) in pdfdoc_chars.iter() { self.pdfdoc_map.insert(*byte, *ch); } }"
)


def parse_pairs(text, what):
    pairs = []
    for item in split_arms(text):
        m = re.fullmatch(r"\(\s*(" + HEX + r")\s*,\s*('.*')\s*\)", item.strip())
        v = char_lit(m.group(2)) if m else None
        if v is None:
            tie_broken(f"{what}: cannot parse entry `{item[:40]}`")
            return None
        pairs.append((hexval(m.group(1)), v))
    return pairs


def translate_parser(psrc):
    body = fn_body(psrc, r"fn initialize_encoding_tables\(&mut self\)", "EnhancedDecoder::initialize_encoding_tables")
    if body is None:
        return None
    g = hole_match(T_INIT, norm(body), "EnhancedDecoder::initialize_encoding_tables")
    if not g:
        return None
    if not (re.fullmatch(HEX, g["llo"]) and re.fullmatch(HEX, g["lhi"])):
        tie_broken("initialize_encoding_tables: Latin-1 loop bounds are not hex literals")
        return None
    llo, lhi = hexval(g["llo"]), hexval(g["lhi"])
    if lhi > 0xFF:
        tie_broken("initialize_encoding_tables: Latin-1 loop exceeds u8")
        return None
    w = parse_pairs(g["w"], "windows1252_extensions")
    m = parse_pairs(g["m"], "macroman_chars")
    pd = parse_pairs(g["p"], "pdfdoc_chars")
    if w is None or m is None or pd is None:
        return None
    # `self.pdfdoc_map.remove(&0x9F);` … between the clone and the inserts
    if not re.fullmatch(r"(self\.pdfdoc_map\.remove\(&" + HEX + r"\); )*", g["rm"]):
        tie_broken(f"initialize_encoding_tables: unexpected statements before the pdfdoc inserts `{g['rm'][:80]}`")
        return None
    removed = [hexval(x) for x in re.findall(r"remove\(&(" + HEX + r")\)", g["rm"])]
    # decode_with_encoding: per-encoding loops `if byte < 0x80 {push(byte as char)} else if let Some(&ch) = self.X_map.get(&byte) …`
    dbody = fn_body(psrc, r"fn decode_with_encoding\([^)]*\)\s*->\s*Result<String, PdfError>\s*\{", "EnhancedDecoder::decode_with_encoding")
    if dbody is None:
        return None
    nb = norm(dbody)
    for enc, mp in (("Latin1", "latin1_map"), ("Windows1252", "windows1252_map"), ("MacRoman", "macroman_map")):
        frag = (f"EncodingType::{enc} => {{ let mut result = String::with_capacity(bytes.len()); for &byte in bytes {{ "
                f"if byte < 0x80 {{ result.push(byte as char); }} else if let Some(&ch) = self.{mp}.get(&byte) {{ "
                f"result.push(ch); }} else if lenient {{ result.push('\\u{{FFFD}}'); }} else {{")
        if frag not in nb:
            tie_broken(f"decode_with_encoding: {enc} branch no longer has the expected shape")
            return None
    # PDFDocEncoding consults its map FIRST (it has entries below 0x80), then the ASCII pass-through
    pfrag = ("EncodingType::PdfDocEncoding => { let mut result = String::with_capacity(bytes.len()); for &byte in bytes { "
             "if let Some(&ch) = self.pdfdoc_map.get(&byte) { result.push(ch); } else if byte < 0x80 { "
             "result.push(byte as char); } else if lenient { result.push('\\u{FFFD}'); } else {")
    if pfrag not in nb:
        tie_broken("decode_with_encoding: PdfDocEncoding branch no longer has the expected shape")
        return None
    out = []
    # HashMap::insert: a later insert of the same key wins; lookupArms: first arm wins -> reverse.
    def arms_of(pairs, base):
        a = [("point", b, u) for (b, u) in reversed(pairs)]
        if base:
            a.append(("range", llo, lhi))
        return a
    out.append(lean_arms("edLatin1Arms", arms_of([], True), "`EnhancedDecoder.latin1_map` (parser/encoding.rs): the `for i in LO..=HI` loop"))
    out.append("")
    out.append(lean_arms("edWindows1252Arms", arms_of(w, True), "`EnhancedDecoder.windows1252_map`: `windows1252_extensions` inserted over a clone of `latin1_map` (last insert wins ⇒ reversed, then the Latin-1 range)"))
    out.append("")
    out.append(lean_arms("edMacRomanArms", arms_of(m, False), "`EnhancedDecoder.macroman_map`: `macroman_chars` (last insert wins ⇒ reversed)"))
    out.append("")
    # pdfdoc_map = clone of latin1_map, minus the removed keys, then `pdfdoc_chars` inserted over it
    pd_arms = [("point", b, u) for (b, u) in reversed(pd)]
    keep = [b for b in range(llo, lhi + 1) if b not in removed]
    i = 0
    while i < len(keep):
        j = i
        while j + 1 < len(keep) and keep[j + 1] == keep[j] + 1:
            j += 1
        pd_arms.append(("range", keep[i], keep[j]))
        i = j + 1
    out.append(lean_arms("edPdfDocArms", pd_arms, "`EnhancedDecoder.pdfdoc_map`: `pdfdoc_chars` inserted (last insert wins ⇒ reversed) over a clone of `latin1_map` from which the keys " + ", ".join(f"0x{r:02X}" for r in removed) + " were removed (⇒ the Latin-1 range split around them)"))
    out.append("")
    out.append("/-- `decode_with_encoding`: bytes below this are pushed as themselves before any map is consulted. -/")
    out.append("def edAsciiSplit : Nat := 0x80")
    out.append("/-- `decode_with_encoding(.., lenient = true)`: replacement for bytes missing from the map. -/")
    out.append("def edReplacement : Nat := 0xFFFD")
    out.append("")
    return out


T_XC = "fn {name}(byte: u8) -> char {{ match byte {{ <<arms>> }} }}"
T_XC_STD = "fn decode_standard(byte: u8) -> char { byte as char }"
XC_DISPATCH = ('let ch = match font_info.encoding.as_deref() { Some("WinAnsiEncoding") => decode_winansi(byte), '
               'Some("MacRomanEncoding") => decode_macroman(byte), Some("StandardEncoding") => decode_standard(byte), '
               '_ => byte as char, };')


def translate_xcmap(xsrc):
    """text/extraction_cmap.rs: decode_winansi / decode_macroman / decode_standard (private functions used by
    `decode_with_encoding` for fonts without ToUnicode) -> [(lean name, (arms, dflt), doc)]"""
    res = []
    for fn, lean in (("decode_winansi", "xcDecodeWinAnsi"), ("decode_macroman", "xcDecodeMacRoman")):
        body = fn_body(xsrc, r"fn " + fn + r"\(byte: u8\)", "extraction_cmap::" + fn)
        if body is None:
            return None
        g = hole_match(T_XC.format(name=fn), norm(body), "extraction_cmap::" + fn)
        if not g:
            return None
        r = parse_match(g["arms"], "char", "extraction_cmap::" + fn, 0xFF)
        if not r:
            return None
        res.append((lean, r, f"`{fn}` (text/extraction_cmap.rs): `match byte`"))
    body = fn_body(xsrc, r"fn decode_standard\(byte: u8\)", "extraction_cmap::decode_standard")
    if body is None:
        return None
    if norm(body) != T_XC_STD:
        tie_broken("extraction_cmap::decode_standard is no longer `byte as char`")
        return None
    res.append(("xcDecodeStandard", ([], ("ident",)), "`decode_standard` (text/extraction_cmap.rs): `byte as char` (\"Latin-1 as approximation\")"))
    body = fn_body(xsrc, r"fn decode_with_encoding\(text_bytes: &\[u8\], font_info: &FontInfo\)", "extraction_cmap::decode_with_encoding")
    if body is None:
        return None
    if XC_DISPATCH not in norm(body):
        tie_broken("extraction_cmap::decode_with_encoding: the base-encoding dispatch no longer has the expected shape")
        return None
    return res


def committed_snapshot():
    try:
        p = subprocess.run(["git", "-C", VERIF, "show", "HEAD:" + OUT_REL], stdout=subprocess.PIPE,
                           stderr=subprocess.DEVNULL, text=True)
        if p.returncode == 0:
            return p.stdout
    except OSError:
        pass
    return None


def main():
    new = translate()
    old_file = open(OUT, encoding="utf-8").read() if os.path.exists(OUT) else None
    snap = committed_snapshot()
    if snap is None:
        snap = old_file
    if new is None:
        # keep the last good file so that the Lean side still builds; the tie is reported broken
        print("translate_c25: source shape not recognised; Gen/C25Tables.lean left as it was", flush=True)
        sys.exit(0 if broken else 1)
    if snap is not None and snap != new:
        import difflib
        d = [l for l in difflib.unified_diff(snap.splitlines(), new.splitlines(), "committed", "regenerated", lineterm="", n=0)
             if not l.startswith(("---", "+++", "@@"))]
        print("GEN-DIFF " + " | ".join(d)[:1500], flush=True)
    if old_file != new:
        os.makedirs(os.path.dirname(OUT), exist_ok=True)
        with open(OUT, "w", encoding="utf-8") as f:
            f.write(new)
    print(f"translate_c25: ok ({OUT_REL})", flush=True)


if __name__ == "__main__":
    main()
