//! The batch module of /repo, textually re-targeted at the `shuttle` scheduler
//! (see tools/translate_c22.py).  `crate::error` and `crate::operations` are the real crate's.
#![allow(dead_code, unused_imports, clippy::all)]
pub use oxidize_pdf::error;
pub use oxidize_pdf::operations;
pub mod batch;
