//! Shared by the c09 / c30 / c21 binaries (`#[path = "../b0930_common.rs"] mod common;`):
//! request-side object trees, canonical printing of parsed `PdfObject`s and lexer tokens.
#![allow(dead_code)]

use oxidize_pdf::objects::{Dictionary, Object, ObjectId};
use oxidize_pdf::parser::lexer::{Lexer, Token};
use oxidize_pdf::parser::{ParseError, PdfObject};
use oxiharness::{hex, unhex, Rng};
use std::io::Cursor;

/// Writer-side object tree as it appears in a request line.
#[derive(Clone, Debug)]
pub enum T {
    Null,
    Bool(bool),
    Int(i64),
    Real(f64),
    Str(String),
    Hex(Vec<u8>),
    Name(String),
    Arr(Vec<T>),
    Dict(Vec<(String, T)>),
    Ref(u32, u16),
}

/// `format!("{:.6}", f)` — Rust's formatter (std, trusted); the model starts from this text.
pub fn fix6(f: f64) -> String {
    format!("{:.6}", f)
}

impl T {
    pub fn to_object(&self) -> Object {
        match self {
            T::Null => Object::Null,
            T::Bool(b) => Object::Boolean(*b),
            T::Int(i) => Object::Integer(*i),
            T::Real(f) => Object::Real(*f),
            T::Str(s) => Object::String(s.clone()),
            T::Hex(b) => Object::ByteString(b.clone()),
            T::Name(n) => Object::Name(n.clone()),
            T::Arr(xs) => Object::Array(xs.iter().map(|x| x.to_object()).collect()),
            T::Dict(kvs) => {
                let mut d = Dictionary::new();
                for (k, v) in kvs {
                    d.set(k.clone(), v.to_object());
                }
                Object::Dictionary(d)
            }
            T::Ref(n, g) => Object::Reference(ObjectId::new(*n, *g)),
        }
    }

    /// request tokens (space separated); dictionaries are printed with distinct keys in byte order
    /// (what the `HashMap` holds), so the request describes the `Object` exactly.
    pub fn tokens(&self, out: &mut Vec<String>) {
        match self {
            T::Null => out.push("n".into()),
            T::Bool(b) => out.push(if *b { "t" } else { "f" }.into()),
            T::Int(i) => out.push(format!("i{}", i)),
            T::Real(f) => out.push(format!("r{:016x}:{}", f.to_bits(), fix6(*f))),
            T::Str(s) => out.push(format!("s{}", hex(s.as_bytes()))),
            T::Hex(b) => out.push(format!("h{}", hex(b))),
            T::Name(n) => out.push(format!("/{}", hex(n.as_bytes()))),
            T::Arr(xs) => {
                out.push("[".into());
                for x in xs {
                    x.tokens(out);
                }
                out.push("]".into());
            }
            T::Dict(kvs) => {
                out.push("<".into());
                let mut m: std::collections::BTreeMap<&[u8], &T> = Default::default();
                for (k, v) in kvs {
                    m.insert(k.as_bytes(), v);
                }
                for (k, v) in m {
                    out.push(format!("k{}", hex(k)));
                    v.tokens(out);
                }
                out.push(">".into());
            }
            T::Ref(n, g) => out.push(format!("R{}.{}", n, g)),
        }
    }

    pub fn to_req(&self) -> String {
        let mut v = vec![];
        self.tokens(&mut v);
        v.join(" ")
    }
}

fn parse_tree_at(toks: &[&str], pos: &mut usize, depth: usize) -> Option<T> {
    if depth > 200 {
        return None;
    }
    let t = *toks.get(*pos)?;
    *pos += 1;
    let (c, rest) = t.split_at(1);
    Some(match c {
        "n" if rest.is_empty() => T::Null,
        "t" if rest.is_empty() => T::Bool(true),
        "f" if rest.is_empty() => T::Bool(false),
        "i" => T::Int(rest.parse().ok()?),
        "r" => {
            let (bits, txt) = rest.split_once(':')?;
            let f = f64::from_bits(u64::from_str_radix(bits, 16).ok()?);
            if fix6(f) != txt {
                return None;
            }
            T::Real(f)
        }
        "s" => T::Str(String::from_utf8(unhex(rest)?).ok()?),
        "h" => T::Hex(unhex(rest)?),
        "/" => T::Name(String::from_utf8(unhex(rest)?).ok()?),
        "R" => {
            let (n, g) = rest.split_once('.')?;
            T::Ref(n.parse().ok()?, g.parse().ok()?)
        }
        "[" if rest.is_empty() => {
            let mut xs = vec![];
            loop {
                if *toks.get(*pos)? == "]" {
                    *pos += 1;
                    break;
                }
                xs.push(parse_tree_at(toks, pos, depth + 1)?);
            }
            T::Arr(xs)
        }
        "<" if rest.is_empty() => {
            let mut kvs = vec![];
            loop {
                let k = *toks.get(*pos)?;
                *pos += 1;
                if k == ">" {
                    break;
                }
                let key = String::from_utf8(unhex(k.strip_prefix('k')?)?).ok()?;
                kvs.push((key, parse_tree_at(toks, pos, depth + 1)?));
            }
            T::Dict(kvs)
        }
        _ => return None,
    })
}

pub fn parse_tree(toks: &[&str]) -> Option<T> {
    let mut pos = 0;
    let t = parse_tree_at(toks, &mut pos, 0)?;
    if pos == toks.len() {
        Some(t)
    } else {
        None
    }
}

// ---------------------------------------------------------------------------------------------
// canonical printing of what the library's parser returned

pub fn err_class(e: &ParseError) -> &'static str {
    match e {
        ParseError::SyntaxError { .. } => "err:syntax",
        ParseError::UnexpectedToken { .. } => "err:unexpected-token",
        ParseError::MissingKey(_) => "err:missing-key",
        ParseError::CharacterEncodingError { .. } => "err:encoding",
        ParseError::Io(_) => "err:io",
        _ => "err:other",
    }
}

/// A parsed real: the trimmed `{:.6}` text when that text denotes the value exactly
/// (it parses back to the same f64), `?` otherwise.  Never a float comparison across the tie.
pub fn canon_real(v: f64) -> String {
    let t = fix6(v);
    if v.is_finite() && t.parse::<f64>().map(|w| w == v).unwrap_or(false) {
        let t = t.trim_end_matches('0').trim_end_matches('.');
        t.to_string()
    } else {
        "?".into()
    }
}

pub fn canon_obj(o: &PdfObject, out: &mut Vec<String>) {
    match o {
        PdfObject::Null => out.push("n".into()),
        PdfObject::Boolean(b) => out.push(if *b { "t" } else { "f" }.into()),
        PdfObject::Integer(i) => out.push(format!("i{}", i)),
        PdfObject::Real(v) => out.push(format!("r{}", canon_real(*v))),
        PdfObject::String(s) => out.push(format!("s{}", hex(s.as_bytes()))),
        PdfObject::Name(n) => out.push(format!("/{}", hex(n.as_str().as_bytes()))),
        PdfObject::Reference(n, g) => out.push(format!("R{}.{}", n, g)),
        PdfObject::Array(a) => {
            out.push("[".into());
            for x in a.0.iter() {
                canon_obj(x, out);
            }
            out.push("]".into());
        }
        PdfObject::Dictionary(d) => {
            out.push("<".into());
            let mut ks: Vec<_> = d.0.iter().collect();
            ks.sort_by(|a, b| a.0.as_str().as_bytes().cmp(b.0.as_str().as_bytes()));
            for (k, v) in ks {
                out.push(format!("k{}", hex(k.as_str().as_bytes())));
                canon_obj(v, out);
            }
            out.push(">".into());
        }
        PdfObject::Stream(_) => out.push("stream-object".into()),
    }
}

pub fn canon_obj_str(o: &PdfObject) -> String {
    let mut v = vec![];
    canon_obj(o, &mut v);
    v.join(" ")
}

pub fn canon_token(t: &Token) -> String {
    match t {
        Token::Boolean(b) => format!("B{}", if *b { "t" } else { "f" }),
        Token::Integer(i) => format!("I{}", i),
        Token::Real(v) => format!("F{}", canon_real(*v)),
        Token::String(s) => format!("S{}", hex(s)),
        Token::Name(n) => format!("N{}", hex(n.as_bytes())),
        Token::ArrayStart => "[".into(),
        Token::ArrayEnd => "]".into(),
        Token::DictStart => "<<".into(),
        Token::DictEnd => ">>".into(),
        Token::Stream => "stream".into(),
        Token::EndStream => "endstream".into(),
        Token::Obj => "obj".into(),
        Token::EndObj => "endobj".into(),
        Token::StartXRef => "startxref".into(),
        Token::Reference(n, g) => format!("REF{}.{}", n, g),
        Token::Null => "null".into(),
        Token::Comment(c) => format!("C{}", hex(c.as_bytes())),
        Token::Eof => "eof".into(),
    }
}

/// up to `max` tokens from the lexer, stopping after `eof` or the first error
pub fn token_stream<R: std::io::Read>(lexer: &mut Lexer<R>, max: usize) -> String {
    let mut out = vec![];
    for _ in 0..max {
        match lexer.next_token() {
            Ok(t) => {
                let e = t == Token::Eof;
                out.push(canon_token(&t));
                if e {
                    break;
                }
            }
            Err(e) => {
                out.push(err_class(&e).to_string());
                break;
            }
        }
    }
    if out.is_empty() {
        "-".into()
    } else {
        out.join(",")
    }
}

/// `PdfObject::parse` on `bytes`, then the next two tokens: `<canon>|<tok>,<tok>`
pub fn parse_and_next(bytes: &[u8]) -> String {
    let mut lexer = Lexer::new(Cursor::new(bytes.to_vec()));
    match PdfObject::parse(&mut lexer) {
        Ok(o) => format!("{}|{}", canon_obj_str(&o), token_stream(&mut lexer, 2)),
        Err(e) => format!("{}|-", err_class(&e)),
    }
}

// ---------------------------------------------------------------------------------------------
// generator pieces

/// characters that matter for names / strings: delimiters, white space, `#`, controls, non-ASCII
pub const SPECIAL_CHARS: &[char] = &[
    ' ', '/', '(', ')', '<', '>', '[', ']', '{', '}', '%', '#', '\0', '\t', '\n', '\r', '\x0c',
    '\x07', '\x1b', '\x7f', '\\', '+', '-', '.', ';', 'R', '\u{80}', '\u{85}', '\u{a0}', '\u{e9}',
    '\u{ff}', '\u{100}', '\u{2713}', '\u{1f600}',
];

pub fn plain_ident(rng: &mut Rng, max: usize) -> String {
    const A: &[u8] = b"ABCDEFGHIJKLMNOPQRSTUVWXYZabcdefghijklmnopqrstuvwxyz0123456789_-.+*@$:?!^~|'\"`,=&";
    let n = 1 + rng.below(max as u64) as usize;
    (0..n).map(|_| *rng.pick(A) as char).collect()
}

/// mostly plain, `special` specials mixed in
pub fn text(rng: &mut Rng, max: usize, specials: usize) -> String {
    let mut cs: Vec<char> = if rng.chance(1, 8) { vec![] } else { plain_ident(rng, max).chars().collect() };
    for _ in 0..specials {
        let c = if rng.chance(1, 6) {
            char::from_u32(rng.below(0x250) as u32).unwrap_or('?')
        } else {
            *rng.pick(SPECIAL_CHARS)
        };
        let at = rng.below(cs.len() as u64 + 1) as usize;
        cs.insert(at, c);
    }
    cs.into_iter().collect()
}

pub const INT_EDGES: &[i64] = &[
    0, 1, -1, 7, 10, 99, 255, 256, 65535, 65536, 9999999, 10000000, -9999999, 2147483647, -2147483648,
    4294967296, i64::MAX, i64::MIN, i64::MAX - 1, i64::MIN + 1, 1000000000000,
];

pub const REAL_EDGES: &[f64] = &[
    0.0, -0.0, 1.0, -1.0, 0.5, 1.5, -2.25, 0.000001, 0.0000001, -0.0000004, 0.0000005, 0.1234565, 0.9999995,
    0.9999994, 123456.789, 1e7, 1e9, 4e9, 12345678901.3, 9.2e18, 9.3e18, 9223372036854775807.0, 1e19, -1e19, 1e22, 1e300,
    f64::MAX, f64::MIN, f64::MIN_POSITIVE, 5e-324, 3.141592653589793, 100.0, 1e-6, 2.5e-6, 65535.0, 0.1, 0.3,
];

pub const NONFINITE: &[f64] = &[f64::NAN, f64::INFINITY, f64::NEG_INFINITY];
