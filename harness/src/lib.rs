//! Shared machinery of the correspondence harness.
//!
//! Every property has its own binary `src/bin/cXX.rs` that supplies
//!   * `gen(rng, tier) -> Vec<Case>`     structured request generator (one PRNG, replayable)
//!   * `run(req) -> String`              the REAL code's canonical answer for one request
//! and calls `harness_main`.  The parent process streams requests to a child copy of itself
//! (`--child`), one line at a time, so that a panic is caught (`catch_unwind`) and an abort
//! (stack overflow, allocation failure), a hang or a memory blow-up kills only the child:
//! the in-flight request is answered `abort` / `timeout` and a new child takes over.
//!
//! Output: `<out>/cases.tsv`, one line per case: `REQ \t IMPL \t TAGS`.

use std::io::{BufRead, BufReader, Write};
use std::process::{Child, Command, Stdio};
use std::sync::mpsc;
use std::time::Duration;

/// SplitMix64 — every random choice of a run derives from one state.
#[derive(Clone)]
pub struct Rng(pub u64);

impl Rng {
    pub fn new(seed: u64) -> Self {
        Rng(seed.wrapping_mul(0x9E3779B97F4A7C15) ^ 0xD1B54A32D192ED03)
    }
    pub fn next(&mut self) -> u64 {
        self.0 = self.0.wrapping_add(0x9E3779B97F4A7C15);
        let mut z = self.0;
        z = (z ^ (z >> 30)).wrapping_mul(0xBF58476D1CE4E5B9);
        z = (z ^ (z >> 27)).wrapping_mul(0x94D049BB133111EB);
        z ^ (z >> 31)
    }
    /// uniform in 0..n (n > 0)
    pub fn below(&mut self, n: u64) -> u64 {
        self.next() % n
    }
    pub fn range(&mut self, lo: i64, hi: i64) -> i64 {
        lo + (self.next() % ((hi - lo + 1) as u64)) as i64
    }
    pub fn chance(&mut self, num: u64, den: u64) -> bool {
        self.below(den) < num
    }
    pub fn pick<'a, T>(&mut self, xs: &'a [T]) -> &'a T {
        &xs[self.below(xs.len() as u64) as usize]
    }
    pub fn bytes(&mut self, n: usize) -> Vec<u8> {
        (0..n).map(|_| self.next() as u8).collect()
    }
}

pub fn hex(bs: &[u8]) -> String {
    if bs.is_empty() {
        return "-".to_string();
    }
    let mut s = String::with_capacity(bs.len() * 2);
    for b in bs {
        s.push_str(&format!("{:02x}", b));
    }
    s
}

pub fn unhex(s: &str) -> Option<Vec<u8>> {
    if s == "-" {
        return Some(vec![]);
    }
    if s.len() % 2 != 0 {
        return None;
    }
    (0..s.len() / 2)
        .map(|i| u8::from_str_radix(&s[2 * i..2 * i + 2], 16).ok())
        .collect()
}

pub struct Case {
    pub req: String,
    /// free-form, space separated; used for the input-distribution histogram and the
    /// "non-trivial" rule in the evidence (`nt` marks a non-trivial case)
    pub tags: String,
}

impl Case {
    pub fn new(req: impl Into<String>, tags: impl Into<String>) -> Self {
        Case { req: req.into(), tags: tags.into() }
    }
}

#[derive(Clone, Copy, PartialEq, Eq, Debug)]
pub enum Tier {
    Quick,
    Thorough,
}

pub struct Limits {
    /// wall-clock budget per request
    pub per_case: Duration,
    /// address-space ceiling of the child, bytes (0 = none)
    pub rlimit_as: u64,
    /// stack of the child's worker thread, bytes
    pub stack: usize,
}

impl Default for Limits {
    fn default() -> Self {
        Limits { per_case: Duration::from_secs(20), rlimit_as: 6 << 30, stack: 8 << 20 }
    }
}

fn arg_value(args: &[String], name: &str) -> Option<String> {
    args.iter().position(|a| a == name).and_then(|i| args.get(i + 1).cloned())
}

fn sanitize(s: &str) -> String {
    s.replace(['\t', '\n', '\r'], " ")
}

fn child_loop(run: fn(&str) -> String, limits: &Limits) {
    if limits.rlimit_as > 0 {
        unsafe {
            let lim = libc::rlimit { rlim_cur: limits.rlimit_as, rlim_max: limits.rlimit_as };
            libc::setrlimit(libc::RLIMIT_AS, &lim);
        }
    }
    std::panic::set_hook(Box::new(|_| {}));
    let stack = limits.stack;
    let h = std::thread::Builder::new()
        .stack_size(stack)
        .spawn(move || {
            let stdin = std::io::stdin();
            let stdout = std::io::stdout();
            for line in stdin.lock().lines() {
                let Ok(line) = line else { break };
                let ans = match std::panic::catch_unwind(|| run(&line)) {
                    Ok(a) => sanitize(&a),
                    Err(e) => {
                        let msg = if let Some(s) = e.downcast_ref::<&str>() {
                            s.to_string()
                        } else if let Some(s) = e.downcast_ref::<String>() {
                            s.clone()
                        } else {
                            "?".into()
                        };
                        format!("panic:{}", sanitize(&msg))
                    }
                };
                let mut o = stdout.lock();
                let _ = writeln!(o, "{}", ans);
                let _ = o.flush();
            }
        })
        .expect("spawn worker");
    let _ = h.join();
}

struct Worker {
    child: Child,
    rx: mpsc::Receiver<Option<String>>,
}

fn spawn_worker() -> Worker {
    let exe = std::env::current_exe().expect("current_exe");
    let mut child = Command::new(exe)
        .arg("--child")
        .stdin(Stdio::piped())
        .stdout(Stdio::piped())
        .stderr(Stdio::null())
        .spawn()
        .expect("spawn child");
    let out = child.stdout.take().unwrap();
    let (tx, rx) = mpsc::channel();
    std::thread::spawn(move || {
        let mut r = BufReader::new(out);
        loop {
            let mut l = String::new();
            match r.read_line(&mut l) {
                Ok(0) | Err(_) => {
                    let _ = tx.send(None);
                    break;
                }
                Ok(_) => {
                    let _ = tx.send(Some(l.trim_end_matches(['\n', '\r']).to_string()));
                }
            }
        }
    });
    Worker { child, rx }
}

/// CPU seconds (user + system, all threads) the process has used so far; 0 when unreadable.
fn child_cpu_secs(pid: u32) -> f64 {
    let Ok(s) = std::fs::read_to_string(format!("/proc/{}/stat", pid)) else { return 0.0 };
    // fields after the parenthesised command name: state is field 3, utime 14, stime 15
    let Some(rest) = s.rfind(')').map(|i| &s[i + 1..]) else { return 0.0 };
    let f: Vec<&str> = rest.split_whitespace().collect();
    let get = |k: usize| f.get(k).and_then(|x| x.parse::<f64>().ok()).unwrap_or(0.0);
    // rest[0] = state (field 3) => utime = rest[11], stime = rest[12], cutime = rest[13], cstime = rest[14]
    (get(11) + get(12) + get(13) + get(14)) / 100.0
}

/// Run the requests through isolated children; returns one answer per request.
pub fn run_isolated(reqs: &[String], limits: &Limits) -> Vec<String> {
    let mut answers = Vec::with_capacity(reqs.len());
    let mut w = spawn_worker();
    for req in reqs {
        let sent = {
            let stdin = w.child.stdin.as_mut().unwrap();
            writeln!(stdin, "{}", req).and_then(|_| stdin.flush()).is_ok()
        };
        let ans = if !sent {
            None
        } else {
            // The budget is CPU time of the child, not wall-clock time: on a loaded machine a
            // starved child must not be reported as hanging (that would be a false alarm). A
            // child that burns `per_case` of CPU, or shows no answer after 8 x `per_case` of
            // wall-clock time (a sleeping hang / deadlock), is a timeout.
            let pid = w.child.id();
            let cpu0 = child_cpu_secs(pid);
            let t0 = std::time::Instant::now();
            let mut got: Option<Option<String>> = None;
            let mut timed_out = false;
            loop {
                match w.rx.recv_timeout(Duration::from_millis(250)) {
                    Ok(a) => {
                        got = Some(a);
                        break;
                    }
                    Err(mpsc::RecvTimeoutError::Timeout) => {
                        let wall = t0.elapsed();
                        if wall < limits.per_case {
                            continue;
                        }
                        let cpu = child_cpu_secs(pid) - cpu0;
                        if cpu >= limits.per_case.as_secs_f64() || wall >= limits.per_case * 8 {
                            timed_out = true;
                            break;
                        }
                    }
                    Err(_) => break,
                }
            }
            if timed_out {
                let _ = w.child.kill();
                let _ = w.child.wait();
                answers.push("timeout".to_string());
                w = spawn_worker();
                continue;
            }
            match got {
                Some(Some(a)) => Some(a),
                _ => None,
            }
        };
        match ans {
            Some(a) => answers.push(a),
            None => {
                let status = w.child.wait().ok();
                let sig = status
                    .and_then(|s| std::os::unix::process::ExitStatusExt::signal(&s))
                    .map(|s| format!("abort:signal-{}", s))
                    .unwrap_or_else(|| "abort".to_string());
                answers.push(sig);
                w = spawn_worker();
            }
        }
    }
    drop(w.child.stdin.take());
    let _ = w.child.wait();
    answers
}

/// Entry point of every per-property binary.
///
/// `cXX emit --seed S --tier quick|thorough --out DIR [--corpus DIR]`
/// `cXX replay --file F --out DIR`     (F: one request per line; lines starting with `#` skipped)
/// `cXX --child`                       (internal)
pub fn harness_main(gen: fn(&mut Rng, Tier) -> Vec<Case>, run: fn(&str) -> String, limits: Limits) {
    let args: Vec<String> = std::env::args().collect();
    if args.iter().any(|a| a == "--child") {
        child_loop(run, &limits);
        return;
    }
    let mode = args.get(1).map(|s| s.as_str()).unwrap_or("");
    let out = arg_value(&args, "--out").unwrap_or_else(|| ".".into());
    std::fs::create_dir_all(&out).expect("out dir");
    let mut cases: Vec<Case> = Vec::new();
    let read_reqs = |path: &std::path::Path, tag: &str, cases: &mut Vec<Case>| {
        if let Ok(text) = std::fs::read_to_string(path) {
            for l in text.lines() {
                let l = l.trim_end();
                if l.is_empty() || l.starts_with('#') {
                    continue;
                }
                let req = l.split('\t').next().unwrap_or("");
                cases.push(Case::new(req, tag));
            }
        }
    };
    match mode {
        "emit" => {
            let seed: u64 = arg_value(&args, "--seed").and_then(|s| s.parse().ok()).unwrap_or(0);
            let tier = match arg_value(&args, "--tier").as_deref() {
                Some("thorough") => Tier::Thorough,
                _ => Tier::Quick,
            };
            if let Some(c) = arg_value(&args, "--corpus") {
                let mut files: Vec<_> = std::fs::read_dir(&c)
                    .map(|d| d.filter_map(|e| e.ok().map(|e| e.path())).collect())
                    .unwrap_or_default();
                files.sort();
                for f in files {
                    if f.extension().map(|e| e == "req").unwrap_or(false) {
                        read_reqs(&f, "corpus nt", &mut cases);
                    }
                }
            }
            let mut rng = Rng::new(seed);
            cases.extend(gen(&mut rng, tier));
        }
        "replay" => {
            let f = arg_value(&args, "--file").expect("--file");
            read_reqs(std::path::Path::new(&f), "replay nt", &mut cases);
        }
        _ => {
            eprintln!("usage: emit --seed S --tier T --out DIR [--corpus DIR] | replay --file F --out DIR");
            std::process::exit(2);
        }
    }
    let reqs: Vec<String> = cases.iter().map(|c| sanitize(&c.req)).collect();
    let answers = run_isolated(&reqs, &limits);
    let mut f = std::io::BufWriter::new(
        std::fs::File::create(std::path::Path::new(&out).join("cases.tsv")).expect("cases.tsv"),
    );
    for ((req, ans), c) in reqs.iter().zip(answers.iter()).zip(cases.iter()) {
        writeln!(f, "{}\t{}\t{}", req, ans, sanitize(&c.tags)).unwrap();
    }
    f.flush().unwrap();
}
