//! Page-tree description language shared by the C18 and C16 harness binaries (builder b1618):
//! parse / show a request's object list and render it to PDF bytes with the reference writer.
//! Grammar: see `harness/src/bin/c18.rs`.
#![allow(dead_code)]
use super::refpdf::RefPdf;

pub fn hex(bs: &[u8]) -> String {
    if bs.is_empty() {
        return "-".to_string();
    }
    bs.iter().map(|b| format!("{:02x}", b)).collect()
}

pub fn unhex(s: &str) -> Option<Vec<u8>> {
    if s == "-" {
        return Some(vec![]);
    }
    if s.len() % 2 != 0 {
        return None;
    }
    (0..s.len() / 2).map(|i| u8::from_str_radix(&s[2 * i..2 * i + 2], 16).ok()).collect()
}

#[derive(Clone, Default, Debug)]
pub struct D {
    pub t: Option<String>,
    pub k: Option<String>,
    pub c: Option<String>,
    pub p: Option<u32>,
    pub m: Option<String>,
    pub b: Option<String>,
    pub r: Option<String>,
    pub z: Option<String>,
    pub o: Option<u32>,
}

#[derive(Clone, Debug)]
pub enum Ob {
    D(D),
    A(String),
    I(i64),
    N,
    S(Vec<u8>),
    Y(String),
    B(String),
}

pub fn show_ob(id: u32, ob: &Ob) -> String {
    match ob {
        Ob::D(d) => {
            let mut s = format!("{} D", id);
            if let Some(v) = &d.t {
                s += &format!(" T={}", v);
            }
            if let Some(v) = &d.k {
                s += &format!(" K={}", v);
            }
            if let Some(v) = &d.c {
                s += &format!(" C={}", v);
            }
            if let Some(v) = &d.p {
                s += &format!(" P={}", v);
            }
            if let Some(v) = &d.m {
                s += &format!(" M={}", v);
            }
            if let Some(v) = &d.b {
                s += &format!(" B={}", v);
            }
            if let Some(v) = &d.r {
                s += &format!(" R={}", v);
            }
            if let Some(v) = &d.z {
                s += &format!(" Z={}", v);
            }
            if let Some(v) = &d.o {
                s += &format!(" O={}", v);
            }
            s
        }
        Ob::A(e) => format!("{} A {}", id, e),
        Ob::I(i) => format!("{} I {}", id, i),
        Ob::N => format!("{} N", id),
        Ob::S(b) => format!("{} S {}", id, hex(b)),
        Ob::Y(k) => format!("{} Y {}", id, k),
        Ob::B(k) => format!("{} B {}", id, k),
    }
}

pub fn show_req(cat: u32, root: u32, objs: &[(u32, Ob)]) -> String {
    let mut s = format!("pt {} {}", cat, root);
    for (id, ob) in objs {
        s += " | ";
        s += &show_ob(*id, ob);
    }
    s
}

pub fn parse_req(req: &str) -> Option<(u32, u32, Vec<(u32, Ob)>)> {
    let mut parts = req.split(" | ");
    let head: Vec<&str> = parts.next()?.split(' ').collect();
    if head.len() != 3 || head[0] != "pt" {
        return None;
    }
    let cat: u32 = head[1].parse().ok()?;
    let root: u32 = head[2].parse().ok()?;
    let mut objs = vec![];
    for p in parts {
        let toks: Vec<&str> = p.split(' ').collect();
        if toks.len() < 2 {
            return None;
        }
        let id: u32 = toks[0].parse().ok()?;
        let ob = match toks[1] {
            "D" => {
                let mut d = D::default();
                for f in &toks[2..] {
                    let (k, v) = f.split_once('=')?;
                    match k {
                        "T" => d.t = Some(v.to_string()),
                        "K" => d.k = Some(v.to_string()),
                        "C" => d.c = Some(v.to_string()),
                        "P" => d.p = Some(v.parse().ok()?),
                        "M" => d.m = Some(v.to_string()),
                        "B" => d.b = Some(v.to_string()),
                        "R" => d.r = Some(v.to_string()),
                        "Z" => d.z = Some(v.to_string()),
                        "O" => d.o = Some(v.parse().ok()?),
                        _ => return None,
                    }
                }
                Ob::D(d)
            }
            "A" => Ob::A(toks.get(2)?.to_string()),
            "I" => Ob::I(toks.get(2)?.parse().ok()?),
            "N" => Ob::N,
            "S" => Ob::S(unhex(toks.get(2)?)?),
            "Y" => Ob::Y(toks.get(2)?.to_string()),
            "B" => Ob::B(toks.get(2)?.to_string()),
            _ => return None,
        };
        objs.push((id, ob));
    }
    Some((cat, root, objs))
}

pub fn pdf_elems(e: &str) -> String {
    if e == "-" {
        return "[]".into();
    }
    let items: Vec<String> = e
        .split(',')
        .map(|t| match t {
            "x" => "7".to_string(),
            "n" => "null".to_string(),
            n => format!("{} 0 R", n),
        })
        .collect();
    format!("[{}]", items.join(" "))
}

pub fn pdf_box(b: &str) -> String {
    if let Some(n) = b.strip_prefix('@') {
        return format!("{} 0 R", n);
    }
    if b == "j" {
        return "/Junk".into();
    }
    let items: Vec<String> = b.split(':').map(|t| if t == "x" { "/X".to_string() } else { t.to_string() }).collect();
    format!("[{}]", items.join(" "))
}

pub fn pdf_keys(k: &str) -> String {
    if k == "-" {
        return "<< >>".into();
    }
    let items: Vec<String> = k.split('+').map(|t| format!("/{} 1", t)).collect();
    format!("<< {} >>", items.join(" "))
}

pub fn refish(v: &str, junk: &str, other: impl Fn(&str) -> String) -> String {
    if let Some(n) = v.strip_prefix('@') {
        format!("{} 0 R", n)
    } else if v == "j" {
        junk.to_string()
    } else {
        other(v)
    }
}

pub fn build_pdf(cat: u32, root: u32, objs: &[(u32, Ob)]) -> Vec<u8> {
    let mut w = RefPdf::new();
    w.min_size = 700; // every dangling reference the generator makes is a FREE entry of the table
    w.add(cat, format!("<< /Type /Catalog /Pages {} 0 R >>", root));
    for (id, ob) in objs {
        match ob {
            Ob::D(d) => {
                let mut s = String::from("<<");
                if let Some(t) = &d.t {
                    s += match t.as_str() {
                        "P" => " /Type /Page",
                        "S" => " /Type /Pages",
                        "X" => " /Type /Foo",
                        _ => " /Type 5",
                    };
                }
                if let Some(p) = d.p {
                    s += &format!(" /Parent {} 0 R", p);
                }
                if let Some(k) = &d.k {
                    s += &format!(" /Kids {}", refish(k, "/Junk", pdf_elems));
                }
                if let Some(c) = &d.c {
                    s += &format!(" /Count {}", refish(c, "/Junk", |v| v.to_string()));
                }
                if let Some(m) = &d.m {
                    s += &format!(" /MediaBox {}", pdf_box(m));
                }
                if let Some(b) = &d.b {
                    s += &format!(" /CropBox {}", pdf_box(b));
                }
                if let Some(r) = &d.r {
                    s += &format!(
                        " /Rotate {}",
                        refish(r, "/Junk", |v| match v.strip_prefix('r') {
                            Some(x) => format!("{}.0", x),
                            None => v.to_string(),
                        })
                    );
                }
                if let Some(z) = &d.z {
                    s += &format!(" /Resources {}", refish(z, "/Junk", pdf_keys));
                }
                if let Some(o) = d.o {
                    s += &format!(" /Contents {} 0 R", o);
                }
                s += " >>";
                w.add(*id, s);
            }
            Ob::A(e) => w.add(*id, pdf_elems(e)),
            Ob::I(i) => w.add(*id, i.to_string()),
            Ob::N => w.add(*id, "null"),
            Ob::S(b) => w.add_stream(*id, "", b),
            Ob::Y(k) => w.add(*id, pdf_keys(k)),
            Ob::B(b) => w.add(*id, pdf_box(b)),
        }
    }
    w.finish(cat)
}

