//! Independent reference PDF writer + strict reader (builder b1618, properties C16 / C18).
//!
//! Writer: header, numbered objects with caller-supplied bodies, classic xref table with free
//! entries for every unused number below /Size, trailer, startxref.  Nothing from the library
//! under test is used, so page trees / boxes / rotations the library's own writer cannot produce
//! can be written (ISO 32000-1 §7.5.2 header, §7.5.4 xref table, §7.5.5 trailer).
//!
//! Reader (`StrictDoc`): strict — classic xref table only (no recovery, no xref streams, no
//! object streams), objects must start exactly at their xref offset with `n g obj`, streams use
//! a direct /Length and no filter or /FlateDecode.  Used by C16 as the "independent reader" of
//! the library's output files.
#![allow(dead_code)]

use std::collections::BTreeMap;

pub struct RefPdf {
    objs: Vec<(u32, Vec<u8>)>,
    /// the xref table covers at least object numbers 0..min_size (unused ones as free entries)
    pub min_size: u32,
}

impl RefPdf {
    pub fn new() -> Self {
        RefPdf { objs: Vec::new(), min_size: 0 }
    }

    /// `body` is everything between `n 0 obj\n` and `\nendobj\n`.
    pub fn add(&mut self, id: u32, body: impl Into<Vec<u8>>) {
        self.objs.push((id, body.into()));
    }

    /// stream object; `dict_extra` goes inside the stream dictionary (may be empty)
    pub fn add_stream(&mut self, id: u32, dict_extra: &str, data: &[u8]) {
        let mut b = format!("<< /Length {}{}{} >>\nstream\n", data.len(), if dict_extra.is_empty() { "" } else { " " }, dict_extra).into_bytes();
        b.extend_from_slice(data);
        b.extend_from_slice(b"\nendstream");
        self.objs.push((id, b));
    }

    pub fn finish(&self, root_id: u32) -> Vec<u8> {
        let mut out: Vec<u8> = Vec::new();
        out.extend_from_slice(b"%PDF-1.4\n%\xE2\xE3\xCF\xD3\n");
        let max_id = self.objs.iter().map(|(i, _)| *i).max().unwrap_or(0).max(root_id).max(self.min_size.saturating_sub(1));
        let mut offsets: BTreeMap<u32, usize> = BTreeMap::new();
        for (id, body) in &self.objs {
            offsets.insert(*id, out.len());
            out.extend_from_slice(format!("{} 0 obj\n", id).as_bytes());
            out.extend_from_slice(body);
            out.extend_from_slice(b"\nendobj\n");
        }
        let xref_at = out.len();
        out.extend_from_slice(format!("xref\n0 {}\n", max_id + 1).as_bytes());
        out.extend_from_slice(b"0000000000 65535 f \n");
        for id in 1..=max_id {
            match offsets.get(&id) {
                Some(off) => out.extend_from_slice(format!("{:010} 00000 n \n", off).as_bytes()),
                None => out.extend_from_slice(b"0000000000 00000 f \n"),
            }
        }
        out.extend_from_slice(format!("trailer\n<< /Size {} /Root {} 0 R >>\nstartxref\n{}\n%%EOF\n", max_id + 1, root_id, xref_at).as_bytes());
        out
    }
}

// ------------------------------------------------------------------------------------------
// strict reader
// ------------------------------------------------------------------------------------------

#[derive(Clone, Debug, PartialEq)]
pub enum SObj {
    Null,
    Bool(bool),
    Int(i64),
    Real(f64),
    Name(String),
    Str(Vec<u8>),
    Arr(Vec<SObj>),
    Dict(BTreeMap<String, SObj>),
    Ref(u32, u16),
    Stream(BTreeMap<String, SObj>, Vec<u8>),
}

impl SObj {
    pub fn as_dict(&self) -> Option<&BTreeMap<String, SObj>> {
        match self {
            SObj::Dict(d) => Some(d),
            SObj::Stream(d, _) => Some(d),
            _ => None,
        }
    }
    pub fn as_num(&self) -> Option<f64> {
        match self {
            SObj::Int(i) => Some(*i as f64),
            SObj::Real(r) => Some(*r),
            _ => None,
        }
    }
}

struct P<'a> {
    b: &'a [u8],
    i: usize,
}

fn is_ws(c: u8) -> bool {
    matches!(c, 0 | 9 | 10 | 12 | 13 | 32)
}
fn is_delim(c: u8) -> bool {
    matches!(c, b'(' | b')' | b'<' | b'>' | b'[' | b']' | b'{' | b'}' | b'/' | b'%')
}

impl<'a> P<'a> {
    fn skip_ws(&mut self) {
        loop {
            while self.i < self.b.len() && is_ws(self.b[self.i]) {
                self.i += 1;
            }
            if self.i < self.b.len() && self.b[self.i] == b'%' {
                while self.i < self.b.len() && self.b[self.i] != b'\n' && self.b[self.i] != b'\r' {
                    self.i += 1;
                }
            } else {
                break;
            }
        }
    }
    fn peek(&self) -> Option<u8> {
        self.b.get(self.i).copied()
    }
    fn token(&mut self) -> &'a [u8] {
        let s = self.i;
        while self.i < self.b.len() && !is_ws(self.b[self.i]) && !is_delim(self.b[self.i]) {
            self.i += 1;
        }
        &self.b[s..self.i]
    }
    fn keyword(&mut self, kw: &[u8]) -> Result<(), String> {
        self.skip_ws();
        if self.b[self.i..].starts_with(kw) {
            self.i += kw.len();
            Ok(())
        } else {
            Err(format!("expected {} at {}", String::from_utf8_lossy(kw), self.i))
        }
    }
    fn uint(&mut self) -> Result<u64, String> {
        self.skip_ws();
        let t = self.token();
        std::str::from_utf8(t).ok().and_then(|s| s.parse::<u64>().ok()).ok_or_else(|| format!("expected integer at {}", self.i))
    }
    fn obj(&mut self, depth: usize) -> Result<SObj, String> {
        if depth > 64 {
            return Err("nesting".into());
        }
        self.skip_ws();
        let c = self.peek().ok_or("eof")?;
        match c {
            b'/' => {
                self.i += 1;
                let t = self.token();
                let mut name = Vec::new();
                let mut k = 0;
                while k < t.len() {
                    if t[k] == b'#' && k + 2 < t.len() {
                        let h = std::str::from_utf8(&t[k + 1..k + 3]).ok().and_then(|s| u8::from_str_radix(s, 16).ok()).ok_or("bad #xx")?;
                        name.push(h);
                        k += 3;
                    } else {
                        name.push(t[k]);
                        k += 1;
                    }
                }
                Ok(SObj::Name(String::from_utf8_lossy(&name).into_owned()))
            }
            b'(' => {
                self.i += 1;
                let mut depthp = 1;
                let mut s = Vec::new();
                loop {
                    let c = *self.b.get(self.i).ok_or("eof in string")?;
                    self.i += 1;
                    match c {
                        b'\\' => {
                            let e = *self.b.get(self.i).ok_or("eof in string")?;
                            self.i += 1;
                            match e {
                                b'n' => s.push(b'\n'),
                                b'r' => s.push(b'\r'),
                                b't' => s.push(b'\t'),
                                b'b' => s.push(8),
                                b'f' => s.push(12),
                                b'0'..=b'7' => {
                                    let mut v = (e - b'0') as u32;
                                    for _ in 0..2 {
                                        match self.b.get(self.i) {
                                            Some(d @ b'0'..=b'7') => {
                                                v = v * 8 + (*d - b'0') as u32;
                                                self.i += 1;
                                            }
                                            _ => break,
                                        }
                                    }
                                    s.push(v as u8);
                                }
                                b'\r' => {
                                    if self.b.get(self.i) == Some(&b'\n') {
                                        self.i += 1;
                                    }
                                }
                                b'\n' => {}
                                other => s.push(other),
                            }
                        }
                        b'(' => {
                            depthp += 1;
                            s.push(c);
                        }
                        b')' => {
                            depthp -= 1;
                            if depthp == 0 {
                                break;
                            }
                            s.push(c);
                        }
                        _ => s.push(c),
                    }
                }
                Ok(SObj::Str(s))
            }
            b'[' => {
                self.i += 1;
                let mut v = Vec::new();
                loop {
                    self.skip_ws();
                    if self.peek() == Some(b']') {
                        self.i += 1;
                        break;
                    }
                    v.push(self.obj(depth + 1)?);
                }
                Ok(SObj::Arr(v))
            }
            b'<' => {
                if self.b.get(self.i + 1) == Some(&b'<') {
                    self.i += 2;
                    let mut d = BTreeMap::new();
                    loop {
                        self.skip_ws();
                        if self.b[self.i..].starts_with(b">>") {
                            self.i += 2;
                            break;
                        }
                        let k = match self.obj(depth + 1)? {
                            SObj::Name(n) => n,
                            _ => return Err("dict key not a name".into()),
                        };
                        let v = self.obj(depth + 1)?;
                        d.insert(k, v);
                    }
                    Ok(SObj::Dict(d))
                } else {
                    self.i += 1;
                    let mut hexs = Vec::new();
                    loop {
                        let c = *self.b.get(self.i).ok_or("eof in hex string")?;
                        self.i += 1;
                        if c == b'>' {
                            break;
                        }
                        if is_ws(c) {
                            continue;
                        }
                        hexs.push((c as char).to_digit(16).ok_or("bad hex digit")? as u8);
                    }
                    if hexs.len() % 2 == 1 {
                        hexs.push(0);
                    }
                    Ok(SObj::Str(hexs.chunks(2).map(|p| p[0] * 16 + p[1]).collect()))
                }
            }
            _ => {
                let save = self.i;
                let t = self.token();
                let ts = std::str::from_utf8(t).map_err(|_| "non-utf8 token")?;
                match ts {
                    "null" => return Ok(SObj::Null),
                    "true" => return Ok(SObj::Bool(true)),
                    "false" => return Ok(SObj::Bool(false)),
                    _ => {}
                }
                if let Ok(n) = ts.parse::<i64>() {
                    // `n g R` look-ahead
                    if n >= 0 && !ts.starts_with('+') {
                        let after = self.i;
                        self.skip_ws();
                        let t2 = self.token();
                        if let Some(g) = std::str::from_utf8(t2).ok().and_then(|s| if s.bytes().all(|c| c.is_ascii_digit()) { s.parse::<u16>().ok() } else { None }) {
                            self.skip_ws();
                            let t3 = self.token();
                            if t3 == b"R" {
                                return Ok(SObj::Ref(n as u32, g));
                            }
                        }
                        self.i = after;
                    }
                    return Ok(SObj::Int(n));
                }
                if !ts.is_empty() && ts.bytes().all(|c| c.is_ascii_digit() || c == b'.' || c == b'-' || c == b'+') {
                    if let Ok(r) = ts.parse::<f64>() {
                        return Ok(SObj::Real(r));
                    }
                }
                self.i = save;
                Err(format!("unexpected token `{}` at {}", ts, save))
            }
        }
    }
}

pub struct StrictDoc {
    pub objects: BTreeMap<u32, SObj>,
    pub trailer: BTreeMap<String, SObj>,
}

fn rfind(hay: &[u8], needle: &[u8]) -> Option<usize> {
    if hay.len() < needle.len() {
        return None;
    }
    (0..=hay.len() - needle.len()).rev().find(|&i| &hay[i..i + needle.len()] == needle)
}

impl StrictDoc {
    pub fn parse(bytes: &[u8]) -> Result<StrictDoc, String> {
        if !bytes.starts_with(b"%PDF-") {
            return Err("no header".into());
        }
        let sx = rfind(bytes, b"startxref").ok_or("no startxref")?;
        let mut p = P { b: bytes, i: sx + 9 };
        let xoff = p.uint()? as usize;
        while p.i < bytes.len() && is_ws(bytes[p.i]) {
            p.i += 1;
        }
        if !bytes[p.i..].starts_with(b"%%EOF") {
            return Err("no %%EOF after startxref".into());
        }
        let mut offsets: BTreeMap<u32, (usize, u16)> = BTreeMap::new();
        let mut trailer: Option<BTreeMap<String, SObj>> = None;
        let mut next = Some(xoff);
        let mut hops = 0;
        while let Some(off) = next {
            hops += 1;
            if hops > 64 {
                return Err("xref chain too long".into());
            }
            if off >= bytes.len() {
                return Err("xref offset out of file".into());
            }
            let mut p = P { b: bytes, i: off };
            p.keyword(b"xref").map_err(|_| "startxref does not point at a classic xref table (xref streams are not accepted by the strict reader)".to_string())?;
            loop {
                p.skip_ws();
                if bytes[p.i..].starts_with(b"trailer") {
                    p.i += 7;
                    break;
                }
                let first = p.uint()? as u32;
                let n = p.uint()? as u32;
                for k in 0..n {
                    let o = p.uint()? as usize;
                    let g = p.uint()? as u16;
                    p.skip_ws();
                    let t = p.token();
                    match t {
                        b"n" => {
                            offsets.entry(first + k).or_insert((o, g));
                        }
                        b"f" => {
                            offsets.entry(first + k).or_insert((usize::MAX, g));
                        }
                        _ => return Err("bad xref entry type".into()),
                    }
                }
            }
            let t = match p.obj(0)? {
                SObj::Dict(d) => d,
                _ => return Err("trailer is not a dictionary".into()),
            };
            next = match t.get("Prev") {
                Some(SObj::Int(pv)) => Some(*pv as usize),
                None => None,
                _ => return Err("bad /Prev".into()),
            };
            if trailer.is_none() {
                trailer = Some(t);
            }
        }
        let mut objects = BTreeMap::new();
        for (id, (off, gen)) in &offsets {
            if *off == usize::MAX {
                continue;
            }
            if *off >= bytes.len() {
                return Err(format!("object {} offset out of file", id));
            }
            let mut p = P { b: bytes, i: *off };
            let n = p.uint()? as u32;
            let g = p.uint()? as u16;
            if n != *id || g != *gen {
                return Err(format!("xref entry {} points at object {} {}", id, n, g));
            }
            p.keyword(b"obj")?;
            let o = p.obj(0)?;
            p.skip_ws();
            let o = if bytes[p.i..].starts_with(b"stream") {
                let d = match o {
                    SObj::Dict(d) => d,
                    _ => return Err("stream without dictionary".into()),
                };
                p.i += 6;
                if bytes[p.i..].starts_with(b"\r\n") {
                    p.i += 2;
                } else if bytes[p.i..].starts_with(b"\n") {
                    p.i += 1;
                } else {
                    return Err("stream keyword not followed by EOL".into());
                }
                let len = match d.get("Length") {
                    Some(SObj::Int(l)) if *l >= 0 => *l as usize,
                    _ => return Err(format!("object {}: stream /Length must be a direct non-negative integer", id)),
                };
                if p.i + len > bytes.len() {
                    return Err("stream runs past end of file".into());
                }
                let data = bytes[p.i..p.i + len].to_vec();
                p.i += len;
                p.keyword(b"endstream").map_err(|_| format!("object {}: endstream not found at /Length", id))?;
                SObj::Stream(d, data)
            } else {
                o
            };
            p.keyword(b"endobj").map_err(|_| format!("object {}: endobj expected", id))?;
            objects.insert(*id, o);
        }
        Ok(StrictDoc { objects, trailer: trailer.ok_or("no trailer")? })
    }

    pub fn resolve<'a>(&'a self, o: &'a SObj) -> &'a SObj {
        let mut cur = o;
        for _ in 0..32 {
            match cur {
                SObj::Ref(n, _) => match self.objects.get(n) {
                    Some(x) => cur = x,
                    None => return &SObj::Null,
                },
                _ => return cur,
            }
        }
        &SObj::Null
    }

    /// decoded stream bytes (no filter or a single /FlateDecode without predictor)
    pub fn stream_data(&self, o: &SObj) -> Result<Vec<u8>, String> {
        match o {
            SObj::Stream(d, data) => {
                let filt = d.get("Filter").map(|f| self.resolve(f).clone());
                match filt {
                    None | Some(SObj::Null) => Ok(data.clone()),
                    Some(SObj::Name(n)) if n == "FlateDecode" => inflate(data),
                    Some(SObj::Arr(a)) if a.is_empty() => Ok(data.clone()),
                    Some(SObj::Arr(a)) if a.len() == 1 && a[0] == SObj::Name("FlateDecode".into()) => inflate(data),
                    Some(other) => Err(format!("unsupported filter {:?}", other)),
                }
            }
            _ => Err("not a stream".into()),
        }
    }
}

fn inflate(data: &[u8]) -> Result<Vec<u8>, String> {
    use std::io::Read;
    let mut d = flate2::read::ZlibDecoder::new(data);
    let mut out = Vec::new();
    d.read_to_end(&mut out).map_err(|e| format!("inflate: {}", e))?;
    Ok(out)
}

/// One page as seen by the strict reader, in document order (ISO 32000-1 §7.7.3: depth-first
/// over /Kids, inheritable attributes MediaBox / CropBox / Rotate / Resources passed down).
#[derive(Clone, Debug)]
pub struct SPage {
    pub id: u32,
    pub media_box: Option<Vec<f64>>,
    pub crop_box: Option<Vec<f64>>,
    pub rotate: Option<i64>,
    pub resources: Option<BTreeMap<String, SObj>>,
    /// concatenation of the decoded content streams, joined by a single `\n` between streams
    pub content: Vec<u8>,
    pub n_streams: usize,
}

#[derive(Clone, Default)]
struct Inh {
    mb: Option<SObj>,
    cb: Option<SObj>,
    rot: Option<SObj>,
    res: Option<SObj>,
}

impl StrictDoc {
    pub fn pages(&self) -> Result<Vec<SPage>, String> {
        let root = self.trailer.get("Root").ok_or("no /Root")?;
        let cat = self.resolve(root).as_dict().ok_or("catalog not a dictionary")?;
        let pages = cat.get("Pages").ok_or("no /Pages")?;
        let root_id = match pages {
            SObj::Ref(n, _) => *n,
            _ => return Err("/Pages not a reference".into()),
        };
        let mut out = Vec::new();
        let mut on_path = Vec::new();
        self.walk(root_id, &Inh::default(), &mut out, &mut on_path)?;
        Ok(out)
    }

    fn walk(&self, id: u32, inh: &Inh, out: &mut Vec<SPage>, on_path: &mut Vec<u32>) -> Result<(), String> {
        if on_path.contains(&id) || on_path.len() > 200 {
            return Err("cyclic page tree".into());
        }
        let d = self.objects.get(&id).and_then(|o| o.as_dict()).ok_or(format!("page tree node {} is not a dictionary", id))?;
        let mut here = inh.clone();
        if let Some(v) = d.get("MediaBox") {
            here.mb = Some(v.clone());
        }
        if let Some(v) = d.get("CropBox") {
            here.cb = Some(v.clone());
        }
        if let Some(v) = d.get("Rotate") {
            here.rot = Some(v.clone());
        }
        if let Some(v) = d.get("Resources") {
            here.res = Some(v.clone());
        }
        match d.get("Type") {
            Some(SObj::Name(t)) if t == "Pages" => {
                let kids = match d.get("Kids").map(|k| self.resolve(k)) {
                    Some(SObj::Arr(a)) => a.clone(),
                    _ => return Err(format!("node {}: /Kids missing", id)),
                };
                on_path.push(id);
                for k in kids {
                    match k {
                        SObj::Ref(n, _) => self.walk(n, &here, out, on_path)?,
                        _ => return Err("kid is not a reference".into()),
                    }
                }
                on_path.pop();
                Ok(())
            }
            Some(SObj::Name(t)) if t == "Page" => {
                let boxv = |o: &Option<SObj>| -> Option<Vec<f64>> {
                    match o.as_ref().map(|x| self.resolve(x)) {
                        Some(SObj::Arr(a)) => a.iter().map(|e| self.resolve(e).as_num()).collect(),
                        _ => None,
                    }
                };
                let rotate = match here.rot.as_ref().map(|x| self.resolve(x)) {
                    Some(SObj::Int(i)) => Some(*i),
                    _ => None,
                };
                let resources = here.res.as_ref().and_then(|x| self.resolve(x).as_dict().cloned());
                let mut content = Vec::new();
                let mut n_streams = 0;
                if let Some(c) = d.get("Contents") {
                    let parts: Vec<SObj> = match self.resolve(c) {
                        SObj::Arr(a) => a.clone(),
                        s @ SObj::Stream(..) => vec![s.clone()],
                        SObj::Null => vec![],
                        other => return Err(format!("page {}: bad /Contents {:?}", id, other)),
                    };
                    for (k, part) in parts.iter().enumerate() {
                        let s = self.resolve(part);
                        if k > 0 {
                            content.push(b'\n');
                        }
                        content.extend_from_slice(&self.stream_data(s)?);
                        n_streams += 1;
                    }
                }
                out.push(SPage { id, media_box: boxv(&here.mb), crop_box: boxv(&here.cb), rotate, resources, content, n_streams });
                Ok(())
            }
            _ => Err(format!("node {}: /Type is neither /Page nor /Pages", id)),
        }
    }
}
