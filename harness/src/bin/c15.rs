//! C15 — the document-to-chunks pipeline: author a multi-page document with the real API
//! (`Document`/`Page`/`text()`), serialize, re-open (`PdfReader`/`PdfDocument`), then
//! `partition()` and `rag_chunks_with` / `rag_chunks_with_source_and_config`.
//!
//! Request: `doc <max> <merge 0|1> <propagate 0|1> <policy S|A> <ctx N|H|L|P> <src 0|1|2> <pages>`
//!   src: 0 = `rag_chunks_with`; 1 = with source {filename "f.pdf", doc_hash "dh"}; 2 = with source
//!        {filename "f.pdf"} (no doc hash).  The document carries title "Doc T" / author "Auth" when src>0.
//!   pages: `/`-joined pages, a page is `_` (empty) or `,`-joined items
//!        `h<level>:<id>`  heading, level 1..3 (Helvetica-Bold 24/18/14 pt), text `T<id>x Heading`
//!        `p:<id>:<n>`     paragraph (Helvetica 10 pt), text `P<id>x w1 … wn.`
//!        `l:<id>:<n>`     list item `- L<id>x w1 … wn`
//! Answer: `E:<elements>|Z:<title sizes>|C:<chunks>|X:<digest>`
//!   elements: the real `partition()` output in the C14 element syntax (id = index)
//!   Z: `idx=size*100,…` font sizes of Title elements (`.` none)  — level input of the model
//!   chunks: `#`-joined `<index>!<text hex>!<full_text hex>!<pages .-joined>!<types .-joined>!<heading>!<token_estimate>!<oversized>!<heading_path>!<chunk_id hex>!<prev ~|hex>!<next ~|hex>!<span ~|a-b>!<sha8 of full_text, computed here with the sha2 crate>!<meta>`
//!           meta = `<has_table has_list has_code heading_only bits>.<chars>.<words>.<sentences>.<bold italic bits>.<dominant font ~|hex>.<region pages -joined|_>.<#bounding boxes>`
//!   X: md5 of the element-markdown export + chunk dump of a SECOND, separate process (`same` when
//!      identical to this process's, else `differs`)
use oxidize_pdf::parser::{PdfDocument, PdfReader};
use oxidize_pdf::pipeline::{
    ContextFormat, ContextMode, DocumentSource, Element, HybridChunkConfig, MergePolicy, RagChunk,
};
use oxidize_pdf::{Document, Font, Page};
use oxiharness::*;
use sha2::{Digest, Sha256};
use std::io::Cursor;

fn hs(s: &str) -> String {
    hex(s.as_bytes())
}
fn opt_hs(s: &Option<String>) -> String {
    match s {
        None => "~".into(),
        Some(x) => hs(x),
    }
}

const WORDS: &[&str] = &["alpha", "beta", "gamma", "delta", "omega", "sigma", "kappa", "theta"];

fn item_text(kind: char, id: u32, n: u32) -> String {
    match kind {
        'h' => format!("T{}x Heading", id),
        _ => {
            let mut s = if kind == 'l' { format!("- L{}x", id) } else { format!("P{}x", id) };
            for i in 0..n {
                s.push(' ');
                s.push_str(WORDS[((id + i) % WORDS.len() as u32) as usize]);
                if kind == 'p' && i + 1 < n && (id + i) % 3 == 0 {
                    s.push('.');
                }
            }
            if kind == 'p' {
                s.push('.');
            }
            s
        }
    }
}

struct Item {
    kind: char,
    level: u32,
    id: u32,
    n: u32,
}

fn parse_pages(s: &str) -> Option<Vec<Vec<Item>>> {
    s.split('/')
        .map(|p| {
            if p == "_" {
                return Some(vec![]);
            }
            p.split(',')
                .map(|it| {
                    let f: Vec<&str> = it.split(':').collect();
                    let k = f[0].chars().next()?;
                    match k {
                        'h' => Some(Item { kind: 'h', level: f[0][1..].parse().ok()?, id: f.get(1)?.parse().ok()?, n: 0 }),
                        'p' | 'l' => Some(Item { kind: k, level: 0, id: f.get(1)?.parse().ok()?, n: f.get(2)?.parse().ok()? }),
                        _ => None,
                    }
                })
                .collect()
        })
        .collect()
}

fn author(pages: &[Vec<Item>], with_info: bool) -> Vec<u8> {
    let mut doc = Document::new();
    if with_info {
        doc.set_title("Doc T");
        doc.set_author("Auth");
    }
    for items in pages {
        let mut page = Page::a4();
        let mut y = 780.0;
        for it in items {
            match it.kind {
                'h' => {
                    let size = match it.level {
                        1 => 24.0,
                        2 => 18.0,
                        _ => 14.0,
                    };
                    y -= 20.0;
                    page.text()
                        .set_font(Font::HelveticaBold, size)
                        .at(72.0, y)
                        .write(&item_text('h', it.id, 0))
                        .expect("write");
                    y -= 40.0;
                }
                k => {
                    page.text()
                        .set_font(Font::Helvetica, 10.0)
                        .at(72.0, y)
                        .write(&item_text(k, it.id, it.n))
                        .expect("write");
                    y -= 28.0;
                }
            }
        }
        doc.add_page(page);
    }
    doc.to_bytes().expect("serialize")
}

fn show_elem(e: &Element, id: usize) -> String {
    let m = e.metadata();
    let (k, payload) = match e {
        Element::Title(d) => ("T", hs(&d.text)),
        Element::Paragraph(d) => ("P", hs(&d.text)),
        Element::Header(d) => ("H", hs(&d.text)),
        Element::Footer(d) => ("F", hs(&d.text)),
        Element::ListItem(d) => ("L", hs(&d.text)),
        Element::CodeBlock(d) => ("C", hs(&d.text)),
        Element::Image(i) => ("I", opt_hs(&i.alt_text)),
        Element::KeyValue(kv) => ("V", format!("{}={}", hs(&kv.key), hs(&kv.value))),
        Element::Table(t) => (
            "B",
            if t.rows.is_empty() {
                ".".to_string()
            } else {
                t.rows
                    .iter()
                    .map(|r| if r.is_empty() { "_".to_string() } else { r.iter().map(|c| hs(c)).collect::<Vec<_>>().join(":") })
                    .collect::<Vec<_>>()
                    .join("|")
            },
        ),
    };
    let hp = if m.heading_path.is_empty() { ".".to_string() } else { m.heading_path.iter().map(|h| hs(h)).collect::<Vec<_>>().join("/") };
    let flags = (m.is_bold as u32) | ((m.is_italic as u32) << 1) | ((m.font_size.is_some() as u32) << 2);
    format!("{},{},{},{},{},{}:{},{}", k, id, m.page, opt_hs(&m.parent_heading), hp, opt_hs(&m.font_name), flags, payload)
}

fn show_chunk(c: &RagChunk) -> String {
    let digest = Sha256::digest(c.full_text.as_bytes());
    let sha8: String = digest[..8].iter().map(|b| format!("{:02x}", b)).collect();
    let join_u32 = |v: &[u32]| if v.is_empty() { ".".to_string() } else { v.iter().map(|p| p.to_string()).collect::<Vec<_>>().join(".") };
    let hp = if c.metadata.heading_path.is_empty() { ".".to_string() } else { c.metadata.heading_path.iter().map(|h| hs(h)).collect::<Vec<_>>().join("/") };
    let m = &c.metadata;
    let b = |x: bool| if x { '1' } else { '0' };
    let region_pages = if m.page_regions.is_empty() {
        "_".to_string()
    } else {
        m.page_regions.iter().map(|r| r.page.to_string()).collect::<Vec<_>>().join("-")
    };
    // discrete metadata: content-type flags, counts, majority bold/italic, dominant font, pages of
    // the regions, number of bounding boxes
    let meta = format!(
        "{}{}{}{}.{}.{}.{}.{}{}.{}.{}.{}",
        b(m.content_types.has_table),
        b(m.content_types.has_list),
        b(m.content_types.has_code),
        b(m.content_types.heading_only),
        m.char_count,
        m.word_count,
        m.sentence_count,
        b(m.is_bold),
        b(m.is_italic),
        opt_hs(&m.dominant_font),
        region_pages,
        c.bounding_boxes.len()
    );
    format!(
        "{}!{}!{}!{}!{}!{}!{}!{}!{}!{}!{}!{}!{}!{}!{}",
        c.chunk_index,
        hs(&c.text),
        hs(&c.full_text),
        join_u32(&c.page_numbers),
        if c.element_types.is_empty() { ".".to_string() } else { c.element_types.join(".") },
        opt_hs(&c.heading_context),
        c.token_estimate,
        c.is_oversized as u8,
        hp,
        hs(&c.metadata.chunk_id),
        opt_hs(&c.metadata.prev_chunk_id),
        opt_hs(&c.metadata.next_chunk_id),
        match c.metadata.page_span {
            None => "~".to_string(),
            Some((a, b)) => format!("{}-{}", a, b),
        },
        sha8,
        meta
    )
}

/// everything except the cross-process digest
fn run_core(req: &str) -> Result<(String, String), String> {
    let f: Vec<&str> = req.split(' ').collect();
    if f.len() != 8 || f[0] != "doc" {
        return Err("bad-request".into());
    }
    let max_tokens: usize = f[1].parse().map_err(|_| "bad-request".to_string())?;
    let context_mode = match f[5] {
        "N" => ContextMode::None,
        "L" => ContextMode::Contextual(ContextFormat::Labeled),
        "P" => ContextMode::Contextual(ContextFormat::Prose),
        _ => ContextMode::Heading,
    };
    let config = HybridChunkConfig {
        max_tokens,
        overlap_tokens: 50,
        merge_adjacent: f[2] == "1",
        propagate_headings: f[3] == "1",
        merge_policy: if f[4] == "S" { MergePolicy::SameTypeOnly } else { MergePolicy::AnyInlineContent },
        context_mode,
    };
    let src = f[6];
    let pages = parse_pages(f[7]).ok_or("bad-request".to_string())?;
    let bytes = author(&pages, src != "0");
    let reader = PdfReader::new(Cursor::new(bytes)).map_err(|e| format!("err:reopen:{:?}", e).replace(' ', "_"))?;
    let doc = PdfDocument::new(reader);
    let elements = doc.partition().map_err(|_| "err:partition".to_string())?;
    let chunks = match src {
        "0" => doc.rag_chunks_with(config),
        "1" => doc.rag_chunks_with_source_and_config(
            DocumentSource::with_file(Some("f.pdf".into()), Some("dh".into())),
            config,
        ),
        _ => doc.rag_chunks_with_source_and_config(DocumentSource::with_file(Some("f.pdf".into()), None), config),
    }
    .map_err(|_| "err:rag_chunks".to_string())?;
    let e = if elements.is_empty() {
        ".".to_string()
    } else {
        elements.iter().enumerate().map(|(i, e)| show_elem(e, i)).collect::<Vec<_>>().join(";")
    };
    let z: Vec<String> = elements
        .iter()
        .enumerate()
        .filter(|(_, e)| matches!(e, Element::Title(_)))
        .map(|(i, e)| match e.metadata().font_size {
            Some(s) => format!("{}={}", i, (s * 100.0).round() as i64),
            None => format!("{}=-1", i),
        })
        .collect();
    let z = if z.is_empty() { ".".to_string() } else { z.join(",") };
    let c = if chunks.is_empty() { ".".to_string() } else { chunks.iter().map(show_chunk).collect::<Vec<_>>().join("#") };
    let md = doc.to_element_markdown().map_err(|_| "err:markdown".to_string())?;
    let main = format!("E:{}|Z:{}|C:{}", e, z, c);
    let digest = format!("{:x}", md5::compute(format!("{}\n{}", main, md).as_bytes()));
    Ok((main, digest))
}

struct Helper {
    child: std::process::Child,
    stdin: std::process::ChildStdin,
    stdout: std::io::BufReader<std::process::ChildStdout>,
}

static HELPER: std::sync::Mutex<Option<Helper>> = std::sync::Mutex::new(None);

fn spawn_helper() -> Option<Helper> {
    let exe = std::env::current_exe().ok()?;
    let mut child = std::process::Command::new(exe)
        .arg("--digest-server")
        .stdin(std::process::Stdio::piped())
        .stdout(std::process::Stdio::piped())
        .stderr(std::process::Stdio::null())
        .spawn()
        .ok()?;
    let stdin = child.stdin.take()?;
    let stdout = std::io::BufReader::new(child.stdout.take()?);
    Some(Helper { child, stdin, stdout })
}

/// digest of the same request computed by a SECOND, separate process (own HashMap seeds, own heap)
fn other_process_digest(req: &str) -> Option<String> {
    use std::io::{BufRead, Write};
    let mut g = HELPER.lock().ok()?;
    for _ in 0..2 {
        if g.is_none() {
            *g = spawn_helper();
        }
        let h = g.as_mut()?;
        let ok = writeln!(h.stdin, "{}", req).and_then(|_| h.stdin.flush()).is_ok();
        let mut line = String::new();
        if ok && h.stdout.read_line(&mut line).map(|n| n > 0).unwrap_or(false) {
            return Some(line.trim().to_string());
        }
        let _ = h.child.kill();
        let _ = h.child.wait();
        *g = None;
    }
    None
}

fn run(req: &str) -> String {
    let (main, digest) = match run_core(req) {
        Ok(x) => x,
        Err(e) => return e,
    };
    let x = match other_process_digest(req) {
        Some(other) if other == digest => "same",
        Some(_) => "differs",
        None => "spawn-failed",
    };
    format!("{}|X:{}", main, x)
}

// ---------------------------------------------------------------- generator
fn gen(r: &mut Rng, tier: Tier) -> Vec<Case> {
    let total = if tier == Tier::Quick { 600 } else { 8000 };
    let mut cases = vec![];
    for _ in 0..total {
        let npages = 1 + r.below(4) as usize;
        let mut id = 0u32;
        let mut pages: Vec<String> = vec![];
        let mut nheads = 0;
        let mut break_in_section = false;
        let mut open_section = false;
        // styles 0-3: as described at `heading_here`; 4 = a SKIPPED level (H1, then two H3 siblings,
        // an H2 elsewhere on the same page so that 14 pt ranks third); 5 = a page OPENING with two
        // deep siblings (H2/H3) and a higher heading further down the same page
        let style = r.below(6);
        let special_page = r.below(npages as u64) as usize;
        let mut skipped = false;
        let mut last_level = 0u64; // level of the immediately preceding heading item (0 = not a heading)
        for p in 0..npages {
            // plan of the page: 0 = body item, 1..3 = heading of that level
            let mut plan: Vec<u64> = vec![];
            if style >= 4 && p == special_page {
                let body = |r: &mut Rng, plan: &mut Vec<u64>| {
                    for _ in 0..(1 + r.below(2)) {
                        plan.push(0);
                    }
                };
                if style == 4 {
                    let h2_first = r.chance(1, 2);
                    if h2_first {
                        plan.push(2);
                        body(r, &mut plan);
                    }
                    plan.push(1);
                    if r.chance(1, 2) {
                        body(r, &mut plan);
                    }
                    for _ in 0..(2 + r.below(2)) {
                        plan.push(3);
                        body(r, &mut plan);
                    }
                    if !h2_first || r.chance(1, 3) {
                        plan.push(2);
                        body(r, &mut plan);
                    }
                } else {
                    let deep = 2 + r.below(2);
                    if r.chance(1, 3) {
                        body(r, &mut plan);
                    }
                    for _ in 0..(2 + r.below(2)) {
                        plan.push(deep);
                        body(r, &mut plan);
                    }
                    plan.push(1);
                    body(r, &mut plan);
                    if deep == 3 || r.chance(1, 3) {
                        plan.push(2);
                        body(r, &mut plan);
                    }
                }
                skipped = true;
            } else {
                let nitems = match r.below(8) {
                    0 => 0,
                    _ => 1 + r.below(9) as usize,
                };
                for j in 0..nitems {
                    let heading_here = match style {
                        0 => j == 0,           // every page starts with a heading
                        1 | 4 => r.chance(1, 3), // headings anywhere: page breaks inside sections
                        2 => p == 0 && j == 0, // one heading, then the section runs over pages
                        _ => r.chance(1, 5),
                    };
                    plan.push(if heading_here { 1 + r.below(3) } else { 0 });
                }
            }
            let mut items: Vec<String> = vec![];
            for (j, &want) in plan.iter().enumerate() {
                id += 1;
                if want > 0 {
                    // two directly adjacent headings of the same size are one two-line heading to the
                    // extractor: keep adjacent headings at different levels
                    let mut level = want;
                    if level == last_level {
                        level = 1 + (level % 3);
                    }
                    last_level = level;
                    items.push(format!("h{}:{}", level, id));
                    nheads += 1;
                    open_section = true;
                } else {
                    last_level = 0;
                    if j == 0 && p > 0 && open_section {
                        break_in_section = true;
                    }
                    let n = match r.below(6) {
                        0 => 1,
                        1 => 12 + r.below(20) as u32,
                        _ => 2 + r.below(8) as u32,
                    };
                    if r.chance(1, 5) {
                        items.push(format!("l:{}:{}", id, n.min(8)));
                    } else {
                        items.push(format!("p:{}:{}", id, n));
                    }
                }
            }
            pages.push(if items.is_empty() { "_".to_string() } else { items.join(",") });
        }
        let max = *r.pick(&[3usize, 5, 8, 12, 20, 40, 512]);
        let merge = if r.chance(5, 6) { 1 } else { 0 };
        let prop = if r.chance(4, 5) { 1 } else { 0 };
        let policy = if r.chance(1, 3) { "S" } else { "A" };
        let ctx = *r.pick(&["N", "H", "L", "P"]);
        let src = *r.pick(&["0", "0", "1", "2"]);
        let req = format!("doc {} {} {} {} {} {} {}", max, merge, prop, policy, ctx, src, pages.join("/"));
        let nt = npages >= 2 && nheads >= 1 && id >= 3;
        let tags = format!(
            "pages{} heads{} ctx-{} src{} {}{}{}",
            npages,
            if nheads == 0 { "0" } else if nheads <= 2 { "1-2" } else { "3+" },
            ctx,
            src,
            if break_in_section { "break-in-section " } else { "" },
            if skipped { "skipped-level " } else { "" },
            if nt { "nt" } else { "" }
        );
        cases.push(Case::new(req, tags));
    }
    cases
}

fn main() {
    let args: Vec<String> = std::env::args().collect();
    if args.len() >= 2 && args[1] == "--digest-server" {
        use std::io::{BufRead, Write};
        let stdin = std::io::stdin();
        for line in stdin.lock().lines() {
            let Ok(line) = line else { break };
            let d = match std::panic::catch_unwind(|| run_core(&line)) {
                Ok(Ok((_, d))) => d,
                Ok(Err(e)) => e,
                Err(_) => "panic".to_string(),
            };
            let mut o = std::io::stdout().lock();
            let _ = writeln!(o, "{}", d);
            let _ = o.flush();
        }
        return;
    }
    if args.len() >= 3 && args[1] == "--single" {
        match run_core(&args[2]) {
            Ok((_, d)) => println!("{}", d),
            Err(e) => println!("{}", e),
        }
        return;
    }
    harness_main(gen, run, Limits::default());
}
