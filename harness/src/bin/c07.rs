//! C07 — every supported filter decodes what a reference encoder encoded.
//! Request / answer format: lean/OxiVerif/Drv/C07.lean.  The encoders are in ../c07_codecs.rs
//! (written from the standards, independent of the library; validated against the Lean reference
//! encoders by the driver on every case).
use oxiharness::*;

#[path = "../c07_codecs.rs"]
mod enc;
#[path = "../c08_common.rs"]
mod common;
use common::*;
use enc::Packet;

/// `cc <K> <columns> <rows> <blackIs1> <data> <expected>`: hand-made CCITT vectors (T.4 / T.6 codes
/// written out by hand, see docs/C07.md); the decoder is outside the model, only the answer is checked
fn run_ccitt(p: &[&str]) -> String {
    use oxidize_pdf::parser::objects::{PdfDictionary, PdfName, PdfObject, PdfStream};
    let (Ok(k), Ok(cols), Ok(rows)) = (p[1].parse::<i64>(), p[2].parse::<i64>(), p[3].parse::<i64>()) else { return "bad-request".into() };
    let Some(data) = unhex(p[5]) else { return "bad-request".into() };
    let mut parms = PdfDictionary::new();
    parms.insert("K".into(), PdfObject::Integer(k));
    parms.insert("Columns".into(), PdfObject::Integer(cols));
    parms.insert("Rows".into(), PdfObject::Integer(rows));
    parms.insert("BlackIs1".into(), PdfObject::Boolean(p[4] == "1"));
    let mut dict = PdfDictionary::new();
    dict.insert("Filter".into(), PdfObject::Name(PdfName::new("CCITTFaxDecode".to_string())));
    dict.insert("DecodeParms".into(), PdfObject::Dictionary(parms));
    show_full(&call(&PdfStream { dict, data }, None))
}

fn run(req: &str) -> String {
    let p: Vec<&str> = req.split(' ').collect();
    if p.len() == 7 && p[0] == "cc" {
        return run_ccitt(&p);
    }
    if p.len() != 7 || p[0] != "rt" {
        return "bad-request".into();
    }
    let Some(stream) = parse_stream(p[1], p[2], p[5]) else { return "bad-request".into() };
    show_full(&call(&stream, None))
}

// ------------------------------------------------------------------ generator

fn plaintext(rng: &mut Rng, n: usize) -> (Vec<u8>, &'static str) {
    match rng.below(7) {
        0 | 1 => (rng.bytes(n), "rand"),
        2 => ((0..n).map(|_| b"ab"[rng.below(2) as usize]).collect(), "ab"),
        3 => (vec![0u8; n], "zeros"),
        4 => ((0..n).map(|i| (i / 3) as u8).collect(), "ramp"),
        5 => {
            let mut v = vec![];
            while v.len() < n {
                let b = rng.next() as u8;
                let k = 1 + rng.below(300) as usize;
                for _ in 0..k {
                    v.push(b);
                }
            }
            v.truncate(n);
            (v, "runs")
        }
        _ => ((0..n).map(|_| b"Testing the quick brown fox \n"[rng.below(29) as usize]).collect(), "text"),
    }
}

fn random_packets(rng: &mut Rng, data: &[u8]) -> Vec<Packet> {
    let mut ps = vec![];
    let mut i = 0;
    while i < data.len() {
        let mut r = 1;
        while i + r < data.len() && data[i + r] == data[i] && r < 128 {
            r += 1;
        }
        if r >= 2 && rng.chance(3, 4) {
            let k = if rng.chance(1, 2) { r } else { 2 + rng.below(r as u64 - 1) as usize };
            ps.push(Packet::Run(k, data[i]));
            i += k;
        } else {
            let maxl = (data.len() - i).min(128);
            let k = match rng.below(4) {
                0 => 1,
                1 => maxl,
                _ => 1 + rng.below(maxl as u64) as usize,
            };
            ps.push(Packet::Lit(data[i..i + k].to_vec()));
            i += k;
        }
    }
    ps
}

fn packets_token(ps: &[Packet]) -> String {
    ps.iter()
        .map(|p| match p {
            Packet::Lit(b) => format!("L{}", hex(b)),
            Packet::Run(n, b) => format!("R{}x{:02x}", n, b),
        })
        .collect::<Vec<_>>()
        .join(".")
}

struct Encoded {
    bytes: Vec<u8>,
    spec: String,
    dict: String,
    extra_z: Option<String>,
    tags: Vec<String>,
}

/// predictor choice for a Flate/LZW stage whose input `plain` is fixed
fn pick_predictor(rng: &mut Rng, plain: &[u8], want: u64) -> (Vec<u8>, String, Vec<String>, Vec<String>) {
    // returns (body, pred token, dict items, tags)
    if want == 0 || plain.is_empty() && rng.chance(1, 2) {
        return (plain.to_vec(), "n".into(), vec![], vec![]);
    }
    for _ in 0..40 {
        let colors = 1 + rng.below(4) as usize;
        let bpc = *rng.pick(&[1usize, 2, 4, 8, 16]);
        let columns = 1 + rng.below(64) as usize;
        let rb = enc::row_bytes(columns, colors, bpc);
        if plain.len() % rb != 0 {
            continue;
        }
        let mut items = vec![];
        if columns != 1 || rng.chance(1, 2) {
            items.push(format!("C{}", columns));
        }
        if colors != 1 || rng.chance(1, 2) {
            items.push(format!("K{}", colors));
        }
        if bpc != 8 || rng.chance(1, 2) {
            items.push(format!("B{}", bpc));
        }
        let tag_dim = format!("k{} b{} c{}", colors, bpc, if columns <= 2 { columns.to_string() } else { "n".into() });
        if want == 2 {
            items.insert(0, "P2".into());
            return (enc::tiff2_encode(plain, columns, colors, bpc), "t".into(), items, vec!["tiff".into(), tag_dim]);
        }
        let pred = 10 + rng.below(6);
        let types: Vec<u8> = if pred == 15 || rng.chance(1, 4) {
            (0..1 + rng.below(6)).map(|_| rng.below(5) as u8).collect()
        } else {
            vec![(pred - 10) as u8]
        };
        items.insert(0, format!("P{}", pred));
        let body = enc::png_encode(plain, rb, enc::png_bpp(colors, bpc), &types);
        let tok = format!("p{}", types.iter().map(|t| t.to_string()).collect::<Vec<_>>().join(","));
        return (body, tok, items, vec![format!("png{}", pred), tag_dim]);
    }
    (plain.to_vec(), "n".into(), vec![], vec![])
}

fn encode_stage(rng: &mut Rng, name: &str, plain: &[u8], pred_want: u64, quirks: bool) -> Encoded {
    match name {
        "Hex" => {
            let (upper, eod) = (rng.chance(1, 2), rng.chance(3, 4));
            let every = if rng.chance(1, 2) { 0 } else { 1 + rng.below(9) as usize };
            let pdf = quirks && every > 0 && rng.chance(1, 2);
            let mut e = enc::hex_encode(plain, upper);
            if !eod {
                e.pop();
            }
            let bytes = enc::sprinkle(every, if pdf { enc::PDF_WS } else { enc::ASCII_WS }, &e);
            Encoded {
                bytes,
                spec: format!("hex:{}:{}:{}:{}", if upper { "U" } else { "L" }, if eod { "E" } else { "N" }, every, if pdf { "P" } else { "A" }),
                dict: "0".into(),
                extra_z: None,
                tags: if pdf { vec!["nulws".into()] } else { vec![] },
            }
        }
        "A85" => {
            let pre = rng.chance(1, 3);
            let every = if rng.chance(1, 2) { 0 } else { 1 + rng.below(9) as usize };
            let pdf = quirks && every > 0 && rng.chance(1, 2);
            let mut e = if pre { b"<~".to_vec() } else { vec![] };
            e.extend(enc::a85_encode(plain));
            let bytes = enc::sprinkle(every, if pdf { enc::PDF_WS } else { enc::ASCII_WS }, &e);
            Encoded {
                bytes,
                spec: format!("a85:{}:{}:{}", if pre { "Y" } else { "N" }, every, if pdf { "P" } else { "A" }),
                dict: "0".into(),
                extra_z: None,
                tags: if pdf { vec!["nulws".into()] } else { vec![] },
            }
        }
        "Rl" => {
            let ps = random_packets(rng, plain);
            Encoded { bytes: enc::rl_serialize(&ps), spec: format!("rl:{}", packets_token(&ps)), dict: "0".into(), extra_z: None, tags: vec![] }
        }
        "Lzw" => {
            let (body, ptok, mut items, tags) = pick_predictor(rng, plain, pred_want);
            let early = rng.chance(1, 2);
            if !early || rng.chance(1, 3) {
                items.push(format!("E{}", early as u8));
            }
            let clear_at = *rng.pick(&[4096usize, 4096, 4095, 4094, 0, 300, 600, 1030]);
            let d = if items.is_empty() { if rng.chance(1, 2) { "0".into() } else { "e".into() } } else { items.join(";") };
            let mut tags = tags;
            tags.push(format!("ec{}", early as u8));
            Encoded { bytes: enc::lzw_encode(&body, early, clear_at), spec: format!("lzw:{}:{}:{}", early as u8, clear_at, ptok), dict: d, extra_z: None, tags }
        }
        _ => {
            let (body, ptok, items, tags) = pick_predictor(rng, plain, pred_want);
            let d = if items.is_empty() { if rng.chance(1, 2) { "0".into() } else { "e".into() } } else { items.join(";") };
            if rng.chance(1, 3) {
                let block = *rng.pick(&[1usize, 7, 100, 65535, 70000]);
                Encoded { bytes: enc::zlib_stored(&body, block), spec: format!("fl:s{}:{}", block, ptok), dict: d, extra_z: None, tags }
            } else if rng.chance(1, 4) {
                Encoded { bytes: enc::zlib_fixed(&body), spec: format!("fl:f0:{}", ptok), dict: d, extra_z: None, tags }
            } else {
                use std::io::Write;
                let mut z = flate2::write::ZlibEncoder::new(vec![], flate2::Compression::new(rng.below(10) as u32));
                z.write_all(&body).unwrap();
                let bytes = z.finish().unwrap();
                let hx = hex(&bytes);
                Encoded { spec: format!("fl:z{}:{}", hx, ptok), dict: d, extra_z: Some(format!("z{}={}", hx, hex(&body))), bytes, tags }
            }
        }
    }
}

fn parms_token(dicts: &[String]) -> String {
    if dicts.iter().all(|d| d == "0") {
        "-".into()
    } else if dicts.len() == 1 && dicts[0] != "0" {
        format!("d:{}", dicts[0])
    } else {
        format!("a:{}", dicts.join("|"))
    }
}

/// `pred_want`: 0 none, 1 PNG, 2 TIFF — applied to the innermost Flate/LZW stage only when it is
/// the last filter (its input is the plaintext, whose length the generator controls)
fn rt_case(rng: &mut Rng, names: &[&'static str], plain: Vec<u8>, kind: &str, pred_want: u64, quirks: bool) -> Case {
    let mut cur = plain.clone();
    let mut specs: Vec<String> = vec![];
    let mut dicts: Vec<String> = vec![];
    let mut extra: Vec<String> = vec![];
    let mut tags: Vec<String> = vec![];
    for (idx, name) in names.iter().enumerate().rev() {
        let want = if *name == "Lzw" || *name == "Fl" { if idx == names.len() - 1 { pred_want } else if rng.chance(1, 3) { pred_want.min(1) } else { 0 } } else { 0 };
        let e = encode_stage(rng, name, &cur, want, quirks);
        specs.insert(0, e.spec);
        dicts.insert(0, e.dict);
        if let Some(z) = e.extra_z {
            extra.push(z);
        }
        tags.extend(e.tags);
        cur = e.bytes;
    }
    let filters = if names.len() == 1 && rng.chance(1, 2) { format!("n:{}", names[0]) } else { format!("a:{}", names.join(",")) };
    let parms = parms_token(&dicts);
    let mut ztab = build_ztab(&filters, &parms, &cur);
    if !extra.is_empty() {
        let e = extra.join(",");
        ztab = if ztab == "-" { e } else { format!("{},{}", e, ztab) };
    }
    Case::new(
        format!("rt {} {} {} {} {} {}", filters, parms, specs.join("|"), hex(&plain), hex(&cur), ztab),
        format!("chain{} {} {} {}{}", names.len(), names.join("+"), kind, tags.join(" "), if plain.is_empty() { "" } else { " nt" }),
    )
}

fn sized_plain(rng: &mut Rng, n: usize) -> (Vec<u8>, &'static str) {
    plaintext(rng, n)
}

fn gen(rng: &mut Rng, tier: Tier) -> Vec<Case> {
    std::panic::set_hook(Box::new(|_| {}));
    let q = tier == Tier::Quick;
    let mut cases = vec![];
    let all = ["Hex", "A85", "Rl", "Lzw", "Fl"];
    // (1) single filters, small and medium sizes, no predictor
    let n_single = if q { 60 } else { 700 };
    for f in all {
        for i in 0..n_single {
            let n = match i % 10 {
                0 => 0,
                1 => 1,
                2 => 2,
                3 => 3,
                4 => 4,
                5 => 5,
                9 => rng.below(if q { 2500 } else { 12000 }) as usize,
                _ => rng.below(400) as usize,
            };
            let (p, kind) = sized_plain(rng, n);
            cases.push(rt_case(rng, &[f], p, kind, 0, false));
        }
    }
    // (2) predictors: every value 2, 10-15 x colours x bpc x columns (random combinations, many)
    let n_pred = if q { 500 } else { 8000 };
    for i in 0..n_pred {
        let f = if i % 2 == 0 { "Fl" } else { "Lzw" };
        let rows = 1 + rng.below(5) as usize;
        let colors = 1 + rng.below(4) as usize;
        let bpc = *rng.pick(&[1usize, 2, 4, 8, 16]);
        let columns = 1 + rng.below(64) as usize;
        let n = rows * enc::row_bytes(columns, colors, bpc);
        let (p, kind) = sized_plain(rng, n);
        let want = if i % 7 == 0 { 2 } else { 1 };
        cases.push(rt_case(rng, &[f], p, kind, want, false));
    }
    // (3) chains of 2 and 3
    let n_chain = if q { 250 } else { 4000 };
    for _ in 0..n_chain {
        let k = 2 + rng.below(2) as usize;
        let names: Vec<&'static str> = (0..k).map(|_| *rng.pick(&all)).collect();
        let n = rng.below(260) as usize;
        let (p, kind) = sized_plain(rng, n);
        let want = if rng.chance(1, 3) { 1 } else { 0 };
        cases.push(rt_case(rng, &names, p, kind, want, false));
    }
    // (4) LZW: lengths around every code-width switch and the full table, both EarlyChange values
    let centers: &[usize] = &[252, 253, 254, 255, 508, 509, 510, 511, 764, 765, 766, 1020, 1788, 1789, 1790, 1791, 3836, 3837, 3838, 3839, 3840, 3841, 4095, 4096, 4097, 4400, 8200];
    let spread: i64 = if q { 0 } else { 3 };
    for &c in centers {
        for d in -spread..=spread {
            let n = (c as i64 + d) as usize;
            let reps = if q { 1 } else { 2 };
            for _ in 0..reps {
                let p = rng.bytes(n);
                cases.push(rt_case(rng, &["Lzw"], p, "lzw-boundary", 0, false));
            }
        }
    }
    // compressible data long enough to fill the table through long matches
    for n in if q { vec![6000usize, 20000] } else { vec![6000usize, 20000, 40000, 70000] } {
        for _ in 0..2 {
            let (p, kind) = sized_plain(rng, n);
            cases.push(rt_case(rng, &["Lzw"], p, kind, 0, false));
        }
    }
    // (5) what the specification allows but the decoder may not: NUL as white space, TIFF predictor
    let n_quirk = if q { 60 } else { 400 };
    for _ in 0..n_quirk {
        let f = *rng.pick(&["Hex", "A85"]);
        let n = 1 + rng.below(60) as usize;
        let (p, kind) = sized_plain(rng, n);
        cases.push(rt_case(rng, &[f], p, kind, 0, true));
    }
    // ASCII85 without `<~` whose first digit is `<` (first byte 0x54..0x56)
    for s in [&b"Test"[..], b"Text stream", b"U", b"VV", b"T\0\0\0\0\0\0\0"] {
        for _ in 0..2 {
            cases.push(rt_case(rng, &["A85"], s.to_vec(), "leading-lt", 0, false));
        }
    }
    // (6) CCITT: hand-made vectors only (no reference encoder) — `ccitt` cases
    for (k, cols, rows, b1, data, want) in [
        (-1, 8, 2, 0, "c0040040", "ffff"),       // G4: two all-white rows (V0, V0), EOFB
        (-1, 8, 1, 0, "26a280080080", "00"),     // G4: one all-black row (H, white 0, black 8), EOFB
        (-1, 8, 2, 1, "c0040040", "0000"),       // the same with /BlackIs1 true
        (0, 8, 1, 0, "98008008008008008008", "ff"), // G3 1-D: white run 8 (10011), RTC
        (0, 8, 1, 0, "83001001001001001001", "e0"), // G3 1-D: white 3 (1000), black 5 (0011), RTC
    ] {
        cases.push(Case::new(format!("cc {} {} {} {} {} {}", k, cols, rows, b1, data, want), "ccitt hand-vector nt"));
    }
    cases
}

fn main() {
    harness_main(gen, run, Limits::default());
}
