//! C21 — content streams parse back to the operators that were written.
//!
//! Requests
//!   `prog <call>;<call>;…`   an authoring program run against the REAL `Page` / `GraphicsContext` /
//!                            `TextContext` API; the document is written uncompressed by the real
//!                            `PdfWriter`, the page's content stream is cut out of the file and parsed by
//!                            the real `ContentParser::parse`.
//!   `bytes <hex>`            arbitrary bytes through `ContentParser::parse` (parser correspondence,
//!                            termination)
//!   `rep <hexunit> <count>`  the unit repeated `count` times through `ContentParser::parse`
//! Answer: `<content hex>|<parsed ops>` (prog) / `<parsed ops>` (bytes, rep) / `err:<class>`.
//!
//! Calls (`,`-separated arguments; f64 = 16 hex digits of the bit pattern, f32 = 8 hex digits,
//! text and names = hex of the UTF-8 bytes, `-` = empty):
//!   g.m,x,y g.l,x,y g.c,×6 g.re,×4 g.h g.S g.f g.B g.n g.W g.Wx g.WS g.q g.Q
//!   g.sc,<col> g.fc,<col>          col = 3,r,g,b | 1,y | 4,c,m,y,k   (raw enum variants: no clamping)
//!   g.w,x g.J,n g.j,n g.M,x g.i,x g.d,phase,x… g.ds g.ri,n g.cm,×6 g.tr,x,y g.scl,x,y
//!   g.Do,name,x,y,w,h g.sh,name g.icc,name,x… g.ICC,name,x… g.alpha,x g.op,x
//!   g.BT g.ET g.Tf,font,size:disp g.Tfc,name,size:disp g.Td,x,y g.Tj,text g.Tw,x g.Tc,x
//!   g.dt,text,x,y g.cid,x,y,cid:adj:xoff… g.clip,x,y,w,h g.bg g.eg
//!   t.font,font,size:disp t.fontc,name,size:disp t.at,x,y t.w,text t.cs,x t.ws,x t.hs,x t.ld,x
//!   t.rise,x t.mode,n t.fill,<col> t.stroke,<col> t.clear
//!   p.bdc,tag p.bdca,tag,text p.emc
//! `size:disp` carries, next to the bits, the text Rust's `Display` produces for the value (the
//! float→shortest-decimal conversion is a parameter of the model; the driver validates it).
use oxidize_pdf::graphics::{CidShowElement, Color, LineCap, LineDashPattern, LineJoin, RenderingIntent, TransparencyGroup};
use oxidize_pdf::parser::content::{ContentOperation, ContentParser, MarkedContentProps, MarkedContentValue, TextElement};
use oxidize_pdf::text::{Font, TextRenderingMode};
use oxidize_pdf::{Document, Page};
use oxiharness::*;

// ---------------------------------------------------------------------------------------------
// canonical text of parsed operations
// ---------------------------------------------------------------------------------------------

fn n32(x: f32) -> String {
    format!("n{:08x}", x.to_bits())
}
fn nm(s: &str) -> String {
    format!("/{}", hex(s.as_bytes()))
}
fn st(b: &[u8]) -> String {
    format!("s{}", hex(b))
}
fn nums(v: &[f32]) -> String {
    format!("[{}]", v.iter().map(|x| n32(*x)).collect::<Vec<_>>().join(";"))
}
fn mcv(v: &MarkedContentValue) -> String {
    match v {
        MarkedContentValue::String(b) => st(b),
        MarkedContentValue::Integer(i) => format!("i{}", i),
        MarkedContentValue::Real(f) => n32(*f as f32),
        MarkedContentValue::Name(n) => nm(n),
        MarkedContentValue::Array(xs) => format!("[{}]", xs.iter().map(mcv).collect::<Vec<_>>().join(";")),
        MarkedContentValue::Dict(m) => mcd(m),
    }
}
fn mcd(m: &std::collections::HashMap<String, MarkedContentValue>) -> String {
    let mut kv: Vec<(&String, &MarkedContentValue)> = m.iter().collect();
    kv.sort_by(|a, b| a.0.as_bytes().cmp(b.0.as_bytes()));
    format!("D{{{}}}", kv.iter().map(|(k, v)| format!("{}={}", hex(k.as_bytes()), mcv(v))).collect::<Vec<_>>().join(";"))
}
fn props(p: &MarkedContentProps) -> String {
    match p {
        MarkedContentProps::ResourceRef(n) => format!("R{}", nm(n)),
        MarkedContentProps::Inline(m) => mcd(m),
    }
}

fn show_op(op: &ContentOperation) -> String {
    use ContentOperation as C;
    let f = |kw: &str, args: Vec<String>| format!("{}({})", kw, args.join(","));
    match op {
        C::BeginText => f("BT", vec![]),
        C::EndText => f("ET", vec![]),
        C::SetCharSpacing(a) => f("Tc", vec![n32(*a)]),
        C::SetWordSpacing(a) => f("Tw", vec![n32(*a)]),
        C::SetHorizontalScaling(a) => f("Tz", vec![n32(*a)]),
        C::SetLeading(a) => f("TL", vec![n32(*a)]),
        C::SetFont(n, s) => f("Tf", vec![nm(n), n32(*s)]),
        C::SetTextRenderMode(i) => f("Tr", vec![format!("i{}", i)]),
        C::SetTextRise(a) => f("Ts", vec![n32(*a)]),
        C::MoveText(a, b) => f("Td", vec![n32(*a), n32(*b)]),
        C::MoveTextSetLeading(a, b) => f("TD", vec![n32(*a), n32(*b)]),
        C::SetTextMatrix(a, b, c, d, e, g) => f("Tm", [a, b, c, d, e, g].iter().map(|x| n32(**x)).collect()),
        C::NextLine => f("T*", vec![]),
        C::ShowText(s) => f("Tj", vec![st(s)]),
        C::ShowTextArray(es) => f(
            "TJ",
            vec![format!(
                "[{}]",
                es.iter()
                    .map(|e| match e {
                        TextElement::Text(s) => st(s),
                        TextElement::Spacing(x) => n32(*x),
                    })
                    .collect::<Vec<_>>()
                    .join(";")
            )],
        ),
        C::NextLineShowText(s) => f("'", vec![st(s)]),
        C::SetSpacingNextLineShowText(a, b, s) => f("\"", vec![n32(*a), n32(*b), st(s)]),
        C::SaveGraphicsState => f("q", vec![]),
        C::RestoreGraphicsState => f("Q", vec![]),
        C::SetTransformMatrix(a, b, c, d, e, g) => f("cm", [a, b, c, d, e, g].iter().map(|x| n32(**x)).collect()),
        C::SetLineWidth(a) => f("w", vec![n32(*a)]),
        C::SetLineCap(i) => f("J", vec![format!("i{}", i)]),
        C::SetLineJoin(i) => f("j", vec![format!("i{}", i)]),
        C::SetMiterLimit(a) => f("M", vec![n32(*a)]),
        C::SetDashPattern(v, p) => f("d", vec![nums(v), n32(*p)]),
        C::SetIntent(n) => f("ri", vec![nm(n)]),
        C::SetFlatness(a) => f("i", vec![n32(*a)]),
        C::SetGraphicsStateParams(n) => f("gs", vec![nm(n)]),
        C::MoveTo(a, b) => f("m", vec![n32(*a), n32(*b)]),
        C::LineTo(a, b) => f("l", vec![n32(*a), n32(*b)]),
        C::CurveTo(a, b, c, d, e, g) => f("c", [a, b, c, d, e, g].iter().map(|x| n32(**x)).collect()),
        C::CurveToV(a, b, c, d) => f("v", [a, b, c, d].iter().map(|x| n32(**x)).collect()),
        C::CurveToY(a, b, c, d) => f("y", [a, b, c, d].iter().map(|x| n32(**x)).collect()),
        C::ClosePath => f("h", vec![]),
        C::Rectangle(a, b, c, d) => f("re", [a, b, c, d].iter().map(|x| n32(**x)).collect()),
        C::Stroke => f("S", vec![]),
        C::CloseStroke => f("s", vec![]),
        C::Fill => f("f", vec![]),
        C::FillEvenOdd => f("f*", vec![]),
        C::FillStroke => f("B", vec![]),
        C::FillStrokeEvenOdd => f("B*", vec![]),
        C::CloseFillStroke => f("b", vec![]),
        C::CloseFillStrokeEvenOdd => f("b*", vec![]),
        C::EndPath => f("n", vec![]),
        C::Clip => f("W", vec![]),
        C::ClipEvenOdd => f("W*", vec![]),
        C::SetStrokingColorSpace(n) => f("CS", vec![nm(n)]),
        C::SetNonStrokingColorSpace(n) => f("cs", vec![nm(n)]),
        C::SetStrokingColor(v) => f("SC", vec![nums(v)]),
        C::SetNonStrokingColor(v) => f("sc", vec![nums(v)]),
        C::SetStrokingGray(a) => f("G", vec![n32(*a)]),
        C::SetNonStrokingGray(a) => f("g", vec![n32(*a)]),
        C::SetStrokingRGB(a, b, c) => f("RG", [a, b, c].iter().map(|x| n32(**x)).collect()),
        C::SetNonStrokingRGB(a, b, c) => f("rg", [a, b, c].iter().map(|x| n32(**x)).collect()),
        C::SetStrokingCMYK(a, b, c, d) => f("K", [a, b, c, d].iter().map(|x| n32(**x)).collect()),
        C::SetNonStrokingCMYK(a, b, c, d) => f("k", [a, b, c, d].iter().map(|x| n32(**x)).collect()),
        C::ShadingFill(n) => f("sh", vec![nm(n)]),
        C::BeginInlineImage => f("BI?", vec![]),
        C::InlineImage { params, data } => {
            let mut ks: Vec<String> = params.iter().map(|(k, v)| format!("{}={}", hex(k.as_bytes()), inline_val(v))).collect();
            ks.sort();
            f("BI", vec![format!("D{{{}}}", ks.join(";")), st(data)])
        }
        C::PaintXObject(n) => f("Do", vec![nm(n)]),
        C::BeginMarkedContent(n) => f("BMC", vec![nm(n)]),
        C::BeginMarkedContentWithProps(n, p) => f("BDC", vec![nm(n), props(p)]),
        C::EndMarkedContent => f("EMC", vec![]),
        C::DefineMarkedContentPoint(n) => f("MP", vec![nm(n)]),
        C::DefineMarkedContentPointWithProps(n, p) => f("DP", vec![nm(n), props(p)]),
        C::BeginCompatibility => f("BX", vec![]),
        C::EndCompatibility => f("EX", vec![]),
    }
}

fn inline_val(v: &oxidize_pdf::objects::Object) -> String {
    use oxidize_pdf::objects::Object as O;
    match v {
        O::Integer(i) => format!("i{}", i),
        O::Real(r) => n32(*r as f32),
        O::Name(n) => nm(n),
        O::String(s) => if s.contains('\u{fffd}') { "s?".into() } else { st(s.as_bytes()) },
        O::Null => "null".into(),
        _ => "?".into(),
    }
}

fn show_ops(ops: &[ContentOperation]) -> String {
    if ops.is_empty() {
        ".".into()
    } else {
        ops.iter().map(show_op).collect::<Vec<_>>().join(" ")
    }
}

fn parse_show(content: &[u8]) -> String {
    match ContentParser::parse(content) {
        Ok(ops) => show_ops(&ops),
        Err(_) => "err".into(),
    }
}

// ---------------------------------------------------------------------------------------------
// running an authoring program
// ---------------------------------------------------------------------------------------------

fn f64_of(s: &str) -> Option<f64> {
    if s.len() != 16 {
        return None;
    }
    u64::from_str_radix(s, 16).ok().map(f64::from_bits)
}
fn f32_of(s: &str) -> Option<f32> {
    if s.len() != 8 {
        return None;
    }
    u32::from_str_radix(s, 16).ok().map(f32::from_bits)
}
fn text_of(s: &str) -> Option<String> {
    String::from_utf8(unhex(s)?).ok()
}
fn size_of(s: &str) -> Option<f64> {
    f64_of(s.split(':').next()?)
}
fn color_of(a: &[&str]) -> Option<Color> {
    let v: Option<Vec<f64>> = a[1..].iter().map(|s| f64_of(s)).collect();
    let v = v?;
    match (a.first().copied()?, v.len()) {
        ("3", 3) => Some(Color::Rgb(v[0], v[1], v[2])),
        ("1", 1) => Some(Color::Gray(v[0])),
        ("4", 4) => Some(Color::Cmyk(v[0], v[1], v[2], v[3])),
        _ => None,
    }
}
const FONTS: [Font; 14] = [
    Font::Helvetica,
    Font::HelveticaBold,
    Font::HelveticaOblique,
    Font::HelveticaBoldOblique,
    Font::TimesRoman,
    Font::TimesBold,
    Font::TimesItalic,
    Font::TimesBoldItalic,
    Font::Courier,
    Font::CourierBold,
    Font::CourierOblique,
    Font::CourierBoldOblique,
    Font::Symbol,
    Font::ZapfDingbats,
];
fn font_of(s: &str) -> Option<Font> {
    FONTS.get(s.parse::<usize>().ok()?).cloned()
}

fn apply(page: &mut Page, call: &str) -> Option<()> {
    let a: Vec<&str> = call.split(',').collect();
    let fs = |r: std::ops::Range<usize>| -> Option<Vec<f64>> { a.get(r)?.iter().map(|s| f64_of(s)).collect() };
    match a[0] {
        "g.m" => {
            let v = fs(1..3)?;
            page.graphics().move_to(v[0], v[1]);
        }
        "g.l" => {
            let v = fs(1..3)?;
            page.graphics().line_to(v[0], v[1]);
        }
        "g.c" => {
            let v = fs(1..7)?;
            page.graphics().curve_to(v[0], v[1], v[2], v[3], v[4], v[5]);
        }
        "g.re" => {
            let v = fs(1..5)?;
            page.graphics().rect(v[0], v[1], v[2], v[3]);
        }
        "g.h" => {
            page.graphics().close_path();
        }
        "g.S" => {
            page.graphics().stroke();
        }
        "g.f" => {
            page.graphics().fill();
        }
        "g.B" => {
            page.graphics().fill_stroke();
        }
        "g.n" => {
            page.graphics().end_path();
        }
        "g.W" => {
            page.graphics().clip();
        }
        "g.Wx" => {
            page.graphics().clip_even_odd();
        }
        "g.WS" => {
            page.graphics().clip_stroke();
        }
        "g.q" => {
            page.graphics().save_state();
        }
        "g.Q" => {
            page.graphics().restore_state();
        }
        "g.sc" => {
            page.graphics().set_stroke_color(color_of(&a[1..])?);
        }
        "g.fc" => {
            page.graphics().set_fill_color(color_of(&a[1..])?);
        }
        "g.w" => {
            page.graphics().set_line_width(f64_of(a.get(1)?)?);
        }
        "g.J" => {
            let c = match *a.get(1)? {
                "0" => LineCap::Butt,
                "1" => LineCap::Round,
                "2" => LineCap::Square,
                _ => return None,
            };
            page.graphics().set_line_cap(c);
        }
        "g.j" => {
            let c = match *a.get(1)? {
                "0" => LineJoin::Miter,
                "1" => LineJoin::Round,
                "2" => LineJoin::Bevel,
                _ => return None,
            };
            page.graphics().set_line_join(c);
        }
        "g.M" => {
            page.graphics().set_miter_limit(f64_of(a.get(1)?)?);
        }
        "g.i" => {
            page.graphics().set_flatness(f64_of(a.get(1)?)?);
        }
        "g.d" => {
            let phase = f64_of(a.get(1)?)?;
            let arr = fs(2..a.len())?;
            page.graphics().set_line_dash_pattern(LineDashPattern::new(arr, phase));
        }
        "g.ds" => {
            page.graphics().set_line_solid();
        }
        "g.ri" => {
            let r = match *a.get(1)? {
                "0" => RenderingIntent::AbsoluteColorimetric,
                "1" => RenderingIntent::RelativeColorimetric,
                "2" => RenderingIntent::Saturation,
                "3" => RenderingIntent::Perceptual,
                _ => return None,
            };
            page.graphics().set_rendering_intent(r);
        }
        "g.cm" => {
            let v = fs(1..7)?;
            page.graphics().transform(v[0], v[1], v[2], v[3], v[4], v[5]);
        }
        "g.tr" => {
            let v = fs(1..3)?;
            page.graphics().translate(v[0], v[1]);
        }
        "g.scl" => {
            let v = fs(1..3)?;
            page.graphics().scale(v[0], v[1]);
        }
        "g.Do" => {
            let n = text_of(a.get(1)?)?;
            let v = fs(2..6)?;
            page.graphics().draw_image(n, v[0], v[1], v[2], v[3]);
        }
        "g.sh" => {
            page.graphics().paint_shading(text_of(a.get(1)?)?);
        }
        "g.icc" => {
            let n = text_of(a.get(1)?)?;
            let v = fs(2..a.len())?;
            if v.is_empty() {
                return None;
            }
            page.graphics().set_fill_color_icc(n, v);
        }
        "g.ICC" => {
            let n = text_of(a.get(1)?)?;
            let v = fs(2..a.len())?;
            if v.is_empty() {
                return None;
            }
            page.graphics().set_stroke_color_icc(n, v);
        }
        "g.alpha" => {
            let _ = page.graphics().set_alpha(f64_of(a.get(1)?)?);
        }
        "g.op" => {
            page.graphics().set_opacity(f64_of(a.get(1)?)?);
        }
        "g.BT" => {
            page.graphics().begin_text();
        }
        "g.ET" => {
            page.graphics().end_text();
        }
        "g.Tf" => {
            page.graphics().set_font(font_of(a.get(1)?)?, size_of(a.get(2)?)?);
        }
        "g.Tfc" => {
            let n = text_of(a.get(1)?)?;
            page.graphics().set_custom_font(&n, size_of(a.get(2)?)?);
        }
        "g.Td" => {
            let v = fs(1..3)?;
            page.graphics().set_text_position(v[0], v[1]);
        }
        "g.Tj" => {
            let t = text_of(a.get(1)?)?;
            let _ = page.graphics().show_text(&t);
        }
        "g.Tw" => {
            page.graphics().set_word_spacing(f64_of(a.get(1)?)?);
        }
        "g.Tc" => {
            page.graphics().set_character_spacing(f64_of(a.get(1)?)?);
        }
        "g.dt" => {
            let t = text_of(a.get(1)?)?;
            let v = fs(2..4)?;
            let _ = page.graphics().draw_text(&t, v[0], v[1]);
        }
        "g.cid" => {
            let v = fs(1..3)?;
            let mut els = vec![];
            for e in &a[3..] {
                let p: Vec<&str> = e.split(':').collect();
                if p.len() != 3 {
                    return None;
                }
                let cid = u16::from_str_radix(p[0], 16).ok()?;
                els.push(CidShowElement::new(cid, f32_of(p[1])?).with_x_offset(f32_of(p[2])?));
            }
            page.graphics().show_cid_array(&els, v[0], v[1]);
        }
        "g.clip" => {
            let v = fs(1..5)?;
            let _ = page.graphics().clip_rect(v[0], v[1], v[2], v[3]);
        }
        "g.bg" => {
            page.graphics().begin_transparency_group(TransparencyGroup::new());
        }
        "g.eg" => {
            page.graphics().end_transparency_group();
        }
        "t.font" => {
            page.text().set_font(font_of(a.get(1)?)?, size_of(a.get(2)?)?);
        }
        "t.fontc" => {
            let n = text_of(a.get(1)?)?;
            page.text().set_font(Font::Custom(n), size_of(a.get(2)?)?);
        }
        "t.at" => {
            let v = fs(1..3)?;
            page.text().at(v[0], v[1]);
        }
        "t.w" => {
            let t = text_of(a.get(1)?)?;
            let _ = page.text().write(&t);
        }
        "t.cs" => {
            page.text().set_character_spacing(f64_of(a.get(1)?)?);
        }
        "t.ws" => {
            page.text().set_word_spacing(f64_of(a.get(1)?)?);
        }
        "t.hs" => {
            page.text().set_horizontal_scaling(f64_of(a.get(1)?)?);
        }
        "t.ld" => {
            page.text().set_leading(f64_of(a.get(1)?)?);
        }
        "t.rise" => {
            page.text().set_text_rise(f64_of(a.get(1)?)?);
        }
        "t.mode" => {
            let m = match *a.get(1)? {
                "0" => TextRenderingMode::Fill,
                "1" => TextRenderingMode::Stroke,
                "2" => TextRenderingMode::FillStroke,
                "3" => TextRenderingMode::Invisible,
                "4" => TextRenderingMode::FillClip,
                "5" => TextRenderingMode::StrokeClip,
                "6" => TextRenderingMode::FillStrokeClip,
                "7" => TextRenderingMode::Clip,
                _ => return None,
            };
            page.text().set_rendering_mode(m);
        }
        "t.fill" => {
            page.text().set_fill_color(color_of(&a[1..])?);
        }
        "t.stroke" => {
            page.text().set_stroke_color(color_of(&a[1..])?);
        }
        "t.clear" => {
            page.text().clear();
        }
        "p.bdc" => {
            let _ = page.begin_marked_content(&text_of(a.get(1)?)?);
        }
        "p.bdca" => {
            let _ = page.begin_marked_content_with_actual_text(&text_of(a.get(1)?)?, &text_of(a.get(2)?)?);
        }
        "p.emc" => {
            let _ = page.end_marked_content();
        }
        _ => return None,
    }
    Some(())
}

fn find(hay: &[u8], needle: &[u8], from: usize) -> Option<usize> {
    if needle.is_empty() || hay.len() < needle.len() {
        return None;
    }
    (from..=hay.len() - needle.len()).find(|&i| &hay[i..i + needle.len()] == needle)
}

/// the page's content stream, cut out of the written file: `/Contents N 0 R` → `N 0 obj` →
/// `/Length L` → the L bytes after `stream\n`
fn cut_content(file: &[u8]) -> Result<Vec<u8>, String> {
    let c = find(file, b"/Contents ", 0).ok_or("no-contents")?;
    let mut i = c + 10;
    let mut n = 0usize;
    while i < file.len() && file[i].is_ascii_digit() {
        n = n * 10 + (file[i] - b'0') as usize;
        i += 1;
    }
    let hdr = format!("\n{} 0 obj", n);
    let o = find(file, hdr.as_bytes(), 0).ok_or("no-content-object")?;
    let l = find(file, b"/Length ", o).ok_or("no-length")?;
    let mut i = l + 8;
    let mut len = 0usize;
    while i < file.len() && file[i].is_ascii_digit() {
        len = len * 10 + (file[i] - b'0') as usize;
        i += 1;
    }
    let s = find(file, b"stream", i).ok_or("no-stream")?;
    let mut d = s + 6;
    if file.get(d) == Some(&b'\r') {
        d += 1;
    }
    if file.get(d) == Some(&b'\n') {
        d += 1;
    }
    if d + len > file.len() {
        return Err("short-stream".into());
    }
    Ok(file[d..d + len].to_vec())
}

fn run_prog(p: &str) -> String {
    let mut page = Page::a4();
    if p != "." {
        for call in p.split(';') {
            if apply(&mut page, call).is_none() {
                return "bad-request".into();
            }
        }
    }
    let mut doc = Document::new();
    doc.add_page(page);
    let cfg = oxidize_pdf::writer::WriterConfig {
        compress_streams: false,
        use_xref_streams: false,
        use_object_streams: false,
        ..Default::default()
    };
    let mut out = Vec::new();
    {
        let mut w = oxidize_pdf::writer::PdfWriter::with_config(&mut out, cfg);
        if let Err(e) = w.write_document(&mut doc) {
            return format!("err:write:{}", e).replace(' ', "_");
        }
    }
    match cut_content(&out) {
        Ok(c) => format!("{}|{}", hex(&c), parse_show(&c)),
        Err(e) => format!("err:cut:{}", e),
    }
}

fn run(req: &str) -> String {
    let parts: Vec<&str> = req.split(' ').collect();
    match parts.as_slice() {
        ["prog", p] => run_prog(p),
        ["bytes", h] => match unhex(h) {
            Some(b) => parse_show(&b),
            None => "bad-request".into(),
        },
        ["rep", h, n] => match (unhex(h), n.parse::<usize>()) {
            (Some(b), Ok(n)) if n <= 50_000_000 => parse_show(&b.repeat(n)),
            _ => "bad-request".into(),
        },
        _ => "bad-request".into(),
    }
}

// ---------------------------------------------------------------------------------------------
// generator
// ---------------------------------------------------------------------------------------------

fn hx(x: f64) -> String {
    format!("{:016x}", x.to_bits())
}
fn hx32(x: f32) -> String {
    format!("{:08x}", x.to_bits())
}
fn sz(x: f64) -> String {
    format!("{}:{}", hx(x), x)
}

const EDGE: [f64; 46] = [
    0.0,
    -0.0,
    1.0,
    -1.0,
    0.5,
    0.125,
    0.375,
    -0.125,
    0.005,
    0.015,
    0.045,
    0.0005,
    0.0015,
    0.00005,
    2.5,
    0.995,
    0.9995,
    99.995,
    9.995,
    -0.001,
    -0.004,
    -0.005,
    0.004999,
    1e-7,
    5e-324,
    2.2250738585072014e-308,
    100.0,
    595.28,
    841.89,
    12.0,
    16777216.0,
    16777217.0,
    33554433.0,
    2147483647.0,
    2147483648.0,
    -2147483648.0,
    -2147483649.0,
    3e9,
    1e21,
    3.4028234663852886e38,
    3.4028235677973366e38,
    3.5e38,
    1e300,
    f64::MAX,
    f64::INFINITY,
    f64::NAN,
];

/// `hostile` = extreme / non-finite values allowed
fn num(rng: &mut Rng, hostile: bool) -> f64 {
    match rng.below(20) {
        0..=2 if hostile => EDGE[rng.below(EDGE.len() as u64) as usize],
        0..=2 => EDGE[rng.below(32) as usize],
        3 if hostile => {
            if rng.chance(1, 2) {
                f64::NEG_INFINITY
            } else {
                -EDGE[rng.below(EDGE.len() as u64) as usize]
            }
        }
        4 if hostile => f64::from_bits(rng.next()),
        // ties and near-ties of the two/three/four-decimal rounding: k/8, k/16, k/2000 …
        5..=7 => rng.range(-8000, 8000) as f64 / 8.0,
        8 => rng.range(-16000, 16000) as f64 / 16.0,
        9 => rng.range(-20000, 20000) as f64 / 2000.0,
        10 => rng.range(-20000, 20000) as f64 / 20000.0,
        11 => (rng.range(-1_000_000, 1_000_000) as f64) * 0.001,
        12 => rng.range(0, 1000) as f64 / 1000.0,
        13 => rng.range(-1000, 1000) as f64,
        14 => (rng.next() as f64 / u64::MAX as f64) * 1000.0,
        15 => rng.next() as f64 / u64::MAX as f64,
        16 => rng.range(-100_000_000, 100_000_000) as f64 / 7.0,
        _ => rng.range(0, 800) as f64 + [0.0, 0.25, 0.5, 0.75][rng.below(4) as usize],
    }
}
fn unit(rng: &mut Rng, hostile: bool) -> f64 {
    if hostile && rng.chance(1, 6) {
        num(rng, true)
    } else {
        match rng.below(6) {
            0 => 0.0,
            1 => 1.0,
            2 => rng.range(0, 2000) as f64 / 2000.0,
            3 => rng.range(0, 16) as f64 / 16.0,
            _ => rng.next() as f64 / u64::MAX as f64,
        }
    }
}
fn size(rng: &mut Rng, hostile: bool) -> f64 {
    match rng.below(12) {
        0 if hostile => num(rng, true),
        1 if hostile => [2147483647.0, 2147483648.0, 3e9, 1e10, -2147483648.0, -2147483649.0, -0.0, 1e21][rng.below(8) as usize],
        0 | 1 => 10.0,
        2 => rng.range(1, 72) as f64 + 0.5,
        3 => rng.range(1, 720) as f64 / 10.0,
        4 => rng.range(1, 7200) as f64 / 100.0,
        5 => (rng.next() as f64 / u64::MAX as f64) * 100.0,
        _ => rng.range(1, 96) as f64,
    }
}

fn color(rng: &mut Rng, hostile: bool) -> String {
    match rng.below(3) {
        0 => format!("3,{},{},{}", hx(unit(rng, hostile)), hx(unit(rng, hostile)), hx(unit(rng, hostile))),
        1 => format!("1,{}", hx(unit(rng, hostile))),
        _ => format!(
            "4,{},{},{},{}",
            hx(unit(rng, hostile)),
            hx(unit(rng, hostile)),
            hx(unit(rng, hostile)),
            hx(unit(rng, hostile))
        ),
    }
}

/// text with every escape-relevant character class
fn text(rng: &mut Rng) -> String {
    let n = match rng.below(8) {
        0 => 0,
        1 => 1,
        2 => rng.below(60) as usize,
        _ => rng.below(12) as usize,
    };
    let special: [char; 22] = [
        '(', ')', '\\', '\n', '\r', '\t', '\u{8}', '\u{c}', '\0', '\u{1}', '\u{1f}', '\u{7f}', ' ', '%', '<', '>', '[', ']', '/', '#', '{', '}',
    ];
    let winansi: [char; 10] = ['€', '‚', 'ƒ', '„', '…', '†', '‡', 'Š', 'Ÿ', '™'];
    let wide: [char; 8] = ['Ā', 'λ', 'Ж', '中', '文', '\u{ffff}', '😀', '\u{10ffff}'];
    let mut s = String::new();
    for _ in 0..n {
        match rng.below(12) {
            0..=3 => s.push(*rng.pick(&special)),
            4 => s.push(char::from_u32(rng.range(0x80, 0xff) as u32).unwrap()),
            5 => s.push(*rng.pick(&winansi)),
            6 => s.push(*rng.pick(&wide)),
            7 => s.push(char::from_u32(rng.range(0x30, 0x39) as u32).unwrap()),
            8 => s.push(char::from_u32(rng.range(0, 0x7f) as u32).unwrap()),
            _ => s.push(char::from_u32(rng.range(0x41, 0x7a) as u32).unwrap()),
        }
    }
    s
}

/// names: mostly regular, some with white space, delimiters, `#`, controls, non-ASCII, empty
/// (name operands are escaped since the repair; every name must read back unchanged)
fn name(rng: &mut Rng) -> String {
    // hostile names are generated since the operand-escaping repair (/repo 40e57719)
    const HOSTILE_NAMES: bool = true;
    let pool: &[&str] = if HOSTILE_NAMES {
        &[
            "Im1", "F1", "Gs.1", "CS0", "Sh-1", "P_0", "A+B", "a*b", "x@y", "Ré", "名", "N!$&'^`|~", "Z", "My Image", "A#42",
            "a/b", "(x", "x) y", "<<k>>", "[1]", "{}", "50%", "#", "##zz", "t\tab", "nl\n", "\0", "\u{7f}", "", "q 1 0 0 rg",
        ]
    } else {
        &["Im1", "F1", "Gs.1", "CS0", "Sh-1", "P_0", "A+B", "a*b", "x@y", "N!$&'^`|~", "Z"]
    };
    if rng.chance(3, 4) {
        pool[rng.below(pool.len() as u64) as usize].to_string()
    } else {
        let n = 1 + rng.below(8) as usize;
        let al = b"ABCDEFGHIJKLMNOPQRSTUVWXYZabcdefghijklmnopqrstuvwxyz0123456789._+-*@!$&'^`|~:=?\"\\,";
        (0..n).map(|_| al[rng.below(al.len() as u64) as usize] as char).collect()
    }
}
fn hn(s: &str) -> String {
    hex(s.as_bytes())
}

fn g_path(rng: &mut Rng, h: bool, out: &mut Vec<String>) {
    let k = 1 + rng.below(5);
    for _ in 0..k {
        match rng.below(7) {
            0 | 1 => out.push(format!("g.m,{},{}", hx(num(rng, h)), hx(num(rng, h)))),
            2 | 3 => out.push(format!("g.l,{},{}", hx(num(rng, h)), hx(num(rng, h)))),
            4 => out.push(format!(
                "g.c,{},{},{},{},{},{}",
                hx(num(rng, h)),
                hx(num(rng, h)),
                hx(num(rng, h)),
                hx(num(rng, h)),
                hx(num(rng, h)),
                hx(num(rng, h))
            )),
            5 => out.push(format!("g.re,{},{},{},{}", hx(num(rng, h)), hx(num(rng, h)), hx(num(rng, h)), hx(num(rng, h)))),
            _ => out.push("g.h".into()),
        }
    }
    out.push(["g.S", "g.f", "g.B", "g.n", "g.W", "g.Wx", "g.WS"][rng.below(7) as usize].to_string());
}

fn g_state(rng: &mut Rng, h: bool, out: &mut Vec<String>) {
    match rng.below(22) {
        0 => out.push("g.q".into()),
        1 => out.push("g.Q".into()),
        2 => out.push(format!("g.sc,{}", color(rng, h))),
        3 => out.push(format!("g.fc,{}", color(rng, h))),
        4 => out.push(format!("g.w,{}", hx(num(rng, h)))),
        5 => out.push(format!("g.J,{}", rng.below(3))),
        6 => out.push(format!("g.j,{}", rng.below(3))),
        7 => out.push(format!("g.M,{}", hx(num(rng, h)))),
        8 => out.push(format!("g.i,{}", hx(num(rng, h)))),
        9 => {
            let n = rng.below(5) as usize;
            let mut s = format!("g.d,{}", hx(num(rng, h)));
            for _ in 0..n {
                s.push(',');
                s.push_str(&hx(num(rng, h)));
            }
            out.push(s);
        }
        10 => out.push("g.ds".into()),
        11 => out.push(format!("g.ri,{}", rng.below(4))),
        12 => out.push(format!(
            "g.cm,{},{},{},{},{},{}",
            hx(num(rng, h)),
            hx(num(rng, h)),
            hx(num(rng, h)),
            hx(num(rng, h)),
            hx(num(rng, h)),
            hx(num(rng, h))
        )),
        13 => out.push(format!("g.tr,{},{}", hx(num(rng, h)), hx(num(rng, h)))),
        14 => out.push(format!("g.scl,{},{}", hx(num(rng, h)), hx(num(rng, h)))),
        15 => out.push(format!(
            "g.Do,{},{},{},{},{}",
            hn(&name(rng)),
            hx(num(rng, h)),
            hx(num(rng, h)),
            hx(num(rng, h)),
            hx(num(rng, h))
        )),
        16 => out.push(format!("g.sh,{}", hn(&name(rng)))),
        17 => {
            let n = 1 + rng.below(4) as usize;
            let mut s = format!("g.{},{}", if rng.chance(1, 2) { "icc" } else { "ICC" }, hn(&name(rng)));
            for _ in 0..n {
                s.push(',');
                s.push_str(&hx(unit(rng, h)));
            }
            out.push(s);
        }
        18 => out.push(format!("g.alpha,{}", hx(unit(rng, h)))),
        19 => out.push(format!("g.op,{}", hx(unit(rng, h)))),
        20 => {
            if h {
                out.push(format!("g.clip,{},{},{},{}", hx(num(rng, h)), hx(num(rng, h)), hx(num(rng, h)), hx(num(rng, h))))
            } else {
                out.push("g.q".into())
            }
        }
        _ => out.push(if rng.chance(1, 2) { "g.bg".into() } else { "g.eg".into() }),
    }
}

fn g_text(rng: &mut Rng, h: bool, out: &mut Vec<String>) {
    match rng.below(6) {
        0 => {
            out.push("g.BT".into());
            if rng.chance(1, 2) {
                out.push(format!("g.Tf,{},{}", rng.below(14), sz(size(rng, h))));
            } else {
                out.push(format!("g.Tfc,{},{}", hn(&name(rng)), sz(size(rng, h))));
            }
            out.push(format!("g.Td,{},{}", hx(num(rng, h)), hx(num(rng, h))));
            if rng.chance(1, 3) {
                out.push(format!("g.Tw,{}", hx(num(rng, h))));
            }
            if rng.chance(1, 3) {
                out.push(format!("g.Tc,{}", hx(num(rng, h))));
            }
            out.push(format!("g.Tj,{}", hn(&text(rng))));
            out.push("g.ET".into());
        }
        1 => out.push(format!("g.Tf,{},{}", rng.below(14), sz(size(rng, h)))),
        2 => out.push(format!("g.Tfc,{},{}", hn(&name(rng)), sz(size(rng, h)))),
        3 | 4 => out.push(format!("g.dt,{},{},{}", hn(&text(rng)), hx(num(rng, h)), hx(num(rng, h)))),
        _ => {
            let n = rng.below(6) as usize;
            let mut s = format!("g.cid,{},{}", hx(num(rng, h)), hx(num(rng, h)));
            for _ in 0..n {
                let adj: f32 = match rng.below(5) {
                    0 | 1 => 0.0,
                    2 => rng.range(-2000, 2000) as f32 / 8.0,
                    3 if h => f32::from_bits(rng.next() as u32),
                    _ => rng.range(-500, 500) as f32,
                };
                let xo: f32 = match rng.below(5) {
                    0..=2 => 0.0,
                    3 if h => [f32::NAN, f32::INFINITY, -0.0, 1e30, f32::MAX][rng.below(5) as usize],
                    _ => rng.range(-300, 300) as f32 / 4.0,
                };
                s.push_str(&format!(",{:04x}:{}:{}", rng.below(0x10000), hx32(adj), hx32(xo)));
            }
            out.push(s);
        }
    }
}

fn t_calls(rng: &mut Rng, h: bool, out: &mut Vec<String>) {
    let k = 1 + rng.below(4);
    for _ in 0..k {
        match rng.below(14) {
            0 => out.push(format!("t.font,{},{}", rng.below(14), sz(size(rng, h)))),
            1 => out.push(format!("t.fontc,{},{}", hn(&name(rng)), sz(size(rng, h)))),
            2 => out.push(format!("t.at,{},{}", hx(num(rng, h)), hx(num(rng, h)))),
            3 => out.push(format!("t.cs,{}", hx(num(rng, h)))),
            4 => out.push(format!("t.ws,{}", hx(num(rng, h)))),
            5 => out.push(format!("t.hs,{}", hx(if rng.chance(1, 2) { unit(rng, h) * 2.0 } else { num(rng, h) }))),
            6 => out.push(format!("t.ld,{}", hx(num(rng, h)))),
            7 => out.push(format!("t.rise,{}", hx(num(rng, h)))),
            8 => out.push(format!("t.mode,{}", rng.below(8))),
            9 => out.push(format!("t.fill,{}", color(rng, h))),
            10 => out.push(format!("t.stroke,{}", color(rng, h))),
            11 => {
                if rng.chance(1, 4) {
                    out.push("t.clear".into())
                }
            }
            _ => out.push(format!("t.w,{}", hn(&text(rng)))),
        }
    }
    out.push(format!("t.w,{}", hn(&text(rng))));
}

fn p_calls(rng: &mut Rng, out: &mut Vec<String>) {
    match rng.below(4) {
        0 => out.push(format!("p.bdc,{}", hn(&name(rng)))),
        1 => out.push(format!("p.bdca,{},{}", hn(&name(rng)), hn(&text(rng)))),
        _ => out.push("p.emc".into()),
    }
}

fn program(rng: &mut Rng, hostile: bool, blocks: usize) -> Vec<String> {
    let mut out = vec![];
    for _ in 0..blocks {
        match rng.below(10) {
            0..=2 => g_path(rng, hostile, &mut out),
            3..=5 => g_state(rng, hostile, &mut out),
            6 => g_text(rng, hostile, &mut out),
            7 | 8 => t_calls(rng, hostile, &mut out),
            _ => p_calls(rng, &mut out),
        }
    }
    out
}

fn is_plain(call: &str) -> bool {
    // single-digit-free rule for `nt`: a call is plain when it has no argument at all
    !call.contains(',')
}

fn tags(kind: &str, calls: &[String]) -> String {
    let mut heads: std::collections::BTreeSet<&str> = Default::default();
    for c in calls {
        heads.insert(c.split(',').next().unwrap_or(""));
    }
    let nt = calls.iter().filter(|c| !is_plain(c)).count() >= 1 && calls.len() >= 2;
    let ctx = (heads.iter().any(|h| h.starts_with("g.")) as u8)
        + (heads.iter().any(|h| h.starts_with("t.")) as u8)
        + (heads.iter().any(|h| h.starts_with("p.")) as u8);
    let mut t = format!("{} calls{} ctx{}", kind, (calls.len() / 8) * 8, ctx);
    for h in heads.iter().take(12) {
        t.push(' ');
        t.push_str(h);
    }
    if nt {
        t.push_str(" nt");
    }
    t
}

fn soup(rng: &mut Rng) -> Vec<u8> {
    let frags: [&[u8]; 65] = [
        b"q", b"Q", b"BT", b"ET", b"1 0 0 1 50 50 cm", b"100 200 m", b"l", b"re", b"S", b"f", b"f*", b"B*", b"W*", b"n", b"T*",
        b"/F1 12 Tf", b"/F#31 1.5 Tf", b"(abc) Tj", b"(a\\(b\\)c) Tj", b"(a(b)c)", b"(\\101\\7\\78\\400)", b"(unterminated", b"<48 65 6C>", b"<4",
        b"<zz>", b"[(a) -50 (b) 1.5] TJ", b"[ <0041> ] TJ", b"[1 2] 0 d", b"[] 0 d", b"]", b"[", b"<<", b">>", b">",
        b"/P <</MCID 0>> BDC", b"/P <</MCID 1 /ActualText <FEFF0041> /A [1 (x) /n <</k 2.5>>]>> BDC", b"/Span /Props BDC", b"EMC", b"/T MP", b"BMC",
        b"0.5 g", b"1 0 0 RG", b"0 0 0 1 k", b"0.1 0.2 sc", b"/P1 scn", b"/Cs1 cs", b"/GS1 gs", b"/Im1 Do", b"/Sh1 sh", b"/Perceptual ri",
        b"% comment\n", b"%c\r", b";", b")", b"{", b"}", b"-", b".", b"+5", b"1.2.3",
        b"BI /W 2 /H 1 /CS /G /BPC 8 /F /AHx ID 0AFF> EI", b"BI /W 1 /IM true /D [1 0] ID \x00\xff EI Q", b"ID", b"EI", b"BI",
    ];
    let mut v = vec![];
    let n = rng.below(14) as usize;
    for _ in 0..n {
        match rng.below(12) {
            0 => {
                let k = 1 + rng.below(4) as usize;
                v.extend(rng.bytes(k))
            }
            1 => v.extend(format!("{}", rng.range(-3_000_000_000, 3_000_000_000)).bytes()),
            2 => v.extend(format!("{:.3}", num(rng, false)).bytes()),
            3 => v.extend(b"\"'".iter().take(1 + rng.below(2) as usize)),
            _ => v.extend_from_slice(frags[rng.below(frags.len() as u64) as usize]),
        }
        v.push(*rng.pick(&[b' ', b' ', b'\n', b'\r', b'\t', 0x0c, b'/', b'(', b'<', 0u8]));
    }
    if rng.chance(1, 3) {
        v.pop();
    }
    v
}

fn gen(rng: &mut Rng, tier: Tier) -> Vec<Case> {
    let mut cases = vec![];
    let scale = if tier == Tier::Quick { 1 } else { 12 };
    // (1) one call per case over the edge table: every numeric slot sees every boundary value
    for (i, e) in EDGE.iter().enumerate() {
        let calls = vec![
            format!("g.m,{},{}", hx(*e), hx(-*e)),
            format!("g.w,{}", hx(*e)),
            format!("g.M,{}", hx(*e)),
            format!("g.i,{}", hx(*e)),
            format!("g.fc,3,{},{},{}", hx(*e), hx(0.5), hx(-*e)),
            "g.f".to_string(),
            format!("g.d,{},{},{}", hx(*e), hx(*e), hx(1.0)),
            format!("g.icc,{},{}", hn("CS0"), hx(*e)),
            format!("t.hs,{}", hx(*e)),
            format!("t.rise,{}", hx(*e)),
            format!("t.w,{}", hn("x")),
        ];
        cases.push(Case::new(format!("prog {}", calls.join(";")), format!("edge e{} nt", i)));
        let calls = vec![format!("g.Tf,0,{}", sz(*e)), format!("t.font,4,{}", sz(-*e)), format!("t.w,{}", hn("y"))];
        cases.push(Case::new(format!("prog {}", calls.join(";")), format!("edge-size e{} nt", i)));
    }
    // (2) every single byte / every WinAnsi code through both show-text paths
    for b in 0u32..=255 {
        let ch = char::from_u32(b).unwrap();
        let calls = vec![
            format!("t.w,{}", hn(&format!("a{}b", ch))),
            "g.BT".to_string(),
            format!("g.Tj,{}", hn(&format!("{}{}", ch, ch))),
            "g.ET".to_string(),
            format!("g.dt,{},{},{}", hn(&format!("({}", ch)), hx(1.0), hx(2.0)),
        ];
        cases.push(Case::new(format!("prog {}", calls.join(";")), "bytes-each nt"));
    }
    // (3) structured programs inside the proved fragment
    for _ in 0..400 * scale {
        let nb = 1 + rng.below(10) as usize;
        let calls = program(rng, false, nb);
        cases.push(Case::new(format!("prog {}", if calls.is_empty() { ".".into() } else { calls.join(";") }), tags("safe", &calls)));
    }
    // (4) programs with extreme / non-finite numbers
    for _ in 0..250 * scale {
        let nb = 1 + rng.below(8) as usize;
        let calls = program(rng, true, nb);
        cases.push(Case::new(format!("prog {}", if calls.is_empty() { ".".into() } else { calls.join(";") }), tags("hostile", &calls)));
    }
    // (5) token soup and raw bytes through the parser (model correspondence, termination)
    for _ in 0..600 * scale {
        let b = soup(rng);
        cases.push(Case::new(format!("bytes {}", hex(&b)), "soup nt"));
    }
    for _ in 0..150 * scale {
        let k = rng.below(40) as usize;
        let b = rng.bytes(k);
        cases.push(Case::new(format!("bytes {}", hex(&b)), "random-bytes nt"));
    }
    for u in ["3b", "29", "7b", "28", "5b", "3c3c", "25", "5c", "2f", "5d"] {
        cases.push(Case::new(format!("rep {} {}", u, if tier == Tier::Quick { 2000 } else { 20000 }), "rep nt"));
    }
    cases
}

fn main() {
    harness_main(gen, run, Limits::default());
}
