//! C05 — a document written encrypted by the library (every strength × writer configuration ×
//! password pair × permission word × content) is read back by the library with the user
//! password, the owner password and a wrong password, and compared with the read-back of the
//! SAME document written unencrypted with the SAME configuration.
//!
//! request: `doc <strength> <cfg> <user-hex> <owner-hex> <perm> <title-hex> <author-hex> <text-hex>[,<text-hex>…] <annot k:hex,…|->`
//! answer : `E<0|1> I<0|1> enc<0|1> perm:<same|diff|-> user:<v> owner:<v> wrong:<w> # details`
//!          v = ok-same | ok-diff | refused | err ;  w = refused | accepted-same | accepted-diff | err
#[path = "c05_common/mod.rs"]
mod common;
use common::*;
use oxiharness::*;

fn pw(h: &str) -> Option<String> {
    String::from_utf8(unhex(h)?).ok()
}

pub fn parse_spec(f: &[&str]) -> Option<DocSpec> {
    let title = pw(f.get(0)?)?;
    let author = pw(f.get(1)?)?;
    let texts: Option<Vec<String>> = f.get(2)?.split(',').map(pw).collect();
    let annot = if *f.get(3)? == "-" {
        vec![]
    } else {
        f[3].split(',')
            .map(|kv| {
                let (k, v) = kv.split_once(':')?;
                Some((k.to_string(), pw(v)?))
            })
            .collect::<Option<Vec<_>>>()?
    };
    Some(DocSpec { title, author, texts: texts?, annot })
}

fn verdict(s: &Summary, plain: &Summary) -> String {
    match s.unlock.as_str() {
        "ok" => {
            if s.content() == plain.content() {
                "ok-same".into()
            } else {
                "ok-diff".into()
            }
        }
        "refused" => "refused".into(),
        _ => "err".into(),
    }
}

fn run_inner(req: &str) -> Option<String> {
    let f: Vec<&str> = req.split(' ').collect();
    if f[0] != "doc" {
        return None;
    }
    let strength = *f.get(1)?;
    let cfg = *f.get(2)?;
    let user = pw(f.get(3)?)?;
    let owner = pw(f.get(4)?)?;
    let perm: u32 = f.get(5)?.parse().ok()?;
    let spec = parse_spec(&f[6..])?;
    let plain_bytes = match write(&spec, cfg, None) {
        Ok(b) => b,
        Err(e) => return Some(format!("err:plain-{}", e)),
    };
    let enc_bytes = match write(&spec, cfg, Some((strength, &user, &owner, perm))) {
        Ok(b) => b,
        Err(e) => return Some(format!("err:enc-{}", e)),
    };
    let plain = read(&plain_bytes, None);
    let su = read(&enc_bytes, Some(&user));
    let so = read(&enc_bytes, Some(&owner));
    // a password that is neither: differs in the first byte and in length
    let wrong = format!("#{}{}#", user, owner);
    let sw = read(&enc_bytes, Some(&wrong));
    let w = match sw.unlock.as_str() {
        "refused" => "refused".to_string(),
        "ok" => {
            if sw.content() == plain.content() {
                "accepted-same".into()
            } else {
                "accepted-diff".into()
            }
        }
        _ => "err".into(),
    };
    let permv = if su.perms == "-" {
        "-".to_string()
    } else if su.perms == perm.to_string() {
        "same".into()
    } else {
        "diff".into()
    };
    // is the plaintext of the title visible in the encrypted file? (must not be)
    Some(format!(
        "E{} I{} enc{} perm:{} user:{} owner:{} wrong:{} # plain[{}] user[{}] size={}",
        trailer_has(&enc_bytes, "Encrypt") as u8,
        trailer_has(&enc_bytes, "ID") as u8,
        su.encrypted as u8,
        permv,
        verdict(&su, &plain),
        verdict(&so, &plain),
        w,
        plain.content(),
        su.content(),
        enc_bytes.len()
    ))
}

fn run(req: &str) -> String {
    run_inner(req).unwrap_or_else(|| "bad-request".into())
}

const NON_ASCII: &[&str] = &["é", "ñ", "ü", "€", "ж", "日本", "✓", "Å"];

fn rand_pw(rng: &mut Rng, class: u64) -> String {
    let target = match class {
        0 => 0,
        1 => rng.range(1, 12) as usize,
        2 => rng.range(1, 12) as usize, // non-ascii
        3 => rng.range(33, 60) as usize,
        4 => rng.range(100, 127) as usize,
        5 => rng.range(128, 160) as usize,
        _ => 32,
    };
    let mut s = String::new();
    while s.len() < target {
        if class == 2 && (s.is_empty() || rng.chance(1, 3)) {
            let t: &str = *rng.pick(NON_ASCII);
            s.push_str(t);
        } else {
            let c = match rng.below(14) {
                0 => '(',
                1 => ')',
                2 => '\\',
                3 => ' ',
                _ => (0x21 + rng.below(94) as u8) as char,
            };
            s.push(c);
        }
    }
    s
}

fn rand_text(rng: &mut Rng, max: usize) -> String {
    let n = rng.below(max as u64 + 1) as usize;
    let mut s = String::new();
    for _ in 0..n {
        let c = match rng.below(20) {
            0 => '(',
            1 => ')',
            2 => '\\',
            3 => ' ',
            4 => 'é',
            _ => (0x41 + rng.below(26) as u8) as char,
        };
        s.push(c);
    }
    s
}

fn hx(s: &str) -> String {
    hex(s.as_bytes())
}

fn gen(rng: &mut Rng, tier: Tier) -> Vec<Case> {
    let mut out = Vec::new();
    let strengths = ["rc4_40", "rc4_128", "aes_128", "aes_256"];
    // object streams without an xref stream leave compressed objects unreachable even
    // unencrypted (C03/C02) and cost 20 MB per file: only one such case, thorough tier
    // (a file with object streams has a 1 000 000-entry xref and costs ~20 s per case at
    // opt-level 0: one per quick run, a handful per thorough run)
    let cfgs: &[&str] = if tier == Tier::Thorough { &["--c", "---", "x-c", "x--"] } else { &["--c", "---", "x-c"] };
    let rounds = if tier == Tier::Thorough { 6 } else { 2 };
    for round in 0..rounds {
        for (si, st) in strengths.iter().enumerate() {
            for (ci, cfg) in cfgs.iter().enumerate() {
                // every password class appears with every strength within a run
                let uc = ((si + ci + round) % 6) as u64;
                let oc = ((si + 2 * ci + round + 1) % 6) as u64;
                let user = rand_pw(rng, uc);
                let mut owner = rand_pw(rng, oc);
                if owner == user {
                    owner.push('o');
                }
                let perm = match rng.below(4) {
                    0 => 0xFFFFF0C0u32,
                    1 => 0xFFFFFFFC,
                    _ => 0xFFFFF0C0 | ((rng.next() as u32) & 0x0F3C),
                };
                let npages = 1 + rng.below(3) as usize;
                let texts: Vec<String> = (0..npages).map(|_| hx(&rand_text(rng, 40))).collect();
                let annot = match rng.below(4) {
                    0 => "-".to_string(),
                    1 => format!("Contents:{}", hx(&rand_text(rng, 20))),
                    _ => format!("Contents:{},T:{}", hx(&rand_text(rng, 20)), hx(&rand_text(rng, 10))),
                };
                out.push(Case::new(
                    format!(
                        "doc {} {} {} {} {} {} {} {} {}",
                        st,
                        cfg,
                        hx(&user),
                        hx(&owner),
                        perm,
                        hx(&rand_text(rng, 30)),
                        hx(&rand_text(rng, 10)),
                        texts.join(","),
                        annot
                    ),
                    format!("{} cfg{} upw-class{} opw-class{} pages{} nt", st, cfg, uc, oc, npages),
                ));
            }
        }
    }
    // strings under dictionary keys the writer's encryptor skips (ObjectEncryptor::
    // should_skip_dictionary_key) but the reader decrypts
    for (i, key) in ["ID", "O", "U"].iter().enumerate() {
        let st = strengths[i % 4];
        out.push(Case::new(
            format!("doc {} --c {} {} 4294967292 {} {} {} Contents:{},{}:{}", st, hx("u"), hx("o"), hx("T"), hx("A"), hx("x"), hx("note"), key, hx("clear")),
            format!("{} cfg--c skipkey-{} nt", st, key),
        ));
    }
    let pick = rng.below(4) as usize;
    for (i, st) in strengths.iter().enumerate() {
        if tier == Tier::Thorough || i == pick {
            out.push(Case::new(
                format!("doc {} xoc {} {} 4294967292 {} {} {} Contents:{}", st, hx(&rand_pw(rng, 1)), hx("own"), hx("T"), hx("A"), hx("x"), hx("n")),
                format!("{} cfgxoc nt", st),
            ));
        }
    }
    // not generated: `xo-` (xref + object streams, compression off) — the PLAINTEXT build of that
    // configuration is itself unreadable (the xref stream declares /FlateDecode over raw data and
    // every object is compressed; C03), so there is no baseline to compare with.
    out
}

fn main() {
    harness_main(gen, run, Limits { per_case: std::time::Duration::from_secs(120), ..Limits::default() });
}
