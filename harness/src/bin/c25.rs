//! C25 — drives the real single-byte encoders/decoders.
//!
//!   text/encoding.rs   `TextEncoding::{encode_strict, encode, decode}` (public) — with one-char /
//!                      one-byte inputs these are exactly `winansi_encode_char`,
//!                      `macroman_encode_char` and the inline `match` tables;
//!                      `winansi_decode_char` is `pub(crate)`: reached through
//!                      `PdfString::to_text` of a one-byte string (no BOM possible).
//!   parser/encoding.rs `decode_text_with_encoding` (= `EnhancedDecoder::decode_with_encoding`,
//!                      lenient).
//!
//! Requests (E ∈ W M S P; K ∈ L W M P; numbers hex):
//!   encs E lo hi | enc E lo hi     strict / lossy encoding of every scalar value in lo..=hi
//!   dec E lo hi | wdc lo hi | ed K lo hi    decoding of every byte in lo..=hi
//!   sencs E cps | senc E cps | sdec E bytes   string level (cps = code points joined by `.`)
//! Range answers are run-length coded `lo-hi:tok`; tok: `n` none, `i` the value itself, `u` its
//! UTF-8 bytes, `s` surrogate (not a char), `=hex` anything else.
use oxiharness::*;
use oxidize_pdf::parser::encoding::{decode_text_with_encoding, EncodingType};
use oxidize_pdf::parser::objects::PdfString;
use oxidize_pdf::text::TextEncoding;

fn enc_of(s: &str) -> Option<TextEncoding> {
    Some(match s {
        "W" => TextEncoding::WinAnsiEncoding,
        "M" => TextEncoding::MacRomanEncoding,
        "S" => TextEncoding::StandardEncoding,
        "P" => TextEncoding::PdfDocEncoding,
        _ => return None,
    })
}

fn ed_of(s: &str) -> Option<EncodingType> {
    Some(match s {
        "L" => EncodingType::Latin1,
        "W" => EncodingType::Windows1252,
        "M" => EncodingType::MacRoman,
        "P" => EncodingType::PdfDocEncoding,
        _ => return None,
    })
}

fn hx(bs: &[u8]) -> String {
    bs.iter().map(|b| format!("{:02x}", b)).collect()
}

/// token of a byte-string result for the scalar value `x`
fn tok_bytes(x: u32, bs: &[u8]) -> String {
    if bs.len() == 1 && bs[0] as u32 == x {
        return "i".into();
    }
    if let Some(c) = char::from_u32(x) {
        let mut buf = [0u8; 4];
        if c.encode_utf8(&mut buf).as_bytes() == bs {
            return "u".into();
        }
    }
    format!("={}", hx(bs))
}

/// token of a code-point result for the byte `x`
fn tok_cp(x: u32, s: &str) -> String {
    let cs: Vec<char> = s.chars().collect();
    if cs.len() == 1 {
        if cs[0] as u32 == x {
            "i".into()
        } else {
            format!("={:x}", cs[0] as u32)
        }
    } else if cs.is_empty() {
        "n".into()
    } else {
        format!("=[{}]", cs.iter().map(|c| format!("{:x}", *c as u32)).collect::<Vec<_>>().join("."))
    }
}

fn tok_encs(e: TextEncoding, x: u32) -> String {
    match char::from_u32(x) {
        None => "s".into(),
        Some(c) => match e.encode_strict(&c.to_string()) {
            Ok(bs) => tok_bytes(x, &bs),
            Err(_) => "n".into(),
        },
    }
}

fn tok_enc(e: TextEncoding, x: u32) -> String {
    match char::from_u32(x) {
        None => "s".into(),
        Some(c) => tok_bytes(x, &e.encode(&c.to_string())),
    }
}

fn tok_dec(e: TextEncoding, x: u32) -> String {
    tok_cp(x, &e.decode(&[x as u8]))
}

fn tok_wdc(x: u32) -> String {
    tok_cp(x, &PdfString::new(vec![x as u8]).to_text())
}

fn tok_ed(k: EncodingType, x: u32) -> String {
    match decode_text_with_encoding(&[x as u8], k) {
        Ok(s) => tok_cp(x, &s),
        Err(_) => "n".into(),
    }
}

fn rle(lo: u32, hi: u32, f: &dyn Fn(u32) -> String) -> String {
    let mut out = String::new();
    let mut start = lo;
    let mut cur: Option<String> = None;
    let mut flush = |out: &mut String, a: u32, b: u32, t: &str| {
        if !out.is_empty() {
            out.push(',');
        }
        if a == b {
            out.push_str(&format!("{:x}:{}", a, t));
        } else {
            out.push_str(&format!("{:x}-{:x}:{}", a, b, t));
        }
    };
    let mut x = lo;
    loop {
        let t = f(x);
        match &cur {
            Some(c) if *c == t => {}
            Some(c) => {
                flush(&mut out, start, x - 1, c);
                start = x;
                cur = Some(t);
            }
            None => cur = Some(t),
        }
        if x == hi {
            break;
        }
        x += 1;
    }
    if let Some(c) = &cur {
        flush(&mut out, start, hi, c);
    }
    out
}

fn parse_cps(s: &str) -> Option<Vec<u32>> {
    if s == "-" {
        return Some(vec![]);
    }
    s.split('.').map(|t| u32::from_str_radix(t, 16).ok()).collect()
}

fn join_cps(s: &str) -> String {
    if s.is_empty() {
        "-".into()
    } else {
        s.chars().map(|c| format!("{:x}", c as u32)).collect::<Vec<_>>().join(".")
    }
}

fn join_toks(t: Vec<String>) -> String {
    if t.is_empty() {
        "-".into()
    } else {
        t.join(",")
    }
}

fn run(req: &str) -> String {
    let p: Vec<&str> = req.split(' ').collect();
    let h = |s: &str| u32::from_str_radix(s, 16).ok();
    match p.as_slice() {
        [op @ ("encs" | "enc" | "dec"), e, lo, hi] => {
            let (Some(e), Some(lo), Some(hi)) = (enc_of(e), h(lo), h(hi)) else { return "bad-request".into() };
            if lo > hi || hi > 0x10FFFF || (*op == "dec" && hi > 0xFF) {
                return "bad-request".into();
            }
            match *op {
                "encs" => rle(lo, hi, &|x| tok_encs(e, x)),
                "enc" => rle(lo, hi, &|x| tok_enc(e, x)),
                _ => rle(lo, hi, &|x| tok_dec(e, x)),
            }
        }
        ["wdc", lo, hi] => {
            let (Some(lo), Some(hi)) = (h(lo), h(hi)) else { return "bad-request".into() };
            if lo > hi || hi > 0xFF {
                return "bad-request".into();
            }
            rle(lo, hi, &tok_wdc)
        }
        ["ed", k, lo, hi] => {
            let (Some(k), Some(lo), Some(hi)) = (ed_of(k), h(lo), h(hi)) else { return "bad-request".into() };
            if lo > hi || hi > 0xFF {
                return "bad-request".into();
            }
            rle(lo, hi, &|x| tok_ed(k, x))
        }
        [op @ ("sencs" | "senc"), e, cps] => {
            let (Some(e), Some(cps)) = (enc_of(e), parse_cps(cps)) else { return "bad-request".into() };
            let Some(chars) = cps.iter().map(|c| char::from_u32(*c)).collect::<Option<Vec<char>>>() else {
                return "bad-request".into();
            };
            let s: String = chars.iter().collect();
            if *op == "sencs" {
                let toks = join_toks(cps.iter().map(|c| tok_encs(e, *c)).collect());
                match e.encode_strict(&s) {
                    Ok(bs) => format!("ok:{};{}", hex(&bs), toks),
                    Err(c) => format!("err:{:x};{}", c as u32, toks),
                }
            } else {
                let toks = join_toks(cps.iter().map(|c| tok_enc(e, *c)).collect());
                format!("{};{}", hex(&e.encode(&s)), toks)
            }
        }
        ["sdec", e, bytes] => {
            let (Some(e), Some(bs)) = (enc_of(e), unhex(bytes)) else { return "bad-request".into() };
            let toks = join_toks(bs.iter().map(|b| tok_dec(e, *b as u32)).collect());
            format!("{};{}", join_cps(&e.decode(&bs)), toks)
        }
        _ => "bad-request".into(),
    }
}

// ---------------------------------------------------------------------------------------------

/// characters that matter: table entries of all four encodings, their neighbours, boundaries
const INTERESTING: &[u32] = &[
    0x00, 0x09, 0x0A, 0x0D, 0x18, 0x1F, 0x20, 0x27, 0x3F, 0x41, 0x60, 0x7E, 0x7F, 0x80, 0x81, 0x8D, 0x8F, 0x90,
    0x9D, 0x9F, 0xA0, 0xA1, 0xA4, 0xAD, 0xB0, 0xB1, 0xC4, 0xD8, 0xE9, 0xF1, 0xFF, 0x100, 0x131, 0x141, 0x152,
    0x153, 0x160, 0x161, 0x178, 0x17D, 0x17E, 0x192, 0x2C6, 0x2C7, 0x2D8, 0x2DC, 0x2DD, 0x3A9, 0x3C0, 0x2013,
    0x2014, 0x2018, 0x2019, 0x201A, 0x201C, 0x201D, 0x201E, 0x2020, 0x2021, 0x2022, 0x2026, 0x2030, 0x2039,
    0x203A, 0x2044, 0x20AC, 0x2122, 0x2202, 0x2206, 0x220F, 0x2211, 0x2212, 0x221A, 0x221E, 0x222B, 0x2248,
    0x2260, 0x2264, 0x2265, 0x25CA, 0xD7FF, 0xE000, 0xF8FF, 0xFB01, 0xFB02, 0xFFFD, 0xFFFF, 0x10000, 0x1F600,
    0x10FFFF,
];

fn rand_cp(rng: &mut Rng, class: u64) -> u32 {
    loop {
        let c = match class {
            0 => rng.range(0x20, 0x7E) as u32,
            1 => rng.range(0x00, 0xFF) as u32,
            2 => *rng.pick(INTERESTING),
            3 => rng.range(0x100, 0xFFFF) as u32,
            _ => rng.range(0x10000, 0x10FFFF) as u32,
        };
        if char::from_u32(c).is_some() {
            return c;
        }
    }
}

fn cps_str(cps: &[u32]) -> String {
    if cps.is_empty() {
        "-".into()
    } else {
        cps.iter().map(|c| format!("{:x}", c)).collect::<Vec<_>>().join(".")
    }
}

fn gen(rng: &mut Rng, tier: Tier) -> Vec<Case> {
    let mut v = Vec::new();
    // ---- exhaustive part: every byte, every scalar value, every encoding, every entry point
    for e in ["W", "M", "S", "P"] {
        v.push(Case::new(format!("dec {} 0 7f", e), "dec exhaustive nt"));
        v.push(Case::new(format!("dec {} 80 ff", e), "dec exhaustive nt"));
        for op in ["encs", "enc"] {
            v.push(Case::new(format!("{} {} 0 7f", op, e), format!("{} exhaustive nt", op)));
            v.push(Case::new(format!("{} {} 80 ff", op, e), format!("{} exhaustive nt", op)));
            v.push(Case::new(format!("{} {} 100 ffff", op, e), format!("{} exhaustive nt", op)));
            v.push(Case::new(format!("{} {} 10000 10ffff", op, e), format!("{} exhaustive astral", op)));
        }
    }
    v.push(Case::new("wdc 0 ff", "wdc exhaustive nt"));
    for k in ["L", "W", "M", "P"] {
        v.push(Case::new(format!("ed {} 0 ff", k), "ed exhaustive nt"));
    }
    // ---- string level: loop logic (order, first error, lengths), UTF-8 paths
    let n = if tier == Tier::Thorough { 6000 } else { 600 };
    for i in 0..n {
        let e = *rng.pick(&["W", "M", "S", "P"]);
        let len = if rng.chance(1, 10) { 0 } else { rng.range(1, 12) as usize };
        match i % 3 {
            0 | 1 => {
                // mostly encodable text with now and then one outsider at a random position
                let mut cps: Vec<u32> = (0..len).map(|_| { let c = rng.below(3); rand_cp(rng, c) }).collect();
                let outsiders = rng.below(3);
                for _ in 0..outsiders {
                    if !cps.is_empty() {
                        let at = rng.below(cps.len() as u64) as usize;
                        let c = 2 + rng.below(3);
                        cps[at] = rand_cp(rng, c);
                    }
                }
                let op = if i % 3 == 0 { "sencs" } else { "senc" };
                let nt = if cps.iter().any(|c| *c > 0x7F) { " nt" } else { "" };
                v.push(Case::new(format!("{} {} {}", op, e, cps_str(&cps)), format!("{} str{}", op, nt)));
            }
            _ => {
                // bytes: raw random, or the UTF-8 of random text with a damaged byte (lossy paths)
                let bs: Vec<u8> = if rng.chance(1, 2) {
                    rng.bytes(len)
                } else {
                    let s: String = (0..len).map(|_| { let c = rng.below(5); char::from_u32(rand_cp(rng, c)).unwrap() }).collect();
                    let mut b = s.into_bytes();
                    if !b.is_empty() && rng.chance(1, 2) {
                        let at = rng.below(b.len() as u64) as usize;
                        match rng.below(3) {
                            0 => b[at] = rng.next() as u8,
                            1 => { b.remove(at); }
                            _ => b.truncate(at),
                        }
                    }
                    b
                };
                let nt = if bs.iter().any(|b| *b > 0x7F) { " nt" } else { "" };
                v.push(Case::new(format!("sdec {} {}", e, hex(&bs)), format!("sdec str{}", nt)));
            }
        }
    }
    v
}

fn main() {
    harness_main(gen, run, Limits { per_case: std::time::Duration::from_secs(120), ..Limits::default() });
}
