//! C10 — text given through the API reads back unchanged.
//!
//! Request: `txt <site> <cps>`   site ∈ title author subject keywords creator producer outline annot
//!          cps = code points (hex) joined by `.`, `-` = empty string
//! The text is handed to the public API, the document is written with the real writer
//! (`Document::to_bytes_with_config`, streams uncompressed so that dictionaries are plain), then
//!   raw = the bytes between the parentheses of the emitted literal string, cut from the file
//!   lib = what the library reads back: Info fields through `PdfReader::metadata()`; outline
//!         `/Title` and annotation `/Contents` through the real `Lexer` on the file bytes followed by
//!         `PdfString::to_text` (= `decode_text_string`)
//! Answer: `raw=<hex>;lib=<cps>`.
use oxiharness::*;
use oxidize_pdf::annotations::{Annotation, AnnotationType};
use oxidize_pdf::geometry::{Point, Rectangle};
use oxidize_pdf::parser::lexer::{Lexer, Token};
use oxidize_pdf::parser::objects::PdfString;
use oxidize_pdf::parser::PdfReader;
use oxidize_pdf::structure::{OutlineItem, OutlineTree};
use oxidize_pdf::writer::WriterConfig;
use oxidize_pdf::{Document, Page};
use std::io::Cursor;

fn cps_of(s: &str) -> String {
    if s.is_empty() {
        "-".into()
    } else {
        s.chars().map(|c| format!("{:x}", c as u32)).collect::<Vec<_>>().join(".")
    }
}

fn find(hay: &[u8], needle: &[u8], from: usize) -> Option<usize> {
    hay[from..].windows(needle.len()).position(|w| w == needle).map(|p| p + from)
}

/// the literal string that follows `key` (e.g. `/Title`): (offset of `(`, raw bytes between the
/// outer parentheses)
fn cut_literal(file: &[u8], key: &[u8]) -> Option<(usize, Vec<u8>)> {
    let mut from = 0;
    loop {
        let k = find(file, key, from)?;
        let mut i = k + key.len();
        while i < file.len() && (file[i] == b' ' || file[i] == b'\n' || file[i] == b'\r') {
            i += 1;
        }
        if i < file.len() && file[i] == b'(' {
            let start = i + 1;
            let mut depth = 1;
            let mut j = start;
            while j < file.len() {
                match file[j] {
                    b'\\' => j += 1,
                    b'(' => depth += 1,
                    b')' => {
                        depth -= 1;
                        if depth == 0 {
                            return Some((i, file[start..j].to_vec()));
                        }
                    }
                    _ => {}
                }
                j += 1;
            }
            return None;
        }
        from = k + key.len();
    }
}

fn run(req: &str) -> String {
    let p: Vec<&str> = req.split(' ').collect();
    let ["txt", site, cps] = p.as_slice() else { return "bad-request".into() };
    let text: Option<String> = if *cps == "-" {
        Some(String::new())
    } else {
        cps.split('.').map(|t| u32::from_str_radix(t, 16).ok().and_then(char::from_u32)).collect()
    };
    let Some(text) = text else { return "bad-request".into() };
    let mut doc = Document::new();
    let mut page = Page::a4();
    let mut key: &[u8] = b"/Title";
    match *site {
        "title" => doc.set_title(text.clone()),
        "author" => {
            doc.set_author(text.clone());
            key = b"/Author";
        }
        "subject" => {
            doc.set_subject(text.clone());
            key = b"/Subject";
        }
        "keywords" => {
            doc.set_keywords(text.clone());
            key = b"/Keywords";
        }
        "creator" => {
            doc.set_creator(text.clone());
            key = b"/Creator";
        }
        "producer" => {
            doc.set_producer(text.clone());
            key = b"/Producer";
        }
        "outline" => {
            let mut tree = OutlineTree::new();
            tree.add_item(OutlineItem::new(text.clone()));
            doc.set_outline(tree);
        }
        "annot" => {
            let a = Annotation::new(
                AnnotationType::Text,
                Rectangle::new(Point::new(10.0, 10.0), Point::new(40.0, 40.0)),
            )
            .with_contents(text.clone());
            page.add_annotation(a);
            key = b"/Contents";
        }
        _ => return "bad-request".into(),
    }
    doc.add_page(page);
    let cfg = WriterConfig {
        use_xref_streams: false,
        use_object_streams: false,
        compress_streams: false,
        ..WriterConfig::default()
    };
    let bytes = match doc.to_bytes_with_config(cfg) {
        Ok(b) => b,
        Err(e) => return format!("err:write:{}", e).chars().take(80).collect(),
    };
    let Some((at, raw)) = cut_literal(&bytes, key) else { return "err:literal-not-found".into() };
    let lib = match *site {
        "outline" | "annot" => {
            let mut lx = Lexer::new(Cursor::new(bytes[at..].to_vec()));
            match lx.next_token() {
                Ok(Token::String(b)) => PdfString::new(b).to_text(),
                _ => return "err:lexer".into(),
            }
        }
        _ => {
            let mut r = match PdfReader::new(Cursor::new(bytes.clone())) {
                Ok(r) => r,
                Err(_) => return format!("raw={};err:reader", hex(&raw)),
            };
            let m = match r.metadata() {
                Ok(m) => m,
                Err(_) => return format!("raw={};err:metadata", hex(&raw)),
            };
            let v = match *site {
                "title" => m.title,
                "author" => m.author,
                "subject" => m.subject,
                "keywords" => m.keywords,
                "creator" => m.creator,
                _ => m.producer,
            };
            match v {
                Some(s) => s,
                None => return format!("raw={};lib=none", hex(&raw)),
            }
        }
    };
    format!("raw={};lib={}", hex(&raw), cps_of(&lib))
}

const SITES: &[&str] = &["title", "author", "subject", "keywords", "creator", "producer", "outline", "annot"];

fn rand_char(rng: &mut Rng, class: u64) -> u32 {
    loop {
        let c = match class {
            0 => rng.range(0x20, 0x7E) as u32,                                   // printable ASCII
            1 => *rng.pick(&[0x28u32, 0x29, 0x5C, 0x2F, 0x3C, 0x3E, 0x5B, 0x5D, 0x25, 0x23]), // delimiters
            2 => *rng.pick(&[0x0Au32, 0x0D, 0x09, 0x08, 0x0C, 0x00, 0x01, 0x18, 0x1F, 0x7F]), // controls
            3 => rng.range(0xA0, 0xFF) as u32,                                   // Latin-1
            4 => *rng.pick(&[0x80u32, 0x9F, 0xFE, 0xFF, 0x152, 0x2022, 0x20AC, 0x2713, 0xFEFF, 0xFFFD, 0xD7FF, 0xE000]),
            5 => rng.range(0x100, 0xFFFF) as u32,                                // BMP
            _ => rng.range(0x10000, 0x10FFFF) as u32,                            // astral
        };
        if char::from_u32(c).is_some() {
            return c;
        }
    }
}

fn gen(rng: &mut Rng, tier: Tier) -> Vec<Case> {
    let mut v = Vec::new();
    let names = ["ascii", "delims", "controls", "latin1", "special", "bmp", "astral"];
    // every class x every site, single characters and short strings
    for site in SITES {
        for class in 0..7u64 {
            for len in [1usize, 4] {
                let cps: Vec<String> = (0..len).map(|_| format!("{:x}", rand_char(rng, class))).collect();
                v.push(Case::new(format!("txt {} {}", site, cps.join(".")), format!("{} {} nt", site, names[class as usize])));
            }
        }
        v.push(Case::new(format!("txt {} -", site), format!("{} empty", site)));
        v.push(Case::new(format!("txt {} 41.d.a.42", site), format!("{} crlf nt", site)));
    }
    let n = if tier == Tier::Thorough { 1500 } else { 150 };
    for _ in 0..n {
        let site = *rng.pick(SITES);
        let len = rng.range(1, 10) as usize;
        let ascii_only = rng.chance(1, 3);
        let mut classes = std::collections::BTreeSet::new();
        let cps: Vec<String> = (0..len)
            .map(|_| {
                let class = if ascii_only { rng.below(2) } else { rng.below(7) };
                classes.insert(names[class as usize]);
                format!("{:x}", rand_char(rng, class))
            })
            .collect();
        v.push(Case::new(
            format!("txt {} {}", site, cps.join(".")),
            format!("{} mixed {} nt", site, classes.into_iter().collect::<Vec<_>>().join(" ")),
        ));
    }
    v
}

fn main() {
    harness_main(gen, run, Limits::default());
}
