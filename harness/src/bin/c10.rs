//! C10 — text given through the API reads back unchanged.
//!
//! Request: `txt <site> <cps>`   cps = code points (hex) joined by `.`, `-` = empty string
//!   whole write (`Object::String`):  title author subject keywords creator producer  (Info, `Document::set_*`)
//!                                    outline (`OutlineItem::new`)   annot (`Annotation::with_contents`)
//!                                    field (`TextField::with_value` → /V)   fielddv (`with_default_value` → /DV)
//!                                    fillw (`Document::fill_field` before the write → /V)
//!   incremental:                     ifill (`IncrementalFormFiller::fill` on a written base → /V)
//!                                    note / noteupd (`IncrementalTextNoteEditor` Add / Update → /Contents)
//! The text goes through the public API and the real writer (classic xref, streams uncompressed so
//! that an independent reader can walk the file), then
//!   tok  = the string token as it stands in the file (cut after the key, last occurrence)
//!   lib  = what the library reads back through its document reader: `PdfReader::metadata()` for Info,
//!          `IncrementalTextNoteEditor::notes()` for notes, otherwise `PdfReader` navigation to the
//!          object + `PdfString::to_text`
//!   file = the whole file (for the independent reader on the Lean side)
//! Answer: `tok=<hex>;lib=<cps>;file=<hex>`  or  `err:<class>` when the API refuses the text.
use oxiharness::*;
use oxidize_pdf::annotations::{Annotation, AnnotationType};
use oxidize_pdf::forms::{FormManager, TextField, Widget, WidgetAppearance};
use oxidize_pdf::geometry::{Point, Rectangle};
use oxidize_pdf::parser::objects::{PdfDictionary, PdfObject};
use oxidize_pdf::parser::PdfReader;
use oxidize_pdf::structure::{OutlineItem, OutlineTree};
use oxidize_pdf::writer::{IncrementalFormFiller, IncrementalTextNoteEditor, TextNoteMutation, WriterConfig};
use oxidize_pdf::{Document, Page};
use std::io::Cursor;

fn cps_of(s: &str) -> String {
    if s.is_empty() {
        "-".into()
    } else {
        s.chars().map(|c| format!("{:x}", c as u32)).collect::<Vec<_>>().join(".")
    }
}

/// the string token (literal or hexadecimal) that follows the LAST occurrence of `key` which is
/// followed by a string
fn cut_token(file: &[u8], key: &[u8]) -> Option<Vec<u8>> {
    let mut k = file.len().checked_sub(key.len())?;
    loop {
        if &file[k..k + key.len()] == key {
            let mut i = k + key.len();
            while i < file.len() && (file[i] == b' ' || file[i] == b'\n' || file[i] == b'\r') {
                i += 1;
            }
            if i < file.len() && file[i] == b'(' {
                let mut depth = 1;
                let mut j = i + 1;
                while j < file.len() {
                    match file[j] {
                        b'\\' => j += 1,
                        b'(' => depth += 1,
                        b')' => {
                            depth -= 1;
                            if depth == 0 {
                                return Some(file[i..=j].to_vec());
                            }
                        }
                        _ => {}
                    }
                    j += 1;
                }
                return None;
            }
            if i + 1 < file.len() && file[i] == b'<' && file[i + 1] != b'<' {
                let j = file[i..].iter().position(|&b| b == b'>')? + i;
                return Some(file[i..=j].to_vec());
            }
        }
        if k == 0 {
            return None;
        }
        k -= 1;
    }
}

type R<'a> = PdfReader<Cursor<&'a [u8]>>;

fn deref(r: &mut R, o: &PdfObject) -> Option<PdfObject> {
    match o {
        PdfObject::Reference(n, g) => r.get_object(*n, *g).ok().cloned(),
        other => Some(other.clone()),
    }
}
fn get(r: &mut R, d: &PdfDictionary, key: &str) -> Option<PdfObject> {
    let o = d.get(key)?.clone();
    deref(r, &o)
}
fn get_dict(r: &mut R, d: &PdfDictionary, key: &str) -> Option<PdfDictionary> {
    get(r, d, key)?.as_dict().cloned()
}
fn text_of(o: Option<PdfObject>) -> Option<String> {
    o?.as_string().map(|s| s.to_text())
}

/// the library's own reading of the value at the site, through its document reader
fn lib_read(site: &str, bytes: &[u8]) -> Result<Option<String>, String> {
    let mut r = PdfReader::new(Cursor::new(bytes)).map_err(|_| "err:reader".to_string())?;
    match site {
        "title" | "author" | "subject" | "keywords" | "creator" | "producer" => {
            let m = r.metadata().map_err(|_| "err:metadata".to_string())?;
            Ok(match site {
                "title" => m.title,
                "author" => m.author,
                "subject" => m.subject,
                "keywords" => m.keywords,
                "creator" => m.creator,
                _ => m.producer,
            })
        }
        "note" | "noteupd" => {
            let notes = IncrementalTextNoteEditor::new(bytes).notes().map_err(|_| "err:notes".to_string())?;
            Ok(notes.last().map(|n| n.contents.clone()))
        }
        _ => {
            let cat = r.catalog().map_err(|_| "err:catalog".to_string())?.clone();
            match site {
                "outline" => {
                    let o = get_dict(&mut r, &cat, "Outlines").ok_or("err:no-outlines")?;
                    let first = get_dict(&mut r, &o, "First").ok_or("err:no-first")?;
                    Ok(text_of(get(&mut r, &first, "Title")))
                }
                "annot" => {
                    let pages = r.pages().map_err(|_| "err:pages".to_string())?.clone();
                    let kids = get(&mut r, &pages, "Kids").ok_or("err:no-kids")?;
                    let k0 = kids.as_array().and_then(|a| a.0.first().cloned()).ok_or("err:no-page")?;
                    let page = deref(&mut r, &k0).and_then(|o| o.as_dict().cloned()).ok_or("err:no-page")?;
                    let annots = get(&mut r, &page, "Annots").ok_or("err:no-annots")?;
                    let arr = annots.as_array().cloned().ok_or("err:no-annots")?;
                    for a in arr.0.iter() {
                        if let Some(d) = deref(&mut r, a).and_then(|o| o.as_dict().cloned()) {
                            if d.get("Subtype").and_then(|o| o.as_name()).map(|n| n.0 == "Text").unwrap_or(false) {
                                return Ok(text_of(get(&mut r, &d, "Contents")));
                            }
                        }
                    }
                    Ok(None)
                }
                _ => {
                    let af = get_dict(&mut r, &cat, "AcroForm").ok_or("err:no-acroform")?;
                    let fields = get(&mut r, &af, "Fields").ok_or("err:no-fields")?;
                    let f0 = fields.as_array().and_then(|a| a.0.first().cloned()).ok_or("err:no-field")?;
                    let fd = deref(&mut r, &f0).and_then(|o| o.as_dict().cloned()).ok_or("err:no-field")?;
                    Ok(text_of(get(&mut r, &fd, if site == "fielddv" { "DV" } else { "V" })))
                }
            }
        }
    }
}

fn err_cls(e: &oxidize_pdf::PdfError) -> &'static str {
    use oxidize_pdf::PdfError as E;
    match e {
        E::FieldNotFound(_) => "field-not-found",
        E::EncodingError(_) => "encoding",
        E::InvalidStructure(_) => "structure",
        _ => "other",
    }
}

fn cfg() -> WriterConfig {
    WriterConfig { use_xref_streams: false, use_object_streams: false, compress_streams: false, ..WriterConfig::default() }
}

fn form_doc(field: TextField) -> Result<Document, String> {
    let mut doc = Document::new();
    let mut page = Page::a4();
    let mut fm = FormManager::new();
    let rect = Rectangle::new(Point::new(100.0, 700.0), Point::new(300.0, 720.0));
    let widget = Widget::new(rect).with_appearance(WidgetAppearance::default());
    let field_ref = fm.add_text_field(field, widget.clone(), None).map_err(|e| format!("err:{}", err_cls(&e)))?;
    page.add_form_widget_with_ref(widget, field_ref).map_err(|e| format!("err:{}", err_cls(&e)))?;
    doc.add_page(page);
    doc.set_form_manager(fm);
    Ok(doc)
}

fn plain_base() -> Result<Vec<u8>, String> {
    let mut doc = Document::new();
    doc.add_page(Page::a4());
    doc.to_bytes_with_config(cfg()).map_err(|e| format!("err:{}", err_cls(&e)))
}

fn produce(site: &str, text: &str) -> Result<(Vec<u8>, &'static [u8]), String> {
    let w = |mut d: Document| d.to_bytes_with_config(cfg()).map_err(|e| format!("err:write-{}", err_cls(&e)));
    let mut doc = Document::new();
    let mut page = Page::a4();
    match site {
        "title" => {
            doc.set_title(text);
            doc.add_page(page);
            Ok((w(doc)?, b"/Title"))
        }
        "author" => {
            doc.set_author(text);
            doc.add_page(page);
            Ok((w(doc)?, b"/Author"))
        }
        "subject" => {
            doc.set_subject(text);
            doc.add_page(page);
            Ok((w(doc)?, b"/Subject"))
        }
        "keywords" => {
            doc.set_keywords(text);
            doc.add_page(page);
            Ok((w(doc)?, b"/Keywords"))
        }
        "creator" => {
            doc.set_creator(text);
            doc.add_page(page);
            Ok((w(doc)?, b"/Creator"))
        }
        "producer" => {
            doc.set_producer(text);
            doc.add_page(page);
            Ok((w(doc)?, b"/Producer"))
        }
        "outline" => {
            let mut tree = OutlineTree::new();
            tree.add_item(OutlineItem::new(text));
            doc.set_outline(tree);
            doc.add_page(page);
            Ok((w(doc)?, b"/Title"))
        }
        "annot" => {
            let a = Annotation::new(AnnotationType::Text, Rectangle::new(Point::new(10.0, 10.0), Point::new(40.0, 40.0)))
                .with_contents(text);
            page.add_annotation(a);
            doc.add_page(page);
            Ok((w(doc)?, b"/Contents"))
        }
        "field" => Ok((w(form_doc(TextField::new("f").with_value(text))?)?, b"/V")),
        "fielddv" => Ok((w(form_doc(TextField::new("f").with_default_value(text))?)?, b"/DV")),
        "fillw" => {
            let mut d = form_doc(TextField::new("f"))?;
            d.fill_field("f", text).map_err(|e| format!("err:{}", err_cls(&e)))?;
            Ok((w(d)?, b"/V"))
        }
        "ifill" => {
            let base = w(form_doc(TextField::new("f"))?)?;
            let out = IncrementalFormFiller::new(&base).fill("f", text).map_err(|e| format!("err:{}", err_cls(&e)))?;
            Ok((out, b"/V"))
        }
        "note" => {
            let base = plain_base()?;
            let u = IncrementalTextNoteEditor::new(&base)
                .apply(&[TextNoteMutation::Add { page_index: 0, position: Point::new(50.0, 50.0), contents: text.to_string() }])
                .map_err(|e| format!("err:{}", err_cls(&e)))?;
            Ok((u.pdf_bytes, b"/Contents"))
        }
        "noteupd" => {
            let base = plain_base()?;
            let u = IncrementalTextNoteEditor::new(&base)
                .apply(&[TextNoteMutation::Add { page_index: 0, position: Point::new(50.0, 50.0), contents: "seed".to_string() }])
                .map_err(|e| format!("err:seed-{}", err_cls(&e)))?;
            let id = u.added_notes.first().map(|n| n.id).ok_or("err:seed-no-id")?;
            let u2 = IncrementalTextNoteEditor::new(&u.pdf_bytes)
                .apply(&[TextNoteMutation::Update { id, position: Point::new(60.0, 60.0), contents: text.to_string() }])
                .map_err(|e| format!("err:{}", err_cls(&e)))?;
            Ok((u2.pdf_bytes, b"/Contents"))
        }
        _ => Err("bad-request".into()),
    }
}

fn run(req: &str) -> String {
    let p: Vec<&str> = req.split(' ').collect();
    let ["txt", site, cps] = p.as_slice() else { return "bad-request".into() };
    let text: Option<String> = if *cps == "-" {
        Some(String::new())
    } else {
        cps.split('.').map(|t| u32::from_str_radix(t, 16).ok().and_then(char::from_u32)).collect()
    };
    let Some(text) = text else { return "bad-request".into() };
    let (bytes, key) = match produce(site, &text) {
        Ok(x) => x,
        Err(e) => return e,
    };
    let tok = match cut_token(&bytes, key) {
        Some(t) => hex(&t),
        None => "none".into(),
    };
    let lib = match lib_read(site, &bytes) {
        Ok(Some(s)) => cps_of(&s),
        Ok(None) => "none".into(),
        Err(e) => e,
    };
    format!("tok={};lib={};file={}", tok, lib, hex(&bytes))
}

const SITES: &[&str] = &[
    "title", "author", "subject", "keywords", "creator", "producer", "outline", "annot", "field", "fielddv", "fillw", "ifill",
    "note", "noteupd",
];

const NAMES: [&str; 8] = ["ascii", "delims", "controls", "latin1", "special", "bmp", "astral", "winansi-hi"];

fn rand_char(rng: &mut Rng, class: u64) -> u32 {
    loop {
        let c = match class {
            0 => rng.range(0x20, 0x7E) as u32,                                                    // printable ASCII
            1 => *rng.pick(&[0x28u32, 0x29, 0x5C, 0x2F, 0x3C, 0x3E, 0x5B, 0x5D, 0x25, 0x23, 0x7B, 0x7D]), // delimiters
            2 => *rng.pick(&[0x0Au32, 0x0D, 0x09, 0x08, 0x0C, 0x00, 0x01, 0x17, 0x18, 0x1F, 0x7F]),      // controls
            3 => rng.range(0xA0, 0xFF) as u32,                                                    // Latin-1
            4 => *rng.pick(&[0x80u32, 0x85, 0x9F, 0xA0, 0xAD, 0xFE, 0xFF, 0x152, 0x2022, 0x20AC, 0x2713, 0xFEFF, 0xFFFD, 0xFFFE,
                             0xFFFF, 0xD7FF, 0xE000, 0x0D41, 0x410D, 0x2028, 0x3000, 0x2329]),
            5 => rng.range(0x100, 0xFFFF) as u32,                                                 // BMP
            6 => *rng.pick(&[0x10000u32, 0x1F600, 0x10FFFF, 0x1D11E, 0x2000B, 0xFFFFF, 0x100000]), // astral boundaries
            _ => *rng.pick(&[0x20ACu32, 0x201A, 0x192, 0x201E, 0x2026, 0x2020, 0x2C6, 0x2030, 0x160, 0x152, 0x17D, 0x2018,
                             0x201D, 0x2022, 0x2014, 0x2DC, 0x2122, 0x161, 0x153, 0x17E, 0x178]),  // WinAnsi 80-9F repertoire
        };
        if char::from_u32(c).is_some() {
            return c;
        }
    }
}

/// hand-picked nasty texts (code points)
const NASTY: &[(&str, &[u32])] = &[
    ("bom-thorn-yuml", &[0xFE, 0xFF, 0x41]),
    ("bom-thorn-yuml-only", &[0xFE, 0xFF]),
    ("bom-feff-first", &[0xFEFF, 0x41]),
    ("bom-fffe-first", &[0xFFFE, 0x41]),
    ("utf8-bom-lookalike", &[0xEF, 0xBB, 0xBF, 0x41]),
    ("open-parens", &[0x28, 0x28, 0x28]),
    ("close-parens", &[0x29, 0x29, 0x41]),
    ("close-open", &[0x29, 0x28]),
    ("trailing-backslash", &[0x41, 0x5C]),
    ("backslash-paren", &[0x5C, 0x29, 0x5C, 0x28]),
    ("octal-lookalike", &[0x5C, 0x31, 0x30, 0x31]),
    ("escape-lookalike", &[0x5C, 0x6E, 0x5C, 0x72, 0x5C, 0x0A]),
    ("cr", &[0x41, 0x0D, 0x42]),
    ("crlf", &[0x41, 0x0D, 0x0A, 0x42]),
    ("lfcr", &[0x41, 0x0A, 0x0D, 0x42]),
    ("cr-end", &[0x41, 0x0D]),
    ("lf", &[0x41, 0x0A, 0x42]),
    ("nul", &[0x41, 0x00, 0x42]),
    ("nul-first", &[0x00]),
    ("accent-slots", &[0x18, 0x19, 0x1A, 0x1B, 0x1C, 0x1D, 0x1E, 0x1F]),
    ("del", &[0x7F]),
    ("astral", &[0x1F600]),
    ("astral-pair", &[0x10000, 0x10FFFF]),
    ("bmp-edge", &[0xD7FF, 0xE000, 0xFFFF]),
    ("cr-byte-in-utf16", &[0x0D41, 0x410D, 0x0A0D]),
    ("paren-byte-in-utf16", &[0x2829, 0x5C5C, 0x2928]),
    ("euro-bullet", &[0x20AC, 0x2022]),
    ("nbsp-shy", &[0xA0, 0xAD]),
    ("ano", &[0x41, 0xF1, 0x6F, 0x20, 0x2713]),
    ("hex-lookalike", &[0x3C, 0x46, 0x45, 0x46, 0x46, 0x3E]),
    ("space-only", &[0x20, 0x20]),
    ("unicode-space-only", &[0x3000, 0x2028, 0x85]),
    ("tab-nl-only", &[0x09, 0x0A]),
    ("space-around", &[0x20, 0x41, 0x20]),
];

fn fmt(cps: &[u32]) -> String {
    if cps.is_empty() {
        "-".into()
    } else {
        cps.iter().map(|c| format!("{:x}", c)).collect::<Vec<_>>().join(".")
    }
}

fn gen(rng: &mut Rng, tier: Tier) -> Vec<Case> {
    let mut v = Vec::new();
    let thorough = tier == Tier::Thorough;
    for site in SITES {
        v.push(Case::new(format!("txt {} -", site), format!("{} empty", site)));
        // every nasty text at every site (thorough); a rotating third of them per site (quick)
        for (i, (name, cps)) in NASTY.iter().enumerate() {
            if thorough || rng.chance(1, 3) || i < 3 {
                v.push(Case::new(format!("txt {} {}", site, fmt(cps)), format!("{} nasty {} nt", site, name)));
            }
        }
        // every class, single character and a short run
        for class in 0..8u64 {
            for len in [1usize, 4] {
                if !thorough && len == 4 && rng.chance(1, 2) {
                    continue;
                }
                let cps: Vec<u32> = (0..len).map(|_| rand_char(rng, class)).collect();
                v.push(Case::new(format!("txt {} {}", site, fmt(&cps)), format!("{} {} nt", site, NAMES[class as usize])));
            }
        }
    }
    // mixed strings
    let n = if thorough { 1500 } else { 160 };
    for _ in 0..n {
        let site = *rng.pick(SITES);
        let len = if rng.chance(1, 20) { rng.range(60, 300) as usize } else { rng.range(1, 12) as usize };
        let mode = rng.below(4); // 0 ascii+delims, 1 WinAnsi-encodable (fills accept), 2/3 anything
        let mut classes = std::collections::BTreeSet::new();
        let cps: Vec<u32> = (0..len)
            .map(|_| {
                let class = match mode {
                    0 => rng.below(3),
                    1 => *rng.pick(&[0u64, 1, 3, 7]),
                    _ => rng.below(8),
                };
                classes.insert(NAMES[class as usize]);
                rand_char(rng, class)
            })
            .collect();
        v.push(Case::new(
            format!("txt {} {}", site, fmt(&cps)),
            format!("{} mixed{} {} nt", site, if len >= 60 { " long" } else { "" }, classes.into_iter().collect::<Vec<_>>().join(" ")),
        ));
    }
    v
}

fn main() {
    // a request takes well under a second; the generous budget only keeps a heavily loaded machine from
    // turning a slow child into a spurious `timeout` answer (this property is not about termination)
    harness_main(gen, run, Limits { per_case: std::time::Duration::from_secs(120), ..Limits::default() });
}
