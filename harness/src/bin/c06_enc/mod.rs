//! C06 — an encoder of encrypted PDF files that shares nothing with the crate under test:
//! own RC4, own AES (FIPS-197, encryption direction only), CBC/ECB, PKCS#7, and the key
//! derivation of ISO 32000-1 §7.6.3 (Algorithms 1–5) / ISO 32000-2 §7.6.4 (Algorithms 2.B, 8–10)
//! written from the standards on top of the `md5` and `sha2` crates only.  Every file it
//! produces is also read by the Lean reference reader (Spec/C06Reader.lean), which re-encrypts
//! what it recovered with the Lean reference ciphers and demands byte equality.
#![allow(dead_code)]
use sha2::{Digest, Sha256, Sha384, Sha512};

pub fn rc4(key: &[u8], data: &[u8]) -> Vec<u8> {
    let mut s: Vec<u8> = (0..=255u8).collect();
    let mut j = 0usize;
    for i in 0..256 {
        j = (j + s[i] as usize + key[i % key.len()] as usize) % 256;
        s.swap(i, j);
    }
    let (mut i, mut j) = (0usize, 0usize);
    data.iter()
        .map(|b| {
            i = (i + 1) % 256;
            j = (j + s[i] as usize) % 256;
            s.swap(i, j);
            b ^ s[(s[i] as usize + s[j] as usize) % 256]
        })
        .collect()
}

fn rotl8(x: u8, n: u32) -> u8 {
    x.rotate_left(n)
}

/// S-box computed from its definition (multiplicative inverse in GF(2^8) + affine map)
fn sbox() -> [u8; 256] {
    let mut sb = [0u8; 256];
    let (mut p, mut q) = (1u8, 1u8);
    loop {
        p = p ^ (p << 1) ^ (if p & 0x80 != 0 { 0x1B } else { 0 });
        q ^= q << 1;
        q ^= q << 2;
        q ^= q << 4;
        if q & 0x80 != 0 {
            q ^= 0x09;
        }
        let x = q ^ rotl8(q, 1) ^ rotl8(q, 2) ^ rotl8(q, 3) ^ rotl8(q, 4);
        sb[p as usize] = x ^ 0x63;
        if p == 1 {
            break;
        }
    }
    sb[0] = 0x63;
    sb
}

fn xtime(x: u8) -> u8 {
    (x << 1) ^ (if x & 0x80 != 0 { 0x1B } else { 0 })
}

pub struct Aes {
    rk: Vec<[u8; 16]>,
    sb: [u8; 256],
}

impl Aes {
    /// key of 16 or 32 bytes
    pub fn new(key: &[u8]) -> Aes {
        let sb = sbox();
        let nk = key.len() / 4;
        let nr = nk + 6;
        let mut w: Vec<[u8; 4]> = key.chunks(4).map(|c| [c[0], c[1], c[2], c[3]]).collect();
        let mut rcon = 1u8;
        for i in nk..4 * (nr + 1) {
            let mut t = w[i - 1];
            if i % nk == 0 {
                t = [sb[t[1] as usize] ^ rcon, sb[t[2] as usize], sb[t[3] as usize], sb[t[0] as usize]];
                rcon = xtime(rcon);
            } else if nk > 6 && i % nk == 4 {
                t = [sb[t[0] as usize], sb[t[1] as usize], sb[t[2] as usize], sb[t[3] as usize]];
            }
            let p = w[i - nk];
            w.push([p[0] ^ t[0], p[1] ^ t[1], p[2] ^ t[2], p[3] ^ t[3]]);
        }
        let rk = w
            .chunks(4)
            .map(|c| {
                let mut b = [0u8; 16];
                for (i, word) in c.iter().enumerate() {
                    b[4 * i..4 * i + 4].copy_from_slice(word);
                }
                b
            })
            .collect();
        Aes { rk, sb }
    }

    pub fn block(&self, inp: &[u8]) -> [u8; 16] {
        let mut s = [0u8; 16];
        s.copy_from_slice(inp);
        let nr = self.rk.len() - 1;
        for i in 0..16 {
            s[i] ^= self.rk[0][i];
        }
        for r in 1..=nr {
            // SubBytes
            for b in s.iter_mut() {
                *b = self.sb[*b as usize];
            }
            // ShiftRows (state is column-major: s[4*c + r])
            let t = s;
            for c in 0..4 {
                for row in 0..4 {
                    s[4 * c + row] = t[4 * ((c + row) % 4) + row];
                }
            }
            // MixColumns
            if r != nr {
                for c in 0..4 {
                    let a = [s[4 * c], s[4 * c + 1], s[4 * c + 2], s[4 * c + 3]];
                    let all = a[0] ^ a[1] ^ a[2] ^ a[3];
                    for i in 0..4 {
                        s[4 * c + i] = a[i] ^ all ^ xtime(a[i] ^ a[(i + 1) % 4]);
                    }
                }
            }
            for i in 0..16 {
                s[i] ^= self.rk[r][i];
            }
        }
        s
    }

    /// CBC without padding (input a multiple of 16 bytes)
    pub fn cbc_raw(&self, iv: &[u8], data: &[u8]) -> Vec<u8> {
        let mut prev = [0u8; 16];
        prev.copy_from_slice(iv);
        let mut out = Vec::with_capacity(data.len());
        for ch in data.chunks(16) {
            let mut x = [0u8; 16];
            for i in 0..16 {
                x[i] = ch[i] ^ prev[i];
            }
            prev = self.block(&x);
            out.extend_from_slice(&prev);
        }
        out
    }

    /// CBC with PKCS#7 padding
    pub fn cbc_pad(&self, iv: &[u8], data: &[u8]) -> Vec<u8> {
        let pad = 16 - data.len() % 16;
        let mut d = data.to_vec();
        d.extend(std::iter::repeat(pad as u8).take(pad));
        self.cbc_raw(iv, &d)
    }
}

pub fn md5b(d: &[u8]) -> Vec<u8> {
    md5::compute(d).0.to_vec()
}

pub const PAD: [u8; 32] = [
    0x28, 0xBF, 0x4E, 0x5E, 0x4E, 0x75, 0x8A, 0x41, 0x64, 0x00, 0x4E, 0x56, 0xFF, 0xFA, 0x01, 0x08, 0x2E, 0x2E, 0x00,
    0xB6, 0xD0, 0x68, 0x3E, 0x80, 0x2F, 0x0C, 0xA9, 0xFE, 0x64, 0x53, 0x69, 0x7A,
];

pub fn pad_pw(pw: &[u8]) -> Vec<u8> {
    let mut v: Vec<u8> = pw.iter().copied().take(32).collect();
    let need = 32 - v.len();
    v.extend_from_slice(&PAD[..need]);
    v
}

/// Algorithm 3: /O
pub fn alg3(rev: u32, n: usize, owner: &[u8], user: &[u8]) -> Vec<u8> {
    let mut h = md5b(&pad_pw(owner));
    if rev >= 3 {
        for _ in 0..50 {
            h = md5b(&h);
        }
    }
    let key = &h[..n];
    let mut c = rc4(key, &pad_pw(user));
    if rev >= 3 {
        for i in 1..=19u8 {
            let k: Vec<u8> = key.iter().map(|b| b ^ i).collect();
            c = rc4(&k, &c);
        }
    }
    c
}

/// Algorithm 2: the file key
pub fn alg2(rev: u32, n: usize, user: &[u8], o: &[u8], p: u32, id0: &[u8], encrypt_metadata: bool) -> Vec<u8> {
    let mut d = pad_pw(user);
    d.extend_from_slice(o);
    d.extend_from_slice(&p.to_le_bytes());
    d.extend_from_slice(id0);
    if rev >= 4 && !encrypt_metadata {
        d.extend_from_slice(&[0xFF; 4]);
    }
    let mut h = md5b(&d);
    if rev >= 3 {
        for _ in 0..50 {
            h = md5b(&h[..n]);
        }
    }
    h[..n].to_vec()
}

/// Algorithms 4 / 5: /U (`fill` = the 16 arbitrary bytes of Algorithm 5)
pub fn alg45(rev: u32, key: &[u8], id0: &[u8], fill: &[u8]) -> Vec<u8> {
    if rev == 2 {
        return rc4(key, &PAD);
    }
    let mut d = PAD.to_vec();
    d.extend_from_slice(id0);
    let mut c = rc4(key, &md5b(&d));
    for i in 1..=19u8 {
        let k: Vec<u8> = key.iter().map(|b| b ^ i).collect();
        c = rc4(&k, &c);
    }
    c.extend_from_slice(&fill[..16]);
    c
}

/// Algorithm 1: per-object key
pub fn object_key(file_key: &[u8], num: u32, gen: u16, aes: bool) -> Vec<u8> {
    let mut d = file_key.to_vec();
    d.extend_from_slice(&num.to_le_bytes()[..3]);
    d.extend_from_slice(&gen.to_le_bytes()[..2]);
    if aes {
        d.extend_from_slice(b"sAlT");
    }
    let n = (file_key.len() + 5).min(16);
    md5b(&d)[..n].to_vec()
}

/// Algorithm 2.B (revision 6) / SHA-256 (revision 5)
pub fn hash56(rev: u32, pw: &[u8], salt: &[u8], udata: &[u8]) -> Vec<u8> {
    let mut d = pw.to_vec();
    d.extend_from_slice(salt);
    d.extend_from_slice(udata);
    let mut k: Vec<u8> = Sha256::digest(&d).to_vec();
    if rev == 5 {
        return k;
    }
    let mut round = 0usize;
    loop {
        let mut unit = pw.to_vec();
        unit.extend_from_slice(&k);
        unit.extend_from_slice(udata);
        let mut k1 = Vec::with_capacity(unit.len() * 64);
        for _ in 0..64 {
            k1.extend_from_slice(&unit);
        }
        let e = Aes::new(&k[..16]).cbc_raw(&k[16..32], &k1);
        let m: u32 = e[..16].iter().map(|b| *b as u32).sum::<u32>() % 3;
        k = match m {
            0 => Sha256::digest(&e).to_vec(),
            1 => Sha384::digest(&e).to_vec(),
            _ => Sha512::digest(&e).to_vec(),
        };
        round += 1;
        if round >= 64 && (*e.last().unwrap() as usize) <= round - 32 {
            break;
        }
    }
    k[..32].to_vec()
}

pub struct R56 {
    pub u: Vec<u8>,
    pub ue: Vec<u8>,
    pub o: Vec<u8>,
    pub oe: Vec<u8>,
    pub perms: Vec<u8>,
}

/// Algorithms 8, 9, 10; `salts` = 32 bytes (vsU ksU vsO ksO), `rnd4` the random tail of /Perms
pub fn r56_entries(rev: u32, user: &[u8], owner: &[u8], file_key: &[u8], p: u32, em: bool, salts: &[u8], rnd4: &[u8]) -> R56 {
    let user = &user[..user.len().min(127)];
    let owner = &owner[..owner.len().min(127)];
    let (vsu, ksu, vso, kso) = (&salts[0..8], &salts[8..16], &salts[16..24], &salts[24..32]);
    let mut u = hash56(rev, user, vsu, &[]);
    u.extend_from_slice(vsu);
    u.extend_from_slice(ksu);
    let ue = Aes::new(&hash56(rev, user, ksu, &[])).cbc_raw(&[0; 16], file_key);
    let mut o = hash56(rev, owner, vso, &u);
    o.extend_from_slice(vso);
    o.extend_from_slice(kso);
    let oe = Aes::new(&hash56(rev, owner, kso, &u)).cbc_raw(&[0; 16], file_key);
    let mut pp = p.to_le_bytes().to_vec();
    pp.extend_from_slice(&[0xFF; 4]);
    pp.push(if em { b'T' } else { b'F' });
    pp.extend_from_slice(b"adb");
    pp.extend_from_slice(&rnd4[..4]);
    let perms = Aes::new(file_key).block(&pp).to_vec();
    R56 { u, ue, o, oe, perms }
}

/// crypt filter method of strings / streams
#[derive(Clone, Copy, PartialEq, Debug)]
pub enum Cfm {
    Rc4,
    AesV2,
    AesV3,
}

/// encrypt one string / stream of object (num, gen); `iv` is used by the AES methods
pub fn encrypt_data(cfm: Cfm, file_key: &[u8], num: u32, gen: u16, iv: &[u8], data: &[u8]) -> Vec<u8> {
    match cfm {
        Cfm::Rc4 => rc4(&object_key(file_key, num, gen, false), data),
        Cfm::AesV2 => {
            let mut out = iv.to_vec();
            out.extend(Aes::new(&object_key(file_key, num, gen, true)).cbc_pad(iv, data));
            out
        }
        Cfm::AesV3 => {
            let mut out = iv.to_vec();
            out.extend(Aes::new(file_key).cbc_pad(iv, data));
            out
        }
    }
}

#[cfg(test)]
mod tests {
    use super::*;
    #[test]
    fn fips197() {
        let key: Vec<u8> = (0..16).collect();
        let pt: Vec<u8> = (0..16).map(|i| i * 0x11).collect();
        assert_eq!(oxiharness::hex(&Aes::new(&key).block(&pt)), "69c4e0d86a7b0430d8cdb78070b4c55a");
        let key: Vec<u8> = (0..32).collect();
        assert_eq!(oxiharness::hex(&Aes::new(&key).block(&pt)), "8ea2b7ca516745bfeafc49904b496089");
    }
}
