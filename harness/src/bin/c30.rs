//! C30 — page resource names chosen by the user cannot break the page.
//!
//! Request: `<kind> <name-hex> [<name2-hex>]` (names are the UTF-8 bytes of the Rust `String`
//! handed to the API, `-` = empty), optionally followed by `@xs` / `@os` = ALSO write the same
//! document with a cross-reference stream / with object streams + cross-reference stream
//! (`WriterConfig::modern()`); answer gets ` rdx=<reader stack>` / ` pgo=<page dictionary bytes cut out
//! of the object stream by the harness' own scanner> rdo=<reader stack>`.  Kinds = the API entry points that accept a name:
//!   img    Page::add_image(n, img) + Page::draw_image(n, …)                 /XObject, `Do`
//!   img2   two images n, n2 (both drawn, n first)                           /XObject, `Do` `Do`
//!   font   Document::add_font_from_bytes(n, ttf) + text().set_font(Font::Custom(n), 12)   /Font, `Tf`
//!   gfont  Document::add_font_from_bytes(n, ttf) + graphics().set_custom_font(n, 12)      /Font, `Tf`
//!   form   Page::add_form_xobject(n, form)? + graphics().draw_image(n, …)   /XObject, `Do`   (validated)
//!   cs     Page::add_color_space(n, DeviceRGB alias)? + graphics().set_fill_color_icc(n, [1,0,0])
//!          + set_stroke_color_icc(n, [0,1,0])                               /ColorSpace, `cs` `CS` (validated)
//!   pat    Page::add_pattern(n, tiling)?                                    /Pattern          (validated)
//!   sh     Page::add_shading(n, axial)? + graphics().paint_shading(n)       /Shading, `sh`    (validated)
//!   shop   graphics().paint_shading(n) only (operand side is never validated)  `sh`
//!   mc     Page::begin_marked_content(n) + end_marked_content()             `BDC` tag
//!
//! Answer (space separated fields):
//!   `err:<class>`                              the API refused the name (property respected)
//!   `page=<hex> content=<hex> lp=<…> lc=<…> rd=<…>`
//!     page     bytes of the page object's value (between `N 0 obj\n` and `\nendobj\n`), cut by the
//!              harness' own scanner (object boundaries from the classic xref table)
//!     content  bytes of the page's content stream data (by `/Length`)
//!     lp       what the crate's `PdfObject::parse` makes of `page ++ "\nendobj\n"`: the keys of
//!              /Resources/<category> (sorted, hex, `,`-separated; `.` = none) or `err:<class>`
//!     lc       what the crate's `ContentParser::parse` makes of `content`: the name operands of
//!              Do/Tf/cs/CS/sh/gs/BDC operators in order as `<op>:<hex>` (`.` = none) or `err`
//!     rd       what the crate's full reader stack (PdfReader → PdfDocument → get_page(0) →
//!              resources) sees: `ok:<keys>` / `err:<stage>` — observed, echoed by the model
use oxidize_pdf::graphics::{
    AxialShading, Color, ColorSpace, DeviceColorSpace, FormXObject, Image, PageColorSpace, PaintType,
    Point as ShPoint, ShadingDefinition, TilingPattern, TilingType,
};
use oxidize_pdf::geometry::Rectangle;
use oxidize_pdf::parser::content::{ContentOperation, ContentParser};
use oxidize_pdf::parser::objects::PdfObject;
use oxidize_pdf::text::Font;
use oxidize_pdf::writer::{PdfWriter, WriterConfig};
use oxidize_pdf::{Document, Page};
use oxiharness::*;
use std::io::Cursor;

fn find(h: &[u8], n: &[u8], from: usize) -> Option<usize> {
    if n.is_empty() || h.len() < n.len() || from > h.len() - n.len() {
        return None;
    }
    (from..=h.len() - n.len()).find(|&i| &h[i..i + n.len()] == n)
}

fn rfind(h: &[u8], n: &[u8]) -> Option<usize> {
    if n.is_empty() || h.len() < n.len() {
        return None;
    }
    (0..=h.len() - n.len()).rev().find(|&i| &h[i..i + n.len()] == n)
}

fn repo() -> String {
    std::env::var("VERIF_REPO").unwrap_or_else(|_| "/repo".to_string())
}

fn font_bytes() -> Result<Vec<u8>, String> {
    std::fs::read(format!("{}/test-pdfs/Roboto-Regular.ttf", repo())).map_err(|e| format!("fixture:{}", e))
}

fn category(kind: &str) -> &'static str {
    match kind {
        "img" | "img2" | "form" => "XObject",
        "font" | "gfont" => "Font",
        "cs" => "ColorSpace",
        "pat" => "Pattern",
        "sh" => "Shading",
        _ => "",
    }
}

fn err_class(e: &oxidize_pdf::PdfError) -> String {
    let s = format!("{:?}", e);
    let c: String = s.chars().take_while(|c| c.is_ascii_alphanumeric()).collect();
    c
}

/// build the document through the public API and write it with the real writer
fn build(kind: &str, n: &str, n2: Option<&str>, cfg: WriterConfig) -> Result<Vec<u8>, String> {
    let mut doc = Document::new();
    let mut page = Page::a4();
    let tiny = || Image::from_raw_data(vec![0x80], 1, 1, ColorSpace::DeviceGray, 8);
    match kind {
        "img" => {
            page.add_image(n, tiny());
            page.draw_image(n, 10.0, 20.0, 30.0, 40.0).map_err(|e| format!("err:{}", err_class(&e)))?;
        }
        "img2" => {
            let n2 = n2.ok_or("bad-request")?;
            page.add_image(n, tiny());
            page.add_image(n2, tiny());
            page.draw_image(n, 10.0, 20.0, 30.0, 40.0).map_err(|e| format!("err:{}", err_class(&e)))?;
            page.draw_image(n2, 50.0, 60.0, 70.0, 80.0).map_err(|e| format!("err:{}", err_class(&e)))?;
        }
        "font" => {
            doc.add_font_from_bytes(n, font_bytes()?).map_err(|e| format!("err:{}", err_class(&e)))?;
            page.text()
                .set_font(Font::Custom(n.to_string()), 12.0)
                .at(50.0, 700.0)
                .write("Hi")
                .map_err(|e| format!("err:{}", err_class(&e)))?;
        }
        "gfont" => {
            doc.add_font_from_bytes(n, font_bytes()?).map_err(|e| format!("err:{}", err_class(&e)))?;
            page.graphics().set_custom_font(n, 12.0);
            page.graphics().draw_text("Hi", 50.0, 700.0).map_err(|e| format!("err:{}", err_class(&e)))?;
        }
        "form" => {
            let bbox = Rectangle::from_position_and_size(0.0, 0.0, 10.0, 10.0);
            page.add_form_xobject(n, FormXObject::new(bbox)).map_err(|e| format!("err:{}", err_class(&e)))?;
            page.graphics().draw_image(n, 10.0, 20.0, 30.0, 40.0);
        }
        "cs" => {
            page.add_color_space(n, PageColorSpace::DeviceAlias(DeviceColorSpace::Rgb))
                .map_err(|e| format!("err:{}", err_class(&e)))?;
            page.graphics().set_fill_color_icc(n, vec![1.0, 0.0, 0.0]);
            page.graphics().set_stroke_color_icc(n, vec![0.0, 1.0, 0.0]);
        }
        "pat" => {
            let p = TilingPattern::new("P".to_string(), PaintType::Colored, TilingType::ConstantSpacing, [0.0, 0.0, 4.0, 4.0], 4.0, 4.0)
                .with_content_stream(b"0 0 2 2 re f\n".to_vec());
            page.add_pattern(n, p).map_err(|e| format!("err:{}", err_class(&e)))?;
        }
        "sh" | "shop" => {
            if kind == "sh" {
                let s = AxialShading::linear_gradient(
                    "S".to_string(),
                    ShPoint::new(0.0, 0.0),
                    ShPoint::new(100.0, 0.0),
                    Color::rgb(1.0, 0.0, 0.0),
                    Color::rgb(0.0, 0.0, 1.0),
                );
                page.add_shading(n, ShadingDefinition::Axial(s)).map_err(|e| format!("err:{}", err_class(&e)))?;
            }
            page.graphics().paint_shading(n);
        }
        "mc" => {
            page.begin_marked_content(n).map_err(|e| format!("err:{}", err_class(&e)))?;
            page.end_marked_content().map_err(|e| format!("err:{}", err_class(&e)))?;
        }
        _ => return Err("bad-request".into()),
    }
    doc.add_page(page);
    let mut out = Vec::new();
    {
        let mut w = PdfWriter::with_config(&mut out, cfg);
        w.write_document(&mut doc).map_err(|e| format!("err:write:{}", err_class(&e)))?;
    }
    Ok(out)
}

/// object boundaries from the classic xref table: (object number, start offset, end offset)
fn objects(pdf: &[u8]) -> Result<Vec<(usize, usize, usize)>, String> {
    let sx = rfind(pdf, b"startxref\n").ok_or("scan:no-startxref")?;
    let num: String = pdf[sx + 10..].iter().take_while(|b| b.is_ascii_digit()).map(|&b| b as char).collect();
    let xref: usize = num.parse().map_err(|_| "scan:bad-startxref")?;
    if xref >= pdf.len() || !pdf[xref..].starts_with(b"xref\n") {
        return Err("scan:no-xref-table".into());
    }
    let mut p = xref + 5;
    let line_end = find(pdf, b"\n", p).ok_or("scan:xref-header")?;
    let hdr = String::from_utf8_lossy(&pdf[p..line_end]).to_string();
    let mut it = hdr.split(' ');
    let first: usize = it.next().and_then(|s| s.parse().ok()).ok_or("scan:xref-header")?;
    let n: usize = it.next().and_then(|s| s.parse().ok()).ok_or("scan:xref-header")?;
    p = line_end + 1;
    let mut offs = Vec::new();
    for i in 0..n {
        if p + 20 * i + 20 > pdf.len() {
            return Err("scan:xref-short".into());
        }
        let l = &pdf[p + 20 * i..p + 20 * i + 20];
        if l[17] == b'n' {
            let o: usize = String::from_utf8_lossy(&l[..10]).parse().map_err(|_| "scan:xref-entry")?;
            offs.push((first + i, o));
        }
    }
    let mut sorted: Vec<usize> = offs.iter().map(|x| x.1).collect();
    sorted.push(xref);
    sorted.sort();
    Ok(offs
        .iter()
        .map(|&(num, o)| {
            let end = *sorted.iter().find(|&&x| x > o).unwrap_or(&pdf.len());
            (num, o, end)
        })
        .collect())
}

/// the value bytes of object `num`: between `num 0 obj\n` and the final `\nendobj\n`
fn obj_value<'a>(pdf: &'a [u8], objs: &[(usize, usize, usize)], num: usize) -> Option<&'a [u8]> {
    let &(_, s, e) = objs.iter().find(|o| o.0 == num)?;
    let hdr = format!("{} 0 obj\n", num);
    let body = &pdf[s..e];
    if !body.starts_with(hdr.as_bytes()) || !body.ends_with(b"\nendobj\n") {
        return None;
    }
    Some(&body[hdr.len()..body.len() - 8])
}

fn lib_page_view(page: &[u8], cat: &str) -> String {
    let mut bytes = page.to_vec();
    bytes.extend_from_slice(b"\nendobj\n");
    let mut lx = oxidize_pdf::parser::lexer::Lexer::new(Cursor::new(bytes));
    match PdfObject::parse(&mut lx) {
        Err(e) => {
            let s = format!("{:?}", e);
            let c: String = s.chars().take_while(|c| c.is_ascii_alphanumeric()).collect();
            format!("err:{}", c)
        }
        Ok(o) => {
            let Some(d) = o.as_dict() else { return "err:not-a-dict".into() };
            let ty = d.get("Type").and_then(|t| t.as_name()).map(|n| n.as_str().to_string());
            if ty.as_deref() != Some("Page") {
                return "err:no-type-page".into();
            }
            if cat.is_empty() {
                return "ok".into();
            }
            let Some(res) = d.get("Resources").and_then(|r| r.as_dict()) else { return "err:no-resources".into() };
            let Some(c) = res.get(cat).and_then(|r| r.as_dict()) else { return "err:no-category".into() };
            let mut keys: Vec<String> = c.0.keys().map(|k| hex(k.as_str().as_bytes())).collect();
            keys.sort();
            // the fourteen standard fonts are always present: drop them from the /Font view
            if keys.is_empty() { ".".into() } else { keys.join(",") }
        }
    }
}

fn lib_content_view(content: &[u8]) -> String {
    match ContentParser::parse(content) {
        Err(_) => "err".into(),
        Ok(ops) => {
            let mut v = Vec::new();
            for op in ops {
                match op {
                    ContentOperation::PaintXObject(n) => v.push(format!("Do:{}", hex(n.as_bytes()))),
                    ContentOperation::SetFont(n, _) => v.push(format!("Tf:{}", hex(n.as_bytes()))),
                    ContentOperation::SetNonStrokingColorSpace(n) => v.push(format!("cs:{}", hex(n.as_bytes()))),
                    ContentOperation::SetStrokingColorSpace(n) => v.push(format!("CS:{}", hex(n.as_bytes()))),
                    ContentOperation::ShadingFill(n) => v.push(format!("sh:{}", hex(n.as_bytes()))),
                    ContentOperation::SetGraphicsStateParams(n) => v.push(format!("gs:{}", hex(n.as_bytes()))),
                    ContentOperation::BeginMarkedContentWithProps(n, _) => v.push(format!("BDC:{}", hex(n.as_bytes()))),
                    ContentOperation::BeginMarkedContent(n) => v.push(format!("BMC:{}", hex(n.as_bytes()))),
                    _ => {}
                }
            }
            if v.is_empty() { ".".into() } else { v.join(",") }
        }
    }
}

fn run(req: &str) -> String {
    let mut parts: Vec<&str> = req.split(' ').collect();
    // optional last token: `@xs` / `@os` = also write the document with cross-reference streams /
    // with object streams + cross-reference streams (WriterConfig::modern())
    let extra = match parts.last() {
        Some(&"@xs") => "xs",
        Some(&"@os") => "os",
        _ => "",
    };
    if !extra.is_empty() {
        parts.pop();
    }
    if parts.len() < 2 || parts.len() > 3 {
        return "bad-request".into();
    }
    let kind = parts[0];
    let Some(nb) = unhex(parts[1]) else { return "bad-request".into() };
    let Ok(n) = String::from_utf8(nb) else { return "bad-request".into() };
    let n2 = match parts.get(2) {
        Some(h) => match unhex(h).and_then(|b| String::from_utf8(b).ok()) {
            Some(s) => Some(s),
            None => return "bad-request".into(),
        },
        None => None,
    };
    let classic = WriterConfig { compress_streams: false, use_xref_streams: false, use_object_streams: false, ..Default::default() };
    let pdf = match build(kind, &n, n2.as_deref(), classic) {
        Ok(p) => p,
        Err(e) => return e,
    };
    if let Ok(p) = std::env::var("C30_DUMP") {
        let _ = std::fs::write(p, &pdf);
    }
    let objs = match objects(&pdf) {
        Ok(o) => o,
        Err(e) => return format!("err:{}", e),
    };
    // the page object: the writer's layout is fixed per kind (catalog 1, pages 2, info 3, then the
    // fonts of the document, then page, contents, page resources) — located here by its
    // `/Contents c 0 R` first entry, which no user name can precede (keys are sorted, the
    // dictionary starts with `<<\n/Contents `)
    let mut page: Option<(usize, &[u8])> = None;
    for &(num, _, _) in &objs {
        if let Some(v) = obj_value(&pdf, &objs, num) {
            if v.starts_with(b"<<\n/Contents ") && page.is_none() {
                page = Some((num, v));
            }
        }
    }
    let Some((pnum, pbytes)) = page else { return "err:scan:no-page-object".into() };
    // content stream = object pnum+1 (checked against the page's own /Contents entry)
    let want = format!("<<\n/Contents {} 0 R\n", pnum + 1);
    if !pbytes.starts_with(want.as_bytes()) {
        return "err:scan:contents-ref".into();
    }
    let Some(cobj) = obj_value(&pdf, &objs, pnum + 1) else { return "err:scan:no-content-object".into() };
    // `<<\n/Length N\n>>\nstream\n` DATA `\nendstream`
    let content: Vec<u8> = {
        let pre = b"<<\n/Length ";
        if !cobj.starts_with(pre) {
            return "err:scan:content-dict".into();
        }
        let digits: String = cobj[pre.len()..].iter().take_while(|b| b.is_ascii_digit()).map(|&b| b as char).collect();
        let Ok(len) = digits.parse::<usize>() else { return "err:scan:content-length".into() };
        let hdr = format!("<<\n/Length {}\n>>\nstream\n", len);
        if !cobj.starts_with(hdr.as_bytes()) || cobj.len() != hdr.len() + len + 10 || !cobj.ends_with(b"\nendstream") {
            return "err:scan:content-framing".into();
        }
        cobj[hdr.len()..hdr.len() + len].to_vec()
    };
    let lp = lib_page_view(pbytes, category(kind));
    let lc = lib_content_view(&content);
    let rd = reader_view(&pdf, category(kind));
    if std::env::var("C30_SHOW").is_ok() {
        eprintln!("--- page {} ---\n{}\n--- content ---\n{}", pnum, String::from_utf8_lossy(pbytes), String::from_utf8_lossy(&content));
    }
    let mut ans = format!("pid={} page={} content={} lp={} lc={} rd={}", pnum, hex(pbytes), hex(&content), lp, lc, rd);
    if extra == "xs" {
        // the same document with a cross-reference stream (objects stay direct): reader stack only
        let xs = WriterConfig { compress_streams: false, use_xref_streams: true, use_object_streams: false, ..Default::default() };
        let rdx = match build(kind, &n, n2.as_deref(), xs) {
            Ok(p) => reader_view(&p, category(kind)),
            Err(e) => e.replace(' ', "_"),
        };
        ans.push_str(&format!(" rdx={}", rdx));
    }
    if extra == "os" {
        // the same document with object streams: the page dictionary is a member of an object
        // stream (serialised by `write_object_value_to_buffer`); `pgo` = its bytes cut out by the
        // harness' own object-stream scanner, `rdo` = the crate's reader stack on that file
        let os = WriterConfig { compress_streams: false, ..WriterConfig::modern() };
        let (pgo, rdo) = match build(kind, &n, n2.as_deref(), os) {
            Ok(p) => {
                if let Ok(d) = std::env::var("C30_DUMP_OS") {
                    let _ = std::fs::write(d, &p);
                }
                let pgo = match objstm_member(&p, pnum) {
                    Ok(b) => hex(&b),
                    Err(e) => format!("err:{}", e),
                };
                (pgo, reader_view(&p, category(kind)))
            }
            Err(e) => (e.replace(' ', "_"), "err:build".to_string()),
        };
        ans.push_str(&format!(" pgo={} rdo={}", pgo, rdo));
    }
    ans
}

/// the bytes of member object `num` of the object stream(s) of a file written with object
/// streams: own scanner (`/Type /ObjStm` dictionaries, `/N`, `/First`, `/Length`, optional
/// `/Filter /FlateDecode`), independent of the crate's reader
fn objstm_member(pdf: &[u8], num: usize) -> Result<Vec<u8>, String> {
    use std::io::Read;
    let int_after = |d: &[u8], key: &[u8]| -> Option<usize> {
        let p = find(d, key, 0)? + key.len();
        let s: String = d[p..].iter().skip_while(|b| **b == b' ').take_while(|b| b.is_ascii_digit()).map(|&b| b as char).collect();
        s.parse().ok()
    };
    let mut from = 0;
    let mut seen = 0;
    while let Some(t) = find(pdf, b"/Type /ObjStm", from) {
        from = t + 1;
        seen += 1;
        // dictionary = from the preceding ` obj\n<<` to the following `>>\nstream\n`
        let ds = (0..t).rev().find(|&i| pdf[i..].starts_with(b" obj\n<<")).ok_or("objstm:dict-start")?;
        let de = find(pdf, b">>\nstream\n", t).ok_or("objstm:dict-end")?;
        let dict = &pdf[ds..de];
        let n = int_after(dict, b"/N ").ok_or("objstm:N")?;
        let first = int_after(dict, b"/First ").ok_or("objstm:First")?;
        let len = int_after(dict, b"/Length ").ok_or("objstm:Length")?;
        let data0 = de + 10;
        if data0 + len > pdf.len() {
            return Err("objstm:short".into());
        }
        let raw = &pdf[data0..data0 + len];
        let data: Vec<u8> = if find(dict, b"/FlateDecode", 0).is_some() {
            let mut out = Vec::new();
            flate2::read::ZlibDecoder::new(raw).read_to_end(&mut out).map_err(|_| "objstm:inflate")?;
            out
        } else {
            raw.to_vec()
        };
        if first > data.len() {
            return Err("objstm:first".into());
        }
        let nums: Vec<usize> = String::from_utf8_lossy(&data[..first]).split_ascii_whitespace().filter_map(|x| x.parse().ok()).collect();
        if nums.len() != 2 * n {
            return Err("objstm:header".into());
        }
        for i in 0..n {
            if nums[2 * i] == num {
                let s = first + nums[2 * i + 1];
                let e = if i + 1 < n { first + nums[2 * i + 3] } else { data.len() };
                if s > e || e > data.len() {
                    return Err("objstm:offsets".into());
                }
                let mut b = data[s..e].to_vec();
                while matches!(b.last(), Some(b' ' | b'\n' | b'\r')) {
                    b.pop();
                }
                return Ok(b);
            }
        }
    }
    Err(if seen == 0 { "objstm:none".into() } else { "objstm:not-a-member".to_string() })
}

/// the crate's full reader stack on the whole file
fn reader_view(pdf: &[u8], cat: &str) -> String {
    use oxidize_pdf::parser::{PdfDocument, PdfReader};
    let reader = match PdfReader::new(Cursor::new(pdf.to_vec())) {
        Ok(r) => r,
        Err(_) => return "err:open".into(),
    };
    let doc = PdfDocument::new(reader);
    match doc.page_count() {
        Ok(1) => {}
        Ok(_) => return "err:page-count".into(),
        Err(_) => return "err:page-count-failed".into(),
    }
    let page = match doc.get_page(0) {
        Ok(p) => p,
        Err(_) => return "err:get-page".into(),
    };
    if cat.is_empty() {
        return "ok".into();
    }
    let Some(res) = page.get_resources() else { return "err:no-resources".into() };
    let Some(c) = res.get(cat) else { return "err:no-category".into() };
    let c = match doc.resolve(c) {
        Ok(o) => o,
        Err(_) => return "err:resolve".into(),
    };
    let Some(d) = c.as_dict() else { return "err:category-not-dict".into() };
    let mut keys: Vec<String> = d.0.keys().map(|k| hex(k.as_str().as_bytes())).collect();
    keys.sort();
    if keys.is_empty() { "ok:.".into() } else { format!("ok:{}", keys.join(",")) }
}

const KINDS: [&str; 9] = ["img", "font", "gfont", "form", "cs", "pat", "sh", "shop", "mc"];

/// pieces the random names are assembled from: benign runs, each white-space byte, each
/// delimiter, `#` forms, controls, DEL, 2/3/4-byte UTF-8, PDF keywords and real dictionary keys
const PIECES: [&str; 64] = [
    "A", "b", "Im", "F1", "x9", "-", "_", ".", "+", "Type", "Font", "XObject", "Resources", "Courier", "R", "12", "0",
    "true", "null", "obj", "endobj", " ", " ", "\t", "\n", "\r", "\x0c", "\0", "(", ")", "<", ">", "<<", ">>", "[", "]", "{",
    "}", "/", "%", "#", "#41", "#4", "#zz", "#+5", "#20", "\x01", "\x07", "\x1b", "\x7f", "\u{80}", "\u{a0}", "é", "ÿ",
    "Ā", "€", "\u{fffd}", "😀", "\u{10ffff}", " 6 0 R /Inj", ">> /Inj << /A", " Do\nq", ";", "\\",
];

fn class_of(n: &str) -> &'static str {
    let b = n.as_bytes();
    if b.iter().any(|c| matches!(c, 0 | 9 | 10 | 12 | 13 | 32 | b'(' | b')' | b'<' | b'>' | b'[' | b']' | b'{' | b'}' | b'/' | b'%')) {
        "ws-delim"
    } else if b.contains(&b'#') {
        "hash"
    } else if b.iter().any(|&c| c >= 128) {
        "non-ascii"
    } else {
        "safe"
    }
}

/// names that would switch the real content parser into inline-image mode (`BI` / `ID` as a word)
/// or put the keyword `stream` behind a `>>` are outside the model (`unmodelled`): not generated
fn outside_model(n: &str) -> bool {
    let words = n.split(|c: char| c.is_ascii_whitespace() || "()<>[]{}/%;".contains(c));
    for w in words {
        if w == "BI" || w == "ID" || w.starts_with("stream") {
            return true;
        }
    }
    false
}

fn case(kind: &str, n: &str, n2: Option<&str>, fam: &str) -> Option<Case> {
    if outside_model(n) || n2.map(outside_model).unwrap_or(false) {
        return None;
    }
    let plain = |s: &str| !s.is_empty() && s.bytes().all(|c| c.is_ascii_alphanumeric());
    let nt = !plain(n) || n2.map(|x| !plain(x) || x.starts_with(n) || n.starts_with(x)).unwrap_or(false);
    let cls = match n2 {
        Some(x) if class_of(n) == "safe" => class_of(x),
        _ => class_of(n),
    };
    let len = match n.len() { 0 => "len0", 1..=8 => "len1-8", 9..=64 => "len9-64", _ => "len65+" };
    let req = match n2 {
        Some(x) => format!("{} {} {}", kind, hex(n.as_bytes()), hex(x.as_bytes())),
        None => format!("{} {}", kind, hex(n.as_bytes())),
    };
    // fam `…@xs` / `…@os`: the writer-configuration marker goes to the end of the request
    let (fam, req) = match fam.rsplit_once('@') {
        Some((f, m)) => (f, format!("{} @{}", req, m)),
        None => (fam, req),
    };
    let cfg = if req.ends_with("@xs") { " cfg-xs" } else if req.ends_with("@os") { " cfg-os" } else { "" };
    Some(Case::new(req, format!("{} {} {} {}{}{}", kind, fam, cls, len, cfg, if nt { " nt" } else { "" })))
}

fn random_name(rng: &mut Rng, max_pieces: u64) -> String {
    let k = rng.below(max_pieces + 1);
    let mut s = String::new();
    for _ in 0..k {
        // two thirds benign, one third anything
        if rng.chance(2, 3) {
            s.push_str(PIECES[rng.below(22) as usize]);
        } else {
            s.push_str(PIECES[rng.below(PIECES.len() as u64) as usize]);
        }
    }
    s
}

fn gen(rng: &mut Rng, tier: Tier) -> Vec<Case> {
    let mut v: Vec<Case> = Vec::new();
    let mut push = |c: Option<Case>| {
        if let Some(c) = c {
            v.push(c);
        }
    };
    // 1. fixed boundary names × every entry point
    let fixed = [
        "Im1", "", "My Image", "A#42", "A#4", "A#", "#", "A#zz", "A/B", "/", "A(B", "A)B", "A<B", "A>B", "A>>B", "A[B", "A]B",
        "A{B", "A}B", "A%B", "A\0B", "A\tB", "A\nB", "A\rB", "A\x0cB", " A", "A ", "\x01", "A\x7fB", "é", "A\u{80}", "€uro", "😀",
        "Type", "Font", "Courier", "Helvetica-Bold", "R", "0", "12", "true", "null", "-1", "+", ".", "A;B", "A\\B", "A'B", "A\"B",
        "x 6 0 R /Inj", "x >> /Inj << /y", "x Do q", "F1 12 Tf (", "endobj", "obj",
    ];
    for k in KINDS {
        for n in fixed {
            push(case(k, n, None, "fixed"));
        }
    }
    // 1b. other writer configurations.  Cross-reference stream (cheap): every fixed name on `img`,
    //     the first eight on the other entry points that do not embed a font program (all in thorough).  Object streams (each file carries a
    //     10^6-entry cross-reference stream, seconds per case): a handful of names in quick
    for k in KINDS {
        if k == "font" || k == "gfont" {
            continue;
        }
        for n in fixed.iter().take(if k == "img" || tier == Tier::Thorough { fixed.len() } else { 8 }) {
            push(case(k, n, None, "fixed@xs"));
        }
    }
    //     (two more are in corpus/C30/ok_other_writer_configs.req)
    let os_quick: [(&str, &str, Option<&str>); 3] = [("img", "A#42", None), ("img", "A/é(", None), ("img2", "Im1", Some("Im 1"))];
    for (k, n, n2) in os_quick {
        push(case(k, n, n2, if n2.is_some() { "pair@os" } else { "fixed@os" }));
    }
    if tier == Tier::Thorough {
        for n in fixed.iter().take(33) {
            push(case("img", n, None, "fixed@os"));
        }
        for k in ["form", "pat", "sh", "mc", "shop"] {
            push(case(k, "Nm1", None, "fixed@os"));
        }
    }
    // 2. every ASCII code point (and a table of non-ASCII ones) at the start / middle / end of a
    //    benign name; the entry point rotates so that each byte meets each kind over the positions
    let extra = ['\u{80}', '\u{a0}', '\u{e9}', '\u{ff}', '\u{100}', '\u{7ff}', '\u{800}', '\u{20ac}', '\u{d7ff}', '\u{e000}', '\u{fffd}', '\u{10000}', '\u{1f600}', '\u{10ffff}'];
    let cps: Vec<char> = (0u8..128).map(|b| b as char).chain(extra.iter().copied()).collect();
    for (i, c) in cps.iter().enumerate() {
        for pos in 0..3usize {
            let n = match pos {
                0 => format!("{}Nm", c),
                1 => format!("N{}m", c),
                _ => format!("Nm{}", c),
            };
            let rounds = if tier == Tier::Thorough { KINDS.len() } else { 1 };
            for r in 0..rounds {
                let k = KINDS[(i + pos * 3 + r * 4) % KINDS.len()];
                push(case(k, &n, None, "byte"));
            }
        }
    }
    // 3. two images: equal names, prefixes of each other, both orders, hostile second name
    let pairs = [
        ("A", "A"), ("A", "AB"), ("AB", "A"), ("Im1", "Im10"), ("b", "a"), ("a", "b"), ("", "A"), ("A", ""), ("A", "A B"),
        ("A B", "A"), ("A", "A#42"), ("AB", "A#42"), ("é", "e"), ("é", "Ã©"), ("Im 1", "Im 2"), ("Z", "a"), ("A/B", "A"),
    ];
    for (a, b) in pairs {
        push(case("img2", a, Some(b), "pair"));
    }
    let n_rand = if tier == Tier::Thorough { 6000 } else { 400 };
    for i in 0..n_rand {
        // 4. random assembled names, all entry points
        let k = KINDS[rng.below(KINDS.len() as u64) as usize];
        let n = random_name(rng, 6);
        if i % 10 == 0 {
            let mut n2 = if rng.chance(1, 2) { format!("{}{}", n, random_name(rng, 2)) } else { random_name(rng, 4) };
            if rng.chance(1, 8) {
                n2 = n.clone();
            }
            push(case("img2", &n, Some(&n2), "rand"));
        } else {
            push(case(k, &n, None, "rand"));
        }
    }
    // 5. long names (benign run with one hostile piece somewhere)
    let n_long = if tier == Tier::Thorough { 120 } else { 24 };
    for _ in 0..n_long {
        let k = KINDS[rng.below(KINDS.len() as u64) as usize];
        let len = 65 + rng.below(if tier == Tier::Thorough { 3000 } else { 400 }) as usize;
        let mut n: String = (0..len).map(|_| (b'a' + rng.below(26) as u8) as char).collect();
        if rng.chance(2, 3) {
            let at = rng.below(len as u64 + 1) as usize;
            n.insert_str(at, PIECES[22 + rng.below(PIECES.len() as u64 - 22) as usize]);
        }
        push(case(k, &n, None, "long"));
    }
    v
}

fn main() {
    // object-stream cases take seconds each in the unoptimised build (10^6-entry xref stream)
    harness_main(gen, run, Limits { per_case: std::time::Duration::from_secs(90), ..Limits::default() });
}
