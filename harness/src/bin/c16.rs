//! C16 — page operations: drives the real split / merge / extract / reorder / reverse / swap /
//! move / rotate operations on source documents written by the independent reference writer and
//! reads every output file back with (a) the strict reference reader and (b) the library.
//!
//! Request:  `<op> <args…> # pt <cat> <root> | <objects…>`     (source document: C18 grammar)
//!   ops   split single | split chunk <n> | split at <a,b,…> | split ranges <R;R;…>
//!         splitmerge single|chunk <n>|at <a,b,…>          split, then merge the parts in order
//!         merge <R;R;…>                                    inputs = the source with each range
//!         extract page <i> | extract pages <i,j,…> | extract range <R>
//!         reorder <i,j,…> | reverse | swap <i> <j> | move <i> <j>
//!         rotate <R> <degrees> | rotate2 <R> <deg1> <R> <deg2>   (second on the first's output)
//!   R     all | s<i> | r<a>-<b> | l<i,j,…> | p<text>      (0-based; p = `PageRange::parse` of text,
//!                                                           `_` stands for a blank)
//! Answer:   `ok <doc> / <doc> …`  with  doc = `[page;page;…]`,
//!           page = `m=a,b,c,d c=a,b,c,d|- r=<rotate> z=<k+k|-|none> k=<hex of decoded content>`
//!           (numbers ×2) as seen by the STRICT reader, plus ` lib=same` or ` lib=DIFF:<library view>`;
//!           `err:<class>` when the operation returns an error, `panic` when it panics.
#[path = "../shared_b1618/refpdf.rs"]
mod refpdf;
#[path = "../shared_b1618/ptdesc.rs"]
mod ptdesc;

use oxidize_pdf::operations::{
    merge_pdfs, move_pdf_page, reorder_pdf_pages, reverse_pdf_pages, rotate_pdf_pages, split_pdf, swap_pdf_pages, MergeInput, MergeOptions, OperationError,
    PageExtractor, PageRange, RotateOptions, RotationAngle, SplitMode, SplitOptions,
};
use oxidize_pdf::parser::PdfReader;
use oxiharness::*;
use ptdesc::{build_pdf, parse_req, show_req, Ob, D};
use refpdf::{SObj, StrictDoc};
use std::path::{Path, PathBuf};

fn work_dir() -> PathBuf {
    let d = PathBuf::from(format!("/tmp/b1618/c16-{}", std::process::id()));
    let _ = std::fs::create_dir_all(&d);
    d
}

fn parse_range(s: &str) -> Option<Result<PageRange, OperationError>> {
    if s == "all" {
        return Some(Ok(PageRange::All));
    }
    let (k, rest) = s.split_at(1);
    match k {
        "s" => Some(Ok(PageRange::Single(rest.parse().ok()?))),
        "r" => {
            let (a, b) = rest.split_once('-')?;
            Some(Ok(PageRange::Range(a.parse().ok()?, b.parse().ok()?)))
        }
        "l" => {
            if rest.is_empty() {
                return Some(Ok(PageRange::List(vec![])));
            }
            let v: Option<Vec<usize>> = rest.split(',').map(|t| t.parse().ok()).collect();
            Some(Ok(PageRange::List(v?)))
        }
        "p" => Some(PageRange::parse(&rest.replace('_', " "))),
        _ => None,
    }
}

fn parse_list(s: &str) -> Option<Vec<usize>> {
    if s == "-" {
        return Some(vec![]);
    }
    s.split(',').map(|t| t.parse().ok()).collect()
}

fn err_class(e: &OperationError) -> String {
    let s = match e {
        OperationError::PageIndexOutOfBounds(..) => "oob",
        OperationError::InvalidPageRange(..) => "range",
        OperationError::NoPagesToProcess => "nopages",
        OperationError::InvalidRotation(..) => "rotation",
        OperationError::ParseError(..) => "parse",
        _ => "other",
    };
    format!("err:{}", s)
}

fn num2(x: f64) -> String {
    let y = x * 2.0;
    if y.is_finite() && y.fract() == 0.0 && y.abs() < 9.0e15 {
        format!("{}", y as i64)
    } else {
        "nan".into()
    }
}

fn keys_str(ks: Option<Vec<String>>) -> String {
    match ks {
        None => "none".into(),
        Some(mut v) => {
            v.sort();
            if v.is_empty() {
                "-".into()
            } else {
                v.join("+")
            }
        }
    }
}

/// strict reader's view of one output file
fn strict_view(path: &Path) -> Result<Vec<String>, String> {
    let bytes = std::fs::read(path).map_err(|e| format!("read: {}", e))?;
    let doc = StrictDoc::parse(&bytes)?;
    let pages = doc.pages()?;
    let mut out = vec![];
    for p in pages {
        let m = match &p.media_box {
            Some(b) => b.iter().map(|x| num2(*x)).collect::<Vec<_>>().join(","),
            None => "none".into(),
        };
        let c = match &p.crop_box {
            Some(b) => b.iter().map(|x| num2(*x)).collect::<Vec<_>>().join(","),
            None => "-".into(),
        };
        let r = p.rotate.unwrap_or(0);
        // resource categories that are empty dictionaries / absent are the same thing
        let z = keys_str(p.resources.as_ref().map(|d| {
            d.iter()
                .filter(|(_, v)| match doc.resolve(v) {
                    SObj::Dict(dd) => !dd.is_empty(),
                    _ => true,
                })
                .map(|(k, _)| k.clone())
                .collect()
        }));
        out.push(format!("m={} c={} r={} z={} k={}", m, c, r, z, hex(&p.content)));
    }
    Ok(out)
}

/// the library's own view of the same file
fn lib_view(path: &Path) -> Result<Vec<String>, String> {
    let doc = PdfReader::open_document(path).map_err(|e| format!("open: {}", e))?;
    let n = doc.page_count().map_err(|e| format!("count: {}", e))?;
    let mut out = vec![];
    for i in 0..n {
        let p = doc.get_page(i).map_err(|e| format!("page {}: {}", i, e))?;
        let m = p.media_box.iter().map(|x| num2(*x)).collect::<Vec<_>>().join(",");
        let c = match &p.crop_box {
            Some(b) => b.iter().map(|x| num2(*x)).collect::<Vec<_>>().join(","),
            None => "-".into(),
        };
        let z = keys_str(p.get_resources().map(|d| {
            d.0.iter()
                .filter(|(_, v)| match v {
                    oxidize_pdf::parser::objects::PdfObject::Dictionary(dd) => !dd.0.is_empty(),
                    _ => true,
                })
                .map(|(k, _)| k.0.clone())
                .collect()
        }));
        let streams = doc.get_page_content_streams(&p).map_err(|e| format!("content {}: {}", i, e))?;
        let mut content = Vec::new();
        for (k, s) in streams.iter().enumerate() {
            if k > 0 {
                content.push(b'\n');
            }
            content.extend_from_slice(s);
        }
        out.push(format!("m={} c={} r={} z={} k={}", m, c, p.rotation, z, hex(&content)));
    }
    Ok(out)
}

fn view_doc(path: &Path) -> String {
    let s = strict_view(path);
    let l = lib_view(path);
    match (s, l) {
        (Ok(s), Ok(l)) => {
            let body = format!("[{}]", s.join(";"));
            if s == l {
                format!("{} lib=same", body)
            } else {
                format!("{} lib=DIFF:[{}]", body, l.join(";"))
            }
        }
        (Err(e), _) => format!("[strict-reader-error:{}]", e.replace(' ', "_")),
        (Ok(s), Err(e)) => format!("[{}] lib=ERR:{}", s.join(";"), e.replace(' ', "_")),
    }
}

fn run_op(op: &[&str], src: &Path, dir: &Path) -> Result<Vec<PathBuf>, String> {
    let out = dir.join("out.pdf");
    let _ = std::fs::remove_file(&out);
    let opr = |r: Result<(), OperationError>| r.map_err(|e| err_class(&e));
    let split_mode = |args: &[&str]| -> Option<Result<SplitMode, OperationError>> {
        match args {
            ["single"] => Some(Ok(SplitMode::SinglePages)),
            ["chunk", n] => Some(Ok(SplitMode::ChunkSize(n.parse().ok()?))),
            ["at", l] => Some(Ok(SplitMode::SplitAt(parse_list(l)?))),
            ["ranges", rs] => {
                let mut v = vec![];
                for r in rs.split(';') {
                    match parse_range(r)? {
                        Ok(x) => v.push(x),
                        Err(e) => return Some(Err(e)),
                    }
                }
                Some(Ok(SplitMode::Ranges(v)))
            }
            _ => None,
        }
    };
    let do_split = |mode: SplitMode| -> Result<Vec<PathBuf>, String> {
        for e in std::fs::read_dir(dir).map_err(|e| e.to_string())?.flatten() {
            if e.file_name().to_string_lossy().starts_with("part") {
                let _ = std::fs::remove_file(e.path());
            }
        }
        let options = SplitOptions { mode, output_pattern: dir.join("part{n}.pdf").to_string_lossy().into_owned(), preserve_metadata: true, optimize: false };
        split_pdf(src, options).map_err(|e| err_class(&e))
    };
    match op {
        ["split", rest @ ..] => {
            let mode = split_mode(rest).ok_or("bad-request")?.map_err(|e| err_class(&e))?;
            do_split(mode)
        }
        ["splitmerge", rest @ ..] => {
            let mode = split_mode(rest).ok_or("bad-request")?.map_err(|e| err_class(&e))?;
            let parts = do_split(mode)?;
            let inputs: Vec<MergeInput> = parts.iter().map(MergeInput::new).collect();
            opr(merge_pdfs(inputs, &out, MergeOptions::default()))?;
            Ok(vec![out])
        }
        ["merge", rs] => {
            let mut inputs = vec![];
            for r in rs.split(';') {
                let pr = parse_range(r).ok_or("bad-request")?.map_err(|e| err_class(&e))?;
                inputs.push(MergeInput::with_pages(src, pr));
            }
            opr(merge_pdfs(inputs, &out, MergeOptions::default()))?;
            Ok(vec![out])
        }
        ["extract", kind, arg] => {
            let doc = PdfReader::open_document(src).map_err(|_| "err:parse".to_string())?;
            let mut ex = PageExtractor::new(doc);
            let mut d = match *kind {
                "page" => ex.extract_page(arg.parse().map_err(|_| "bad-request")?),
                "pages" => ex.extract_pages(&parse_list(arg).ok_or("bad-request")?),
                "range" => {
                    let pr = parse_range(arg).ok_or("bad-request")?.map_err(|e| err_class(&e))?;
                    ex.extract_page_range(&pr)
                }
                _ => return Err("bad-request".into()),
            }
            .map_err(|e| err_class(&e))?;
            d.save(&out).map_err(|_| "err:save".to_string())?;
            Ok(vec![out])
        }
        ["reorder", l] => {
            opr(reorder_pdf_pages(src, &out, parse_list(l).ok_or("bad-request")?))?;
            Ok(vec![out])
        }
        ["reverse"] => {
            opr(reverse_pdf_pages(src, &out))?;
            Ok(vec![out])
        }
        ["swap", a, b] => {
            opr(swap_pdf_pages(src, &out, a.parse().map_err(|_| "bad-request")?, b.parse().map_err(|_| "bad-request")?))?;
            Ok(vec![out])
        }
        ["move", a, b] => {
            opr(move_pdf_page(src, &out, a.parse().map_err(|_| "bad-request")?, b.parse().map_err(|_| "bad-request")?))?;
            Ok(vec![out])
        }
        ["rotate", r, deg] => {
            let pr = parse_range(r).ok_or("bad-request")?.map_err(|e| err_class(&e))?;
            let angle = RotationAngle::from_degrees(deg.parse().map_err(|_| "bad-request")?).map_err(|e| err_class(&e))?;
            opr(rotate_pdf_pages(src, &out, RotateOptions { pages: pr, angle, preserve_page_size: false }))?;
            Ok(vec![out])
        }
        ["rotate2", r1, d1, r2, d2] => {
            let mid = dir.join("mid.pdf");
            let pr = parse_range(r1).ok_or("bad-request")?.map_err(|e| err_class(&e))?;
            let angle = RotationAngle::from_degrees(d1.parse().map_err(|_| "bad-request")?).map_err(|e| err_class(&e))?;
            opr(rotate_pdf_pages(src, &mid, RotateOptions { pages: pr, angle, preserve_page_size: false }))?;
            let pr = parse_range(r2).ok_or("bad-request")?.map_err(|e| err_class(&e))?;
            let angle = RotationAngle::from_degrees(d2.parse().map_err(|_| "bad-request")?).map_err(|e| err_class(&e))?;
            opr(rotate_pdf_pages(&mid, &out, RotateOptions { pages: pr, angle, preserve_page_size: false }))?;
            Ok(vec![out])
        }
        _ => Err("bad-request".into()),
    }
}

fn run(req: &str) -> String {
    let Some((ops, tree)) = req.split_once(" # ") else { return "bad-request".into() };
    let Some((cat, root, objs)) = parse_req(tree) else { return "bad-request".into() };
    let dir = work_dir();
    let src = dir.join("src.pdf");
    if std::fs::write(&src, build_pdf(cat, root, &objs)).is_err() {
        return "io-error".into();
    }
    let op: Vec<&str> = ops.split(' ').collect();
    let r = std::panic::catch_unwind(|| run_op(&op, &src, &dir));
    match r {
        Err(_) => "panic".into(),
        Ok(Err(e)) => e,
        Ok(Ok(files)) => {
            let docs: Vec<String> = files.iter().map(|f| view_doc(f)).collect();
            if std::env::var("C16_KEEP").is_err() {
                for f in &files {
                    let _ = std::fs::remove_file(f);
                }
            }
            format!("ok {}", docs.join(" / "))
        }
    }
}

// ------------------------------------------------------------------------------------------
// generator
// ------------------------------------------------------------------------------------------

struct SrcGen<'a> {
    rng: &'a mut Rng,
    next: u32,
    objs: Vec<(u32, Ob)>,
}

impl<'a> SrcGen<'a> {
    fn fresh(&mut self) -> u32 {
        self.next += 1;
        self.next
    }
    fn num(&mut self, zero_bias: bool) -> String {
        let v = if zero_bias && self.rng.chance(1, 2) { 0 } else { self.rng.range(-40, 400) };
        if self.rng.chance(1, 8) {
            format!("{}.5", v)
        } else {
            v.to_string()
        }
    }
    /// a box [x0 y0 x1 y1] with x1 > x0, y1 > y0; `zero` = origin at 0 0
    fn boxs(&mut self, zero: bool) -> String {
        let (x0, y0) = if zero { (0, 0) } else { (self.rng.range(-60, 300), self.rng.range(-60, 300)) };
        let w = self.rng.range(1, 900);
        let h = self.rng.range(1, 900);
        let half = |r: &mut Rng, v: i64| if r.chance(1, 8) { format!("{}.5", v) } else { v.to_string() };
        let a = if zero { "0".to_string() } else { half(self.rng, x0) };
        let b = if zero { "0".to_string() } else { half(self.rng, y0) };
        format!("{}:{}:{}:{}", a, b, half(self.rng, x0 + w + 1), half(self.rng, y0 + h + 1))
    }
    fn rot(&mut self) -> String {
        (*self.rng.pick(&[0i64, 90, 180, 270, -90, -180, -270, -360, -450, 360, 450, 540, 630, 720, 810, 2147483610, -2147483610])).to_string()
    }
    fn keys(&mut self) -> String {
        let pool = ["ProcSet", "ExtGState", "ColorSpace", "Pattern", "Shading", "Properties"];
        let n = 1 + self.rng.below(3);
        let mut ks: Vec<&str> = vec![];
        for _ in 0..n {
            let k = *self.rng.pick(&pool);
            if !ks.contains(&k) {
                ks.push(k);
            }
        }
        ks.join("+")
    }
    fn content(&mut self) -> Vec<u8> {
        let ops: [&[u8]; 8] = [b"q", b"Q", b"1 0 0 1 10 20 cm", b"0.5 g", b"10 10 100 50 re f", b"BT /F1 12 Tf (Hi) Tj ET", b"0 0 m 50 50 l S", b"1 0 0 RG"];
        let n = self.rng.below(4) as usize;
        let mut v = Vec::new();
        for i in 0..n {
            if i > 0 {
                v.push(b' ');
            }
            let o: &[u8] = ops[self.rng.below(ops.len() as u64) as usize];
            v.extend_from_slice(o);
        }
        v
    }
    /// one value in six is given as a reference to a number-array / integer object
    fn indirect(&mut self, v: String, is_box: bool) -> String {
        if !self.rng.chance(1, 6) {
            return v;
        }
        let i = self.fresh();
        let ob = if is_box { Ob::B(v) } else { Ob::I(v.parse().unwrap_or(0)) };
        self.objs.push((i, ob));
        format!("@{}", i)
    }
    fn attrs(&mut self, d: &mut D, zero: bool, p: u64) {
        if self.rng.chance(p, 10) {
            let b = self.boxs(zero);
            d.m = Some(self.indirect(b, true));
        }
        if self.rng.chance(p, 25) {
            let b = self.boxs(zero);
            d.b = Some(self.indirect(b, true));
        }
        if self.rng.chance(p, 10) {
            let r = self.rot();
            d.r = Some(self.indirect(r, false));
        }
        if self.rng.chance(p, 14) {
            if self.rng.chance(1, 3) {
                let y = self.fresh();
                let k = self.keys();
                self.objs.push((y, Ob::Y(k)));
                d.z = Some(format!("@{}", y));
            } else {
                d.z = Some(self.keys());
            }
        }
    }
}

/// a well-formed source document with `n` pages; returns (request tree text, n)
fn gen_source(rng: &mut Rng, n: usize, zero: bool) -> String {
    let mut g = SrcGen { rng, next: 2, objs: vec![] };
    let cat = 1;
    let root = 2;
    let mut rd = D { t: Some("S".into()), c: Some(n.to_string()), ..D::default() };
    rd.m = Some(g.boxs(zero)); // every page has a MediaBox somewhere in its ancestry
    g.attrs(&mut rd, zero, 3);
    let mut root_kids: Vec<u32> = vec![];
    let mut left = n;
    while left > 0 {
        if g.rng.chance(1, 2) || left == 1 {
            // direct page under the root
            let id = g.fresh();
            root_kids.push(id);
            let mut d = D { t: Some("P".into()), p: Some(root), ..D::default() };
            g.attrs(&mut d, zero, 4);
            page_content(&mut g, &mut d);
            g.objs.push((id, Ob::D(d)));
            left -= 1;
        } else {
            // a group node with 1..=left pages and its own inheritable attributes
            let gid = g.fresh();
            root_kids.push(gid);
            let k = 1 + g.rng.below(left.min(4) as u64) as usize;
            let mut gd = D { t: Some("S".into()), p: Some(root), c: Some(k.to_string()), ..D::default() };
            g.attrs(&mut gd, zero, 5);
            let mut kids = vec![];
            for _ in 0..k {
                let id = g.fresh();
                kids.push(id.to_string());
                let mut d = D { t: Some("P".into()), p: Some(gid), ..D::default() };
                g.attrs(&mut d, zero, 3);
                page_content(&mut g, &mut d);
                g.objs.push((id, Ob::D(d)));
            }
            if g.rng.chance(1, 4) {
                let a = g.fresh();
                g.objs.push((a, Ob::A(kids.join(","))));
                gd.k = Some(format!("@{}", a));
            } else {
                gd.k = Some(kids.join(","));
            }
            g.objs.push((gid, Ob::D(gd)));
            left -= k;
        }
    }
    rd.k = Some(if root_kids.is_empty() { "-".into() } else { root_kids.iter().map(|k| k.to_string()).collect::<Vec<_>>().join(",") });
    g.objs.push((root, Ob::D(rd)));
    show_req(cat, root, &g.objs)
}

fn page_content(g: &mut SrcGen, d: &mut D) {
    match g.rng.below(6) {
        0 => {}
        1 => {
            // several content streams through an array object
            let k = 2 + g.rng.below(2);
            let mut ids = vec![];
            for _ in 0..k {
                let s = g.fresh();
                let c = g.content();
                g.objs.push((s, Ob::S(c)));
                ids.push(s.to_string());
            }
            let a = g.fresh();
            g.objs.push((a, Ob::A(ids.join(","))));
            d.o = Some(a);
        }
        _ => {
            let s = g.fresh();
            let c = g.content();
            g.objs.push((s, Ob::S(c)));
            d.o = Some(s);
        }
    }
}

/// an index that is valid (< n) except with probability 1/10
fn idx(rng: &mut Rng, n: usize) -> u64 {
    let n1 = n.max(1) as u64;
    if rng.chance(1, 10) {
        n1 + rng.below(2)
    } else {
        rng.below(n1)
    }
}

fn gen_range(rng: &mut Rng, n: usize) -> String {
    let n1 = n.max(1) as u64;
    match rng.below(12) {
        0 | 1 => "all".into(),
        2 | 3 => format!("s{}", idx(rng, n)),
        4 | 5 | 6 => {
            let a = idx(rng, n);
            let b = idx(rng, n);
            if rng.chance(9, 10) {
                format!("r{}-{}", a.min(b), a.max(b))
            } else {
                format!("r{}-{}", a, b)
            }
        }
        7 | 8 => {
            let k = rng.below(5);
            if k == 0 {
                "l".into()
            } else {
                format!("l{}", (0..k).map(|_| { let extra = if rng.chance(1, 10) { 1 } else { 0 }; rng.below(n1 + extra).to_string() }).collect::<Vec<_>>().join(","))
            }
        }
        _ => {
            // PageRange::parse (1-based text)
            let t = match rng.below(9) {
                0 => "all".to_string(),
                1 => "ALL".to_string(),
                2 => format!("{}", rng.below(n1 + 2)),
                3 => format!("{}-{}", 1 + rng.below(n1), 1 + rng.below(n1)),
                4 => format!("_{}_-_{}_", 1 + rng.below(n1), n),
                5 => format!("{},{},{}", 1 + rng.below(n1), 1 + rng.below(n1), rng.below(n1 + 1)),
                6 => format!("{},_{}", 1 + rng.below(n1), 1 + rng.below(n1)),
                7 => "0-1".to_string(),
                _ => (*rng.pick(&["x", "1-", "-2", "1,,2", "", "1-2-3", "All", "3_4"])).to_string(),
            };
            format!("p{}", t)
        }
    }
}

fn gen_list(rng: &mut Rng, n: usize, allow_bad: bool) -> String {
    let k = rng.below(n as u64 + 3) as usize;
    if k == 0 {
        return "-".into();
    }
    let n1 = n.max(1) as u64;
    (0..k).map(|_| { let extra = if allow_bad && rng.chance(1, 12) { 2 } else { 0 }; rng.below(n1 + extra).to_string() }).collect::<Vec<_>>().join(",")
}

fn gen_perm(rng: &mut Rng, n: usize) -> String {
    let mut v: Vec<usize> = (0..n).collect();
    for i in (1..v.len()).rev() {
        let j = rng.below(i as u64 + 1) as usize;
        v.swap(i, j);
    }
    if v.is_empty() {
        "-".into()
    } else {
        v.iter().map(|x| x.to_string()).collect::<Vec<_>>().join(",")
    }
}

fn gen_split_mode(rng: &mut Rng, n: usize, with_ranges: bool) -> String {
    match rng.below(if with_ranges { 8 } else { 6 }) {
        0 | 1 => "single".into(),
        2 | 3 => format!("chunk {}", 1 + rng.below(n as u64 + 2)),
        4 | 5 => {
            let k = rng.below(4);
            if k == 0 {
                "at -".into()
            } else {
                let mut v: Vec<u64> = (0..k).map(|_| rng.below(n as u64 + 2)).collect();
                if rng.chance(4, 5) {
                    v.sort();
                    v.dedup();
                }
                format!("at {}", v.iter().map(|x| x.to_string()).collect::<Vec<_>>().join(","))
            }
        }
        _ => {
            let k = 1 + rng.below(3);
            format!("ranges {}", (0..k).map(|_| gen_range(rng, n)).collect::<Vec<_>>().join(";"))
        }
    }
}

/// Sources whose pages carry a non-zero /Rotate — own, inherited from a group node, inherited
/// from the root — crossed with all four angles (and their aliases), plus two-step sequences
/// whose angles add up to a full turn: the composed rotation must come out as
/// (source + angle) mod 360 also when that is 0 (a page that was rotated must be able to get
/// back to /Rotate 0, i.e. the entry absent) and also for the unselected pages.
fn gen_rotation_family(rng: &mut Rng, cases: &mut Vec<Case>) {
    let rots: [i64; 9] = [90, 180, 270, -90, -180, -270, 450, 540, 630];
    // every residue mod 360, under one of its aliases
    let alias: [[i64; 3]; 4] = [[0, 360, 720], [90, 450, -270], [180, -180, 540], [270, -90, 630]];
    for (ri, r) in rots.iter().enumerate() {
        for place in 0..3 {
            // 3 pages: page 3 under the root, pages 5 and 6 under group 4
            let mut root = D { t: Some("S".into()), c: Some("3".into()), k: Some("3,4".into()), m: Some("0:0:612:792".into()), ..D::default() };
            let mut grp = D { t: Some("S".into()), p: Some(2), c: Some("2".into()), k: Some("5,6".into()), ..D::default() };
            let mut p3 = D { t: Some("P".into()), p: Some(2), o: Some(7), ..D::default() };
            let mut p5 = D { t: Some("P".into()), p: Some(4), o: Some(8), ..D::default() };
            let mut p6 = D { t: Some("P".into()), p: Some(4), ..D::default() };
            match place {
                0 => {
                    // own /Rotate on two of the pages (page 6 stays at 0)
                    p3.r = Some(r.to_string());
                    p5.r = Some(rots[(ri + 1) % rots.len()].to_string());
                }
                1 => {
                    // inherited from the group node; page 3 has none
                    grp.r = Some(r.to_string());
                }
                _ => {
                    // inherited from the root, overridden with 0 on page 6
                    root.r = Some(r.to_string());
                    p6.r = Some("0".into());
                }
            }
            if place == 1 && ri % 2 == 0 {
                p6.m = Some("10:20:300:400".into());
                p6.b = Some("20:30:250:350".into());
            }
            let objs = vec![
                (2, Ob::D(root)),
                (3, Ob::D(p3)),
                (4, Ob::D(grp)),
                (5, Ob::D(p5)),
                (6, Ob::D(p6)),
                (7, Ob::S(b"q 1 0 0 1 10 20 cm Q".to_vec())),
                (8, Ob::S(b"0.5 g".to_vec())),
            ];
            let src = show_req(1, 2, &objs);
            let tag = ["own", "group", "root"][place];
            let angles: Vec<i64> = alias.iter().map(|al| *rng.pick(al)).collect();
            for a in angles.iter() {
                let sel = match rng.below(3) {
                    0 => "all".to_string(),
                    1 => format!("s{}", rng.below(3)),
                    _ => "r0-1".to_string(),
                };
                cases.push(Case::new(format!("rotate {} {} # {}", sel, a, src), format!("rotate rotfam-{} origin0 n3 nt", tag)));
            }
            // two steps that add up to a multiple of 360, and two that do not
            for (a, b) in [(90i64, 270i64), (180, 180), (270, 90), (90, 90), (-90, 450)] {
                if rng.chance(1, 2) {
                    cases.push(Case::new(format!("rotate2 all {} all {} # {}", a, b, src), format!("rotate2 rotfam-{} origin0 n3 nt", tag)));
                }
            }
        }
    }
    // an unrotated source turned by 90 and then by 270 (and 180 twice): back to /Rotate 0
    let objs = vec![
        (2, Ob::D(D { t: Some("S".into()), c: Some("2".into()), k: Some("3,4".into()), m: Some("0:0:200:300".into()), ..D::default() })),
        (3, Ob::D(D { t: Some("P".into()), p: Some(2), ..D::default() })),
        (4, Ob::D(D { t: Some("P".into()), p: Some(2), ..D::default() })),
    ];
    let src = show_req(1, 2, &objs);
    for (a, b) in [(90i64, 270i64), (180, 180), (270, 90), (270, 450)] {
        cases.push(Case::new(format!("rotate2 all {} all {} # {}", a, b, src), "rotate2 rotfam-back origin0 n2 nt"));
        cases.push(Case::new(format!("rotate2 s0 {} r0-1 {} # {}", a, b, src), "rotate2 rotfam-back origin0 n2 nt"));
    }
}

fn gen(rng: &mut Rng, tier: Tier) -> Vec<Case> {
    let mut cases = vec![];
    gen_rotation_family(rng, &mut cases);
    let total = if tier == Tier::Quick { 700 } else { 12000 };
    for i in 0..total {
        let n = match rng.below(10) {
            0 => 1,
            1 => 2,
            _ => 1 + rng.below(7) as usize,
        };
        // half of the sources keep every box at the origin (what the library's own writer produces)
        let zero = i % 2 == 0;
        let src = gen_source(rng, n, zero);
        let degs = [0i64, 90, 180, 270, -90, -180, -270, 360, 450, 720, -360, 45, 100, 810, -450];
        let (op, kind) = match rng.below(16) {
            0 | 1 => (format!("split {}", gen_split_mode(rng, n, true)), "split"),
            2 | 3 => (format!("splitmerge {}", gen_split_mode(rng, n, false)), "splitmerge"),
            4 => (format!("merge {}", (0..1 + rng.below(3)).map(|_| gen_range(rng, n)).collect::<Vec<_>>().join(";")), "merge"),
            5 => (format!("extract page {}", idx(rng, n)), "extract"),
            6 => (format!("extract pages {}", gen_list(rng, n, true)), "extract"),
            7 => (format!("extract range {}", gen_range(rng, n)), "extract"),
            8 => (format!("reorder {}", if rng.chance(1, 2) { gen_perm(rng, n) } else { gen_list(rng, n, true) }), "reorder"),
            9 => ("reverse".to_string(), "reverse"),
            10 => (format!("swap {} {}", idx(rng, n), idx(rng, n)), "swap"),
            11 => (format!("move {} {}", idx(rng, n), idx(rng, n)), "move"),
            12 | 13 => (format!("rotate {} {}", gen_range(rng, n), if rng.chance(9, 10) { rng.pick(&degs[..11]) } else { rng.pick(&degs) }), "rotate"),
            _ => (format!("rotate2 {} {} {} {}", gen_range(rng, n), rng.pick(&degs[..11]), gen_range(rng, n), rng.pick(&degs[..11])), "rotate2"),
        };
        let tags = format!("{} {} n{} nt", kind, if zero { "origin0" } else { "origin-any" }, n);
        cases.push(Case::new(format!("{} # {}", op, src), tags));
    }
    cases
}

fn main() {
    harness_main(gen, run, Limits::default());
}
