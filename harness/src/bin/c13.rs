//! C13 — text in embedded fonts is recoverable exactly.
//!
//! Request: `emb <api> <seg>[/<seg>…]`   seg = `<font>:<cps>`  (cps = code points, hex, joined by `.`)
//!          `emb mix <a><page>@<font>:<cps>[/…]`   a = t | g per segment, page = 0..9 (same font through both
//!          contexts on one page / across pages: the document's used characters are the union)
//!   api  = text  (`page.text().set_font(Font::Custom(f), 12).at(50, y).write(s)`, one call per segment)
//!          gfx   (`page.graphics().set_custom_font(f, 12)` + `draw_text(s, 50, y)`)
//!   font = roboto (TrueType, test-pdfs/Roboto-Regular.ttf)   sans3 (OpenType/CFF, test-pdfs/SourceSans3-Regular.otf)
//!          dejavu / dejavumono (TrueType, system DejaVu: Cyrillic, Greek, symbols, astral blocks)
//! Every segment is one show operation on its own line (y = 760 − 16·i), fonts are registered with
//! `Document::add_font_from_bytes`, the document is written by the real writer (classic xref,
//! streams uncompressed so that the independent reader on the Lean side can walk the file).
//! Answer: `lib=<cps>;facts=<…>;file=<hex>`
//!   lib   = `TextExtractor::new().extract_from_page(doc, p).text` of the written bytes (code points), pages joined by `/`
//!   facts = per font `<font>=<unitsPerEm>,<numGlyphs>,<cp>-<gid>-<advance>…` for the characters used,
//!           read from the ORIGINAL font file by the small sfnt reader below (independent of the crate:
//!           table directory, head, hhea, maxp, hmtx, cmap formats 4 and 12)
//!   file  = the whole written file
use oxiharness::*;
use oxidize_pdf::parser::{PdfDocument, PdfReader};
use oxidize_pdf::text::{Font, TextExtractor};
use oxidize_pdf::writer::WriterConfig;
use oxidize_pdf::{Document, Page};
use std::collections::{BTreeMap, BTreeSet};
use std::io::Cursor;

fn repo() -> String {
    std::env::var("VERIF_REPO").unwrap_or_else(|_| "/repo".into())
}

const FONTS: &[&str] = &["roboto", "sans3", "dejavu", "dejavumono"];

fn font_path(id: &str) -> Option<String> {
    Some(match id {
        "roboto" => format!("{}/test-pdfs/Roboto-Regular.ttf", repo()),
        "sans3" => format!("{}/test-pdfs/SourceSans3-Regular.otf", repo()),
        "dejavu" => "/usr/share/fonts/truetype/dejavu/DejaVuSans.ttf".into(),
        "dejavumono" => "/usr/share/fonts/truetype/dejavu/DejaVuSansMono.ttf".into(),
        _ => return None,
    })
}

// ---------------------------------------------------------------- independent sfnt reader
struct Sfnt {
    upem: u32,
    num_glyphs: u32,
    adv: Vec<u16>,
    cmap: BTreeMap<u32, u16>,
}
fn u16at(d: &[u8], o: usize) -> Option<u32> {
    Some(((*d.get(o)? as u32) << 8) | *d.get(o + 1)? as u32)
}
fn u32at(d: &[u8], o: usize) -> Option<u32> {
    Some((u16at(d, o)? << 16) | u16at(d, o + 2)?)
}
fn table(d: &[u8], tag: &[u8; 4]) -> Option<(usize, usize)> {
    let n = u16at(d, 4)? as usize;
    for i in 0..n {
        let r = 12 + 16 * i;
        if d.get(r..r + 4)? == tag {
            return Some((u32at(d, r + 8)? as usize, u32at(d, r + 12)? as usize));
        }
    }
    None
}
fn parse_sfnt(d: &[u8]) -> Option<Sfnt> {
    let (head, _) = table(d, b"head")?;
    let upem = u16at(d, head + 18)?;
    let (maxp, _) = table(d, b"maxp")?;
    let num_glyphs = u16at(d, maxp + 4)?;
    let (hhea, _) = table(d, b"hhea")?;
    let nhm = u16at(d, hhea + 34)? as usize;
    let (hmtx, _) = table(d, b"hmtx")?;
    let mut adv = Vec::new();
    for g in 0..num_glyphs as usize {
        let i = if g < nhm { g } else { nhm - 1 };
        adv.push(u16at(d, hmtx + 4 * i)? as u16);
    }
    let (cm, _) = table(d, b"cmap")?;
    let nt = u16at(d, cm + 2)? as usize;
    // preference: (3,10) > (0,*) fmt 12 > (3,1) > (0,*)
    let mut best: Option<(u32, usize)> = None;
    for i in 0..nt {
        let r = cm + 4 + 8 * i;
        let (p, e, off) = (u16at(d, r)?, u16at(d, r + 2)?, u32at(d, r + 4)? as usize);
        let fmt = u16at(d, cm + off)?;
        let score = match (p, e, fmt) {
            (3, 10, 12) => 4,
            (0, _, 12) => 3,
            (3, 1, 4) => 2,
            (0, _, 4) => 1,
            _ => 0,
        };
        if score > 0 && best.map(|b| score > b.0).unwrap_or(true) {
            best = Some((score, cm + off));
        }
    }
    let (_, st) = best?;
    let mut cmap = BTreeMap::new();
    match u16at(d, st)? {
        4 => {
            let segx2 = u16at(d, st + 6)? as usize;
            let ends = st + 14;
            let starts = ends + segx2 + 2;
            let deltas = starts + segx2;
            let ros = deltas + segx2;
            for s in 0..segx2 / 2 {
                let (e, b, dl, ro) = (u16at(d, ends + 2 * s)?, u16at(d, starts + 2 * s)?, u16at(d, deltas + 2 * s)?, u16at(d, ros + 2 * s)?);
                if b > e {
                    continue;
                }
                for c in b..=e {
                    if c == 0xFFFF {
                        continue;
                    }
                    let g = if ro == 0 {
                        (c + dl) & 0xFFFF
                    } else {
                        let a = ros + 2 * s + ro as usize + 2 * (c - b) as usize;
                        let v = u16at(d, a)?;
                        if v == 0 {
                            0
                        } else {
                            (v + dl) & 0xFFFF
                        }
                    };
                    if g != 0 {
                        cmap.insert(c, g as u16);
                    }
                }
            }
        }
        12 => {
            let ng = u32at(d, st + 12)? as usize;
            for i in 0..ng {
                let r = st + 16 + 12 * i;
                let (a, b, g) = (u32at(d, r)?, u32at(d, r + 4)?, u32at(d, r + 8)?);
                if b < a || b - a > 0x20000 {
                    continue;
                }
                for c in a..=b {
                    let gid = g + (c - a);
                    if gid != 0 && gid < 0x10000 {
                        cmap.insert(c, gid as u16);
                    }
                }
            }
        }
        _ => return None,
    }
    Some(Sfnt { upem, num_glyphs, adv, cmap })
}

fn load(id: &str) -> Option<(Vec<u8>, Sfnt)> {
    let d = std::fs::read(font_path(id)?).ok()?;
    let s = parse_sfnt(&d)?;
    Some((d, s))
}

// ---------------------------------------------------------------- run
fn cps_of(s: &str) -> String {
    if s.is_empty() {
        "-".into()
    } else {
        s.chars().map(|c| format!("{:x}", c as u32)).collect::<Vec<_>>().join(".")
    }
}

fn run(req: &str) -> String {
    let p: Vec<&str> = req.split(' ').collect();
    let ["emb", api, segs] = p.as_slice() else { return "bad-request".into() };
    // (api, page, font, text); `mix`: every segment carries `<t|g><page>@` in front of the font
    let mut full: Vec<(char, usize, String, String)> = vec![];
    for seg in segs.split('/') {
        let (a, pg, rest) = if *api == "mix" {
            let Some((pre, rest)) = seg.split_once('@') else { return "bad-request".into() };
            let mut ch = pre.chars();
            let (Some(a), Some(d)) = (ch.next(), ch.next().and_then(|c| c.to_digit(10))) else { return "bad-request".into() };
            if a != 't' && a != 'g' {
                return "bad-request".into();
            }
            (a, d as usize, rest)
        } else {
            (if *api == "text" { 't' } else if *api == "gfx" { 'g' } else { return "bad-request".into() }, 0usize, seg)
        };
        let Some((f, cps)) = rest.split_once(':') else { return "bad-request".into() };
        let text: Option<String> = cps.split('.').map(|t| u32::from_str_radix(t, 16).ok().and_then(char::from_u32)).collect();
        let Some(text) = text else { return "bad-request".into() };
        full.push((a, pg, f.to_string(), text));
    }
    let parsed: Vec<(String, String)> = full.iter().map(|(_, _, f, t)| (f.clone(), t.clone())).collect();
    let npages = full.iter().map(|x| x.1).max().unwrap_or(0) + 1;
    let mut doc = Document::new();
    let mut facts = vec![];
    let used_fonts: BTreeSet<String> = parsed.iter().map(|(f, _)| f.clone()).collect();
    for f in &used_fonts {
        let Some((data, sf)) = load(f) else { return "err:font-unavailable".into() };
        let mut chars: BTreeSet<u32> = BTreeSet::new();
        for (ff, t) in &parsed {
            if ff == f {
                chars.extend(t.chars().map(|c| c as u32));
            }
        }
        let items: Vec<String> = chars
            .iter()
            .map(|c| match sf.cmap.get(c) {
                Some(g) => format!("{:x}-{}-{}", c, g, sf.adv.get(*g as usize).copied().unwrap_or(0)),
                None => format!("{:x}-0-0", c),
            })
            .collect();
        facts.push(format!("{}={},{},{}", f, sf.upem, sf.num_glyphs, items.join(",")));
        if let Err(e) = doc.add_font_from_bytes(f.clone(), data) {
            return format!("err:add-font:{}", e).chars().take(60).collect();
        }
    }
    for pg in 0..npages {
        let mut page = Page::a4();
        // calls are made in request order; every segment of a page gets its own line
        for (i, (a, _, f, t)) in full.iter().filter(|x| x.1 == pg).enumerate() {
            let y = 760.0 - 16.0 * i as f64;
            let r = match a {
                't' => page.text().set_font(Font::Custom(f.clone()), 12.0).at(50.0, y).write(t).map(|_| ()),
                _ => {
                    page.graphics().set_custom_font(f, 12.0);
                    page.graphics().draw_text(t, 50.0, y).map(|_| ())
                }
            };
            if r.is_err() {
                return "err:draw".into();
            }
        }
        doc.add_page(page);
    }
    let cfg = WriterConfig { use_xref_streams: false, use_object_streams: false, compress_streams: false, ..WriterConfig::default() };
    let bytes = match doc.to_bytes_with_config(cfg) {
        Ok(b) => b,
        Err(_) => return "err:write".into(),
    };
    let lib = match PdfReader::new(Cursor::new(bytes.clone())) {
        Ok(r) => {
            let d = PdfDocument::new(r);
            let mut per = vec![];
            for pg in 0..npages {
                per.push(match TextExtractor::new().extract_from_page(&d, pg as u32) {
                    Ok(t) => cps_of(&t.text),
                    Err(_) => "err:extract".into(),
                });
            }
            per.join("/")
        }
        Err(_) => "err:open".into(),
    };
    // cut from the file by plain scanning (cross-checked by the oracle's independent walk)
    let mut tus: Vec<Vec<u8>> = vec![];
    let mut from = 0;
    while let Some(k) = find(&bytes, b"begincmap", from) {
        if let (Some(s), Some(e)) = (rfind(&bytes, b"stream\n", k), find(&bytes, b"\nendstream", k)) {
            tus.push(bytes[s + 7..e].to_vec());
        }
        from = k + 9;
    }
    tus.sort();
    let mut ws: Vec<Vec<u8>> = vec![];
    from = 0;
    while let Some(k) = find(&bytes, b"/W [", from) {
        let st = k + 3;
        let mut depth = 0i32;
        let mut j = st;
        while j < bytes.len() {
            if bytes[j] == b'[' {
                depth += 1;
            } else if bytes[j] == b']' {
                depth -= 1;
                if depth == 0 {
                    break;
                }
            }
            j += 1;
        }
        ws.push(bytes[st..=j.min(bytes.len() - 1)].to_vec());
        from = k + 4;
    }
    ws.sort();
    // shown strings of every content stream (streams holding `BT` and `Tf`), in file order
    let mut shows: Vec<String> = vec![];
    from = 0;
    while let Some(st) = find(&bytes, b"stream\n", from) {
        let Some(e) = find(&bytes, b"endstream", st) else { break };
        let cs = &bytes[st + 7..e];
        if find(cs, b"BT\n", 0).is_some() && find(cs, b" Tf\n", 0).is_some() && find(cs, b"begincmap", 0).is_none() {
            let mut p = 0;
            while let Some(k) = find(cs, b"> Tj", p) {
                if let Some(o) = rfind(cs, b"<", k) {
                    shows.push(String::from_utf8_lossy(&cs[o + 1..k]).into_owned());
                }
                p = k + 4;
            }
        }
        from = e + 9;
    }
    let hl = |v: &Vec<Vec<u8>>| if v.is_empty() { "-".to_string() } else { v.iter().map(|b| hex(b)).collect::<Vec<_>>().join(",") };
    format!(
        "lib={};show={};tu={};w={};facts={};file={}",
        lib,
        if shows.is_empty() { "-".to_string() } else { shows.join(",") },
        hl(&tus),
        hl(&ws),
        facts.join("|"),
        hex(&bytes)
    )
}

fn find(hay: &[u8], needle: &[u8], from: usize) -> Option<usize> {
    if from > hay.len() {
        return None;
    }
    hay[from..].windows(needle.len()).position(|w| w == needle).map(|p| p + from)
}
fn rfind(hay: &[u8], needle: &[u8], before: usize) -> Option<usize> {
    hay[..before.min(hay.len())].windows(needle.len()).rposition(|w| w == needle)
}

// ---------------------------------------------------------------- generator
fn fmt(cps: &[u32]) -> String {
    cps.iter().map(|c| format!("{:x}", c)).collect::<Vec<_>>().join(".")
}

/// printable covered characters of a font (no controls, no white space other than U+0020, no
/// surrogates / non-characters, no combining marks that extraction may reorder)
fn repertoire(sf: &Sfnt) -> Vec<u32> {
    sf.cmap
        .keys()
        .copied()
        .filter(|&c| {
            c > 0x20
                && c != 0x7F
                && !(0x80..=0xA0).contains(&c)
                && c != 0xAD
                && !(0x300..=0x36F).contains(&c)
                && !(0x2000..=0x200F).contains(&c)
                && !(0x2028..=0x202F).contains(&c)
                && !(0x205F..=0x206F).contains(&c)
                && c != 0x3000
                && c != 0xFEFF
                && !(0xFE00..=0xFE0F).contains(&c)
                && !(0xFFF0..=0xFFFF).contains(&c)
                && char::from_u32(c).map(|ch| !ch.is_whitespace() && !ch.is_control()).unwrap_or(false)
        })
        .collect()
}

/// maximal runs of consecutive code points
fn runs(rep: &[u32]) -> Vec<(u32, u32)> {
    let mut out = vec![];
    let mut i = 0;
    while i < rep.len() {
        let mut j = i;
        while j + 1 < rep.len() && rep[j + 1] == rep[j] + 1 {
            j += 1;
        }
        out.push((rep[i], rep[j]));
        i = j + 1;
    }
    out
}

fn gen(rng: &mut Rng, tier: Tier) -> Vec<Case> {
    let mut v = Vec::new();
    let thorough = tier == Tier::Thorough;
    let mut reps: BTreeMap<&str, Vec<u32>> = BTreeMap::new();
    for f in FONTS {
        if let Some((_, sf)) = load(f) {
            reps.insert(f, repertoire(&sf));
        }
    }
    let apis = ["text", "gfx"];
    for (f, rep) in &reps {
        if rep.is_empty() {
            continue;
        }
        let rs = runs(rep);
        let bmp: Vec<u32> = rep.iter().copied().filter(|c| *c <= 0xFFFF).collect();
        let astral: Vec<u32> = rep.iter().copied().filter(|c| *c > 0xFFFF).collect();
        for api in apis {
            // ASCII word with repeats
            v.push(Case::new(format!("emb {} {}:48.65.6c.6c.6f.20.57.6f.72.6c.64", api, f), format!("{} {} ascii repeats nt", f, api)));
            // a long consecutive run: forces bfrange, >100 entries (split at 100), crosses xxFF boundaries
            if let Some(&(a, b)) = rs.iter().filter(|(a, b)| b - a >= 100 && *b <= 0xFFFF).max_by_key(|(a, b)| b - a) {
                let n = (b - a + 1).min(if thorough { 260 } else { 130 });
                let cps: Vec<u32> = (a..a + n).collect();
                v.push(Case::new(format!("emb {} {}:{}", api, f, fmt(&cps)), format!("{} {} long-run>100 nt", f, api)));
            }
            // a run across a low-byte boundary (…FE FF 00 01…)
            if let Some(&(a, b)) = rs.iter().find(|(a, b)| *b <= 0xFFFF && (a | 0xFF) < *b && (a | 0xFF) - a >= 1) {
                let m = a | 0xFF;
                let cps: Vec<u32> = (m - 1.min(m - a)..=(m + 2).min(b)).collect();
                v.push(Case::new(format!("emb {} {}:{}", api, f, fmt(&cps)), format!("{} {} run-crosses-low-byte nt", f, api)));
            }
            // > 100 isolated characters (every other one of the repertoire): bfchar blocks > 100 entries
            let iso: Vec<u32> = bmp.iter().copied().step_by(2).filter(|c| *c > 0xFF).take(if thorough { 230 } else { 120 }).collect();
            if iso.len() > 100 {
                v.push(Case::new(format!("emb {} {}:{}", api, f, fmt(&iso)), format!("{} {} isolated>100 nt", f, api)));
            }
            // exactly 100 / 101 consecutive, 100 / 101 isolated
            if let Some(&(a, _)) = rs.iter().find(|(a, b)| b - a >= 101 && *b <= 0xFFFF) {
                for n in [99u32, 100, 101] {
                    let cps: Vec<u32> = (a..a + n).collect();
                    v.push(Case::new(format!("emb {} {}:{}", api, f, fmt(&cps)), format!("{} {} run-len-{} nt", f, api, n)));
                }
            }
            // astral characters where the font has them
            if !astral.is_empty() {
                let cps: Vec<u32> = (0..4).map(|_| *rng.pick(&astral)).collect();
                v.push(Case::new(format!("emb {} {}:{}", api, f, fmt(&cps)), format!("{} {} astral nt", f, api)));
                let mut mix = vec![0x41, *rng.pick(&astral), 0x42];
                mix.push(*rng.pick(&bmp));
                v.push(Case::new(format!("emb {} {}:{}", api, f, fmt(&mix)), format!("{} {} astral mixed nt", f, api)));
            }
        }
    }
    // the SAME font through the graphics context and through Page::text(): the document's used
    // characters of the font are the UNION over both contexts and over all pages
    for (f, rep) in &reps {
        let bmp: Vec<u32> = rep.iter().copied().filter(|c| *c <= 0xFFFF && *c > 0x7E).collect();
        if bmp.len() < 40 {
            continue;
        }
        let a: Vec<u32> = (0..8).map(|_| *rng.pick(&bmp[..bmp.len() / 2])).collect(); // first half of the repertoire
        let b: Vec<u32> = (0..8).map(|_| *rng.pick(&bmp[bmp.len() / 2..])).collect(); // second half: disjoint from `a`
        let ascii = [0x70u32, 0x72, 0x69, 0x63, 0x65, 0x20, 0x31, 0x32, 0x33, 0x34];
        let mut ov = a.clone();
        ov.extend_from_slice(&b[..3]); // overlaps `b`
        let shapes: Vec<(String, &str)> = vec![
            (format!("g0@{f}:{}/t0@{f}:{}", fmt(&ascii), fmt(&b)), "same-page gfx-then-text disjoint"),
            (format!("t0@{f}:{}/g0@{f}:{}", fmt(&b), fmt(&ascii)), "same-page text-then-gfx disjoint"),
            (format!("g0@{f}:{}/t0@{f}:{}", fmt(&a), fmt(&b)), "same-page disjoint non-ascii"),
            (format!("g0@{f}:{}/t0@{f}:{}", fmt(&ov), fmt(&b)), "same-page overlapping"),
            (format!("t0@{f}:{}/g0@{f}:{}/t0@{f}:{}", fmt(&a), fmt(&ascii), fmt(&b)), "same-page text-gfx-text"),
            (format!("g0@{f}:{}/t1@{f}:{}", fmt(&ascii), fmt(&b)), "two-pages gfx|text"),
            (format!("t0@{f}:{}/g1@{f}:{}", fmt(&b), fmt(&a)), "two-pages text|gfx"),
            (format!("g0@{f}:{}/t0@{f}:{}/g1@{f}:{}/t1@{f}:{}", fmt(&ascii), fmt(&a), fmt(&a), fmt(&b)), "two-pages both-on-both"),
        ];
        for (i, (r, tag)) in shapes.into_iter().enumerate() {
            if thorough || i < 4 || rng.chance(1, 2) {
                v.push(Case::new(format!("emb mix {}", r), format!("{} mix {} nt", f, tag)));
            }
        }
    }
    let nmix = if thorough { 150 } else { 24 };
    let names0: Vec<&str> = reps.keys().copied().collect();
    for _ in 0..nmix {
        if names0.is_empty() {
            break;
        }
        let main = *rng.pick(&names0);
        let nseg = rng.range(2, 4) as usize;
        let two_pages = rng.chance(1, 3);
        let mut segs = vec![];
        for _ in 0..nseg {
            let f = if rng.chance(4, 5) { main } else { *rng.pick(&names0) };
            let rep: Vec<u32> = reps[f].iter().copied().filter(|c| *c <= 0xFFFF).collect();
            let len = rng.range(1, 10) as usize;
            let mut cps: Vec<u32> = (0..len).map(|_| *rng.pick(&rep)).collect();
            while matches!(cps.last(), Some(&0x2D) | Some(&0x2010) | Some(&0x2011) | Some(&0x2012) | Some(&0x2013)) {
                cps.pop();
            }
            if cps.is_empty() {
                cps.push(0x41);
            }
            let a = if rng.chance(1, 2) { 't' } else { 'g' };
            let pg = if two_pages { rng.below(2) } else { 0 };
            segs.push(format!("{}{}@{}:{}", a, pg, f, fmt(&cps)));
        }
        // page numbers must start at 0 without a gap
        if two_pages && !segs.iter().any(|s| s.as_bytes()[1] == b'0') {
            let s0 = segs[0].clone();
            segs[0] = format!("{}0{}", &s0[..1], &s0[2..]);
        }
        v.push(Case::new(format!("emb mix {}", segs.join("/")), format!("random mix segs={} pages={} nt", nseg, if two_pages { 2 } else { 1 })));
    }
    // random strings: 1-3 segments, one or two fonts on the page, repeats
    let n = if thorough { 400 } else { 60 };
    let names: Vec<&str> = reps.keys().copied().collect();
    for _ in 0..n {
        if names.is_empty() {
            break;
        }
        let nseg = rng.range(1, 3) as usize;
        let api = *rng.pick(&apis);
        let mut segs = vec![];
        let mut tags = BTreeSet::new();
        for _ in 0..nseg {
            let f = *rng.pick(&names);
            let rep = &reps[f];
            let rs = runs(rep);
            let len = rng.range(1, 24) as usize;
            let mut cps: Vec<u32> = vec![];
            let mode = rng.below(4);
            while cps.len() < len {
                match mode {
                    0 => cps.push(rng.range(0x21, 0x7E) as u32),
                    1 => {
                        // a short consecutive run from a random block
                        let (a, b) = *rng.pick(&rs);
                        let st = rng.range(a as i64, b as i64) as u32;
                        for c in st..=b.min(st + rng.below(6) as u32) {
                            cps.push(c);
                        }
                    }
                    _ => cps.push(*rng.pick(rep)),
                }
                if rng.chance(1, 5) && !cps.is_empty() {
                    let c = *rng.pick(&cps); // repeat
                    cps.push(c);
                }
                if rng.chance(1, 8) && !cps.is_empty() {
                    cps.push(0x20);
                    cps.push(*rng.pick(rep));
                }
            }
            // the extractor's line assembly (C11's subject) collapses runs of spaces, trims lines and
            // fuses a line-final hyphen with the next line: keep those shapes out of the authored text
            cps.dedup_by(|a, b| *a == 0x20 && *b == 0x20);
            while cps.first() == Some(&0x20) {
                cps.remove(0);
            }
            while matches!(cps.last(), Some(&0x20) | Some(&0x2D) | Some(&0x2010) | Some(&0x2011) | Some(&0x2012) | Some(&0x2013)) {
                cps.pop();
            }
            if cps.is_empty() {
                cps.push(0x41);
            }
            if cps.iter().any(|c| *c > 0xFFFF) {
                tags.insert("astral");
            }
            if cps.iter().any(|c| *c > 0xFF) {
                tags.insert("non-latin1");
            }
            tags.insert(f);
            segs.push(format!("{}:{}", f, fmt(&cps)));
        }
        v.push(Case::new(
            format!("emb {} {}", api, segs.join("/")),
            format!("random {} segs={} {} nt", api, nseg, tags.into_iter().collect::<Vec<_>>().join(" ")),
        ));
    }
    v
}

fn main() {
    // a request takes well under a second; the generous budget only keeps a heavily loaded machine from
    // turning a slow child into a spurious `timeout` answer (this property is not about termination)
    harness_main(gen, run, Limits { per_case: std::time::Duration::from_secs(120), ..Limits::default() });
}
