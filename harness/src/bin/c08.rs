//! C08 — bounded decoding (`PdfStream::decode_with_limit`) against its limit and against
//! `PdfStream::decode`.  Request / answer format: lean/OxiVerif/Drv/C08.lean.
use oxiharness::*;

#[path = "../c07_codecs.rs"]
mod enc;
#[path = "../c08_common.rs"]
mod common;
use common::*;

const MAX_DECOMPRESSED: usize = 256 * 1024 * 1024;

fn run(req: &str) -> String {
    let p: Vec<&str> = req.split(' ').collect();
    if p.len() != 7 || p[0] != "d" {
        return "bad-request".into();
    }
    let Some(stream) = parse_stream(p[1], p[2], p[3]) else { return "bad-request".into() };
    let mut out = vec![format!("U={}", show_full(&call(&stream, None)))];
    if p[5] != "-" {
        for l in p[5].split(',') {
            let Ok(l) = l.parse::<usize>() else { return "bad-request".into() };
            out.push(format!("{}={}", l, show_short(&call(&stream, Some(l)))));
        }
    }
    out.join(" ")
}

// ------------------------------------------------------------------ generator

fn plaintext(rng: &mut Rng, n: usize) -> (Vec<u8>, &'static str) {
    match rng.below(6) {
        0 => (rng.bytes(n), "rand"),
        1 => ((0..n).map(|_| b"ab"[rng.below(2) as usize]).collect(), "ab"),
        2 => (vec![0u8; n], "zeros"),
        3 => ((0..n).map(|i| (i / 7) as u8).collect(), "ramp"),
        4 => {
            let mut v = vec![];
            while v.len() < n {
                let b = rng.next() as u8;
                let k = 1 + rng.below(200) as usize;
                for _ in 0..k {
                    v.push(b);
                }
            }
            v.truncate(n);
            (v, "runs")
        }
        _ => ((0..n).map(|_| b"the quick brown fox \n"[rng.below(21) as usize]).collect(), "text"),
    }
}

fn sprinkle_ws(rng: &mut Rng, s: &[u8]) -> Vec<u8> {
    let ws = [32u8, 9, 10, 12, 13];
    let mut out = vec![];
    for &b in s {
        if rng.chance(1, 6) {
            out.push(*rng.pick(&ws));
        }
        out.push(b);
    }
    out
}

/// A filter stage with its parameter dictionary token and an encoder.
#[derive(Clone)]
struct Stage {
    name: &'static str,
    dict: String, // "0" = no dictionary for this stage
}

/// Encode `plain` for one stage; returns (encoded, dict token, size of the decoder output before
/// the predictor).
fn encode_stage(rng: &mut Rng, name: &str, plain: &[u8], with_pred: bool) -> (Vec<u8>, String, &'static str, usize) {
    match name {
        "Hex" => {
            let mut e = enc::hex_encode(plain, rng.chance(1, 2));
            if rng.chance(1, 4) {
                e.pop();
            }
            (if rng.chance(1, 2) { sprinkle_ws(rng, &e) } else { e }, "0".into(), "", plain.len())
        }
        "A85" => {
            let mut e = enc::a85_encode(plain);
            if rng.chance(1, 3) {
                let mut p = b"<~".to_vec();
                p.extend(e);
                e = p;
            }
            (if rng.chance(1, 2) { sprinkle_ws(rng, &e) } else { e }, "0".into(), "", plain.len())
        }
        "Rl" => {
            let min_run = 2 + rng.below(3) as usize;
            let max_lit = *rng.pick(&[1usize, 2, 7, 128]);
            (enc::rl_encode(plain, min_run, max_lit), "0".into(), "", plain.len())
        }
        _ => {
            // Lzw / Fl, optionally with a predictor
            let mut items: Vec<String> = vec![];
            let mut body = plain.to_vec();
            let mut tag = "";
            if with_pred {
                let pred = *rng.pick(&[1i64, 2, 10, 11, 12, 13, 14, 15]);
                let colors = 1 + rng.below(4) as usize;
                let bpc = *rng.pick(&[1usize, 2, 4, 8, 16]);
                // columns such that the plaintext is a whole number of rows when possible
                let mut columns = 1 + rng.below(64) as usize;
                if !plain.is_empty() && rng.chance(2, 3) {
                    // pick a row size that divides the length
                    for _ in 0..20 {
                        let c = 1 + rng.below(64) as usize;
                        let rb = enc::row_bytes(c, colors, bpc);
                        if rb > 0 && plain.len() % rb == 0 {
                            columns = c;
                            break;
                        }
                    }
                }
                let rb = enc::row_bytes(columns, colors, bpc);
                items.push(format!("P{}", pred));
                if columns != 1 || rng.chance(1, 2) {
                    items.push(format!("C{}", columns));
                }
                if colors != 1 || rng.chance(1, 2) {
                    items.push(format!("K{}", colors));
                }
                if bpc != 8 || rng.chance(1, 2) {
                    items.push(format!("B{}", bpc));
                }
                if pred >= 10 && plain.len() % rb == 0 {
                    let types: Vec<u8> = if pred == 15 {
                        (0..5).map(|_| rng.below(5) as u8).collect()
                    } else {
                        vec![(pred - 10) as u8]
                    };
                    body = enc::png_encode(plain, rb, enc::png_bpp(colors, bpc), &types);
                    tag = "png";
                } else if pred == 2 {
                    // TIFF predictor 2: horizontal differencing per row (a trailing partial row is
                    // left alone by encoder and decoder alike)
                    body = enc::tiff2_encode(plain, columns, colors, bpc);
                    tag = "tiff";
                } else if pred >= 10 {
                    tag = "png-misaligned";
                }
            }
            let e = if name == "Lzw" {
                let early = rng.chance(1, 2);
                if !early || rng.chance(1, 3) {
                    items.push(format!("E{}", if early { 1 } else { 0 }));
                }
                let clear_at = *rng.pick(&[4096usize, 4095, 4094, 0, 600, 1030]);
                enc::lzw_encode(&body, early, clear_at)
            } else {
                use std::io::Write;
                if rng.chance(1, 4) {
                    enc::zlib_stored(&body, 1 + rng.below(70000) as usize)
                } else {
                    let mut z = flate2::write::ZlibEncoder::new(vec![], flate2::Compression::new(rng.below(10) as u32));
                    z.write_all(&body).unwrap();
                    z.finish().unwrap()
                }
            };
            let d = if items.is_empty() { if rng.chance(1, 2) { "0".into() } else { "e".into() } } else { items.join(";") };
            (e, d, tag, body.len())
        }
    }
}

fn limits_for(rng: &mut Rng, sizes: &[usize]) -> String {
    let mut ls: Vec<usize> = vec![0, 1, MAX_DECOMPRESSED, usize::MAX];
    for &n in sizes {
        ls.extend([n.saturating_sub(1), n, n + 1, 2 * n]);
        if n > 4 {
            ls.push(n - 1 - rng.below(n as u64 - 1) as usize);
        }
    }
    ls.sort();
    ls.dedup();
    ls.iter().map(|l| l.to_string()).collect::<Vec<_>>().join(",")
}

fn make_req(filters: &str, parms: &str, data: &[u8], limits: &str, wf: bool) -> String {
    format!("d {} {} {} {} {} {}", filters, parms, hex(data), build_ztab(filters, parms, data), limits, if wf { "wf" } else { "mal" })
}

fn parms_token(dicts: &[String]) -> String {
    if dicts.iter().all(|d| d == "0") {
        "-".into()
    } else if dicts.len() == 1 && dicts[0] != "0" {
        format!("d:{}", dicts[0])
    } else {
        format!("a:{}", dicts.join("|"))
    }
}

/// Well-formed chain: plaintext → encoders applied in reverse filter order.
fn wf_case(rng: &mut Rng, names: &[&'static str], n: usize, with_pred: bool) -> Case {
    let (plain, kind) = plaintext(rng, n);
    let mut cur = plain.clone();
    let mut dicts: Vec<String> = vec![];
    let mut sizes = vec![plain.len()];
    let mut tags = vec![];
    for name in names.iter().rev() {
        let (e, d, tag, body_len) = encode_stage(rng, name, &cur, with_pred && (*name == "Lzw" || *name == "Fl"));
        // size of the buffer the decoder produces before the predictor (one tag byte per PNG row)
        sizes.push(body_len);
        if !tag.is_empty() {
            tags.push(tag);
        }
        dicts.insert(0, d);
        cur = e;
        sizes.push(cur.len());
    }
    let filters = if names.len() == 1 && rng.chance(1, 2) { format!("n:{}", names[0]) } else { format!("a:{}", names.join(",")) };
    let parms = parms_token(&dicts);
    let limits = limits_for(rng, &sizes);
    let wf = !tags.iter().any(|t| *t == "png-misaligned");
    let nt = n > 0;
    Case::new(
        make_req(&filters, &parms, &cur, &limits, wf),
        format!("wf chain{} {} {} {}{}{}", names.len(), names.join("+"), kind, tags.join(" "), if with_pred { " pred" } else { "" }, if nt { " nt" } else { "" }),
    )
}

fn mutate(rng: &mut Rng, v: &mut Vec<u8>) {
    match rng.below(5) {
        0 if !v.is_empty() => {
            let i = rng.below(v.len() as u64) as usize;
            v[i] ^= 1 << rng.below(8);
        }
        1 if !v.is_empty() => {
            let k = rng.below(v.len() as u64) as usize;
            v.truncate(k);
        }
        2 => {
            let k = 1 + rng.below(6) as usize;
            let extra = rng.bytes(k);
            v.extend(extra);
        }
        3 if !v.is_empty() => {
            let i = rng.below(v.len() as u64) as usize;
            v.remove(i);
        }
        _ => {
            let i = rng.below(v.len() as u64 + 1) as usize;
            v.insert(i, rng.next() as u8);
        }
    }
}

const A85_SPECIALS: &[&str] = &[
    "uuuuu~>", "t~>", "u", "s9!!!~>", "s8W-!~>", "s8W-\"~>", "s8W-!", "<~s8W-!~>", "<", "<~", "<~~>", "<x87cURD]~>", "<<~87cURD~>",
    "87cURD]i,\"Ebo80~>", "zz~>", "!z~>", "z!!!!!~>", "!!!!!~>", "~", "~x", "~>junk", "87cUR~", "v~>", "87c\0URD~>", "s8W-!s8W-!s8W-!~>",
    "rr~>", "s8~>", "s8W~>", "s8W-~>", "ts~>", "!!~>", "!~>", "s9~>",
];
const HEX_SPECIALS: &[&str] = &[
    "4>41", "41>", "4>", ">", "", "4", "4g", "g4", "41 42>", "4\01>", "4142>zz", "414>zz", "4 1 4 2 >", "41\x0c42", ">41", "4>>41", "414",
    "FFfe>", "0x41>",
];

fn mal_cases(rng: &mut Rng, cases: &mut Vec<Case>, count: usize) {
    let all = ["Hex", "A85", "Lzw", "Fl", "Rl"];
    for i in 0..count {
        let k = 1 + rng.below(3) as usize;
        let names: Vec<&'static str> = (0..k).map(|_| *rng.pick(&all)).collect();
        // start from a well-formed chain or from noise
        let (bn, bp) = (rng.below(300) as usize, rng.chance(1, 2));
        let base = wf_case(rng, &names, bn, bp);
        let p: Vec<&str> = base.req.split(' ').collect();
        let (filters, mut parms) = (p[1].to_string(), p[2].to_string());
        let mut data = unhex(p[3]).unwrap();
        let style = i % 4;
        match style {
            0 => {
                for _ in 0..1 + rng.below(3) {
                    mutate(rng, &mut data);
                }
            }
            1 => {
                let k = rng.below(80) as usize;
                data = rng.bytes(k)
            }
            2 => {
                // hostile parameters
                let vals = ["0", "-1", "1", "2", "8", "3", "16", "64", "65536", "4294967296", "4294967308", "9223372036854775807", "-9223372036854775808", "2305843009213693952", "r"];
                let mut items = vec![];
                items.push(format!("P{}", rng.pick(&["10", "12", "15", "2", "1", "0", "9", "16", "4294967308", "-1", "r"])));
                for key in ["C", "K", "B", "E"] {
                    if rng.chance(2, 3) {
                        items.push(format!("{}{}", key, rng.pick(&vals)));
                    }
                }
                let d = items.join(";");
                parms = match rng.below(4) {
                    0 => format!("d:{}", d),
                    1 => format!("a:{}", vec![d.as_str(); k].join("|")),
                    2 => format!("a:0|{}", d),
                    _ => format!("a:{}", d),
                };
            }
            _ => {
                parms = match rng.below(5) {
                    0 => "x".into(),
                    1 => "d:P12;C3".into(),
                    2 => "d:e".into(),
                    3 => "a:0".into(),
                    _ => "-".into(),
                };
                mutate(rng, &mut data);
            }
        }
        let n = match call(&parse_stream(&filters, &parms, &hex(&data)).unwrap(), None) {
            Out::Ok(v) => v.len(),
            _ => data.len(),
        };
        let limits = limits_for(rng, &[n, data.len()]);
        cases.push(Case::new(make_req(&filters, &parms, &data, &limits, false), format!("mal style{} chain{} nt", style, k)));
    }
}

fn shape_cases(rng: &mut Rng, cases: &mut Vec<Case>) {
    let data = b"48656c6c6f>".to_vec();
    let lim = "0,1,4,5,6,10,11,12,268435456";
    for (f, p) in [
        ("-", "-"), ("x", "-"), ("a:", "-"), ("a:", "d:P12"), ("a:#", "-"), ("a:Hex,#", "-"), ("a:Bogus", "-"), ("n:Bogus", "-"),
        ("a:Hex,Bogus", "-"), ("a:Bogus,Hex", "-"), ("n:Dct", "-"), ("n:Ccf", "-"), ("n:Jb2", "-"), ("n:Jpx", "-"), ("n:Crypt", "-"),
        ("a:Hex,Jpx", "-"), ("a:Hex,Dct", "-"), ("n:Hex", "x"), ("n:Hex", "d:P12;C2"), ("n:Hex", "d:P2"), ("n:Hex", "d:P12;C5"),
        ("a:Hex,Hex", "d:P1"), ("n:Hex", "a:0|P12"), ("n:Hex", "d:Pr"), ("n:Hex", "d:P12;K-1"), ("n:Hex", "d:P10;C1;B8;K1"),
        ("n:Hex", "a:P10;C1"), ("n:Hex", "d:P15;C4"),
    ] {
        cases.push(Case::new(make_req(f, p, &data, lim, false), "shape nt"));
    }
    // an integer /Predictor in the DecodeParms of a filter that has no predictor (finding F4):
    // PNG-encoded rows behind ASCIIHex / ASCII85 / RunLength
    for f in ["Hex", "A85", "Rl"] {
        for _ in 0..6 {
            let cols = 1 + rng.below(6) as usize;
            let rows = 1 + rng.below(4) as usize;
            let plain = rng.bytes(cols * rows);
            let t = rng.below(5) as u8;
            let body = enc::png_encode(&plain, cols, 1, &[t]);
            let e = match f {
                "Hex" => enc::hex_encode(&body, true),
                "A85" => enc::a85_encode(&body),
                _ => enc::rl_encode(&body, 2, 128),
            };
            let l = limits_for(rng, &[plain.len(), body.len()]);
            cases.push(Case::new(make_req(&format!("n:{}", f), &format!("d:P{};C{}", 10 + t, cols), &e, &l, false), "shape pred-on-other nt"));
        }
    }
    // a filter-less stream and an empty filter array are well-formed streams
    for n in [0usize, 1, 17] {
        let d = rng.bytes(n);
        let l = limits_for(rng, &[n]);
        cases.push(Case::new(make_req("-", "-", &d, &l, true), "shape nofilter nt"));
        cases.push(Case::new(make_req("a:", "-", &d, &l, true), "shape emptyarray nt"));
    }
    for s in A85_SPECIALS {
        let l = "0,1,3,4,5,8,268435456";
        cases.push(Case::new(make_req("n:A85", "-", s.as_bytes(), l, false), "special a85 nt"));
        cases.push(Case::new(make_req("a:A85,A85", "-", s.as_bytes(), l, false), "special a85 nt"));
    }
    for s in HEX_SPECIALS {
        cases.push(Case::new(make_req("n:Hex", "-", s.as_bytes(), "0,1,2,3,268435456", false), "special hex nt"));
    }
    // RunLength specials
    for d in [vec![], vec![128u8], vec![0], vec![0, 65], vec![127], vec![255], vec![255, 7], vec![129, 7, 128], vec![2, 1, 2, 3, 254, 9, 128, 0, 0], vec![0, 1, 128, 128], vec![129, 0, 129, 0, 129, 0]] {
        cases.push(Case::new(make_req("n:Rl", "-", &d, "0,1,2,3,127,128,129,256,257,383,384,385", false), "special rl nt"));
    }
    // LZW specials: clear floods (first code after Clear is not limit-checked), invalid codes,
    // KwKwK, missing EOD, EOD first
    let lz = |codes: &[(u32, u32)]| enc::lzw_pack(codes);
    let specials: Vec<Vec<(u32, u32)>> = vec![
        vec![(256, 9), (65, 9), (256, 9), (66, 9), (256, 9), (67, 9), (257, 9)],
        vec![(65, 9), (257, 9)],
        vec![(65, 9)],
        vec![(257, 9), (65, 9)],
        vec![(256, 9), (65, 9), (258, 9), (259, 9), (257, 9)],
        vec![(256, 9), (65, 9), (259, 9), (257, 9)],
        vec![(256, 9), (258, 9)],
        vec![(256, 9), (65, 9), (66, 9), (258, 9), (260, 9), (257, 9)],
        vec![(256, 9), (300, 9)],
        vec![(65, 9), (400, 9)],
    ];
    for s in &specials {
        let d = lz(s);
        for p in ["-", "d:E0", "d:E1", "d:Er", "d:E-5"] {
            cases.push(Case::new(make_req("n:Lzw", p, &d, "0,1,2,3,4,5,6,7,8,268435456", false), "special lzw nt"));
        }
    }
}

fn lzw_boundary_cases(rng: &mut Rng, cases: &mut Vec<Case>, tier: Tier) {
    // plaintext lengths for which the number of codes since Clear sits around every width switch
    // (random bytes: ~1 code per byte while the table is young) and the full table
    let centers: &[usize] = &[253, 254, 509, 510, 765, 766, 1789, 1790, 3837, 3838, 3839, 3840, 4100];
    let spread: i64 = if tier == Tier::Quick { 1 } else { 6 };
    for &c in centers {
        for d in -spread..=spread {
            let n = (c as i64 + d) as usize;
            for early in [true, false] {
                if tier == Tier::Quick && c > 2000 && d != 0 {
                    continue;
                }
                // high-entropy data (two-byte alphabet would compress; use distinct pairs)
                let plain: Vec<u8> = rng.bytes(n);
                let clear_at = *rng.pick(&[4096usize, 0, 4095]);
                let e = enc::lzw_encode(&plain, early, clear_at);
                let parms = if early { "-".to_string() } else { "d:E0".to_string() };
                let l = limits_for(rng, &[n]);
                cases.push(Case::new(make_req("n:Lzw", &parms, &e, &l, true), format!("wf lzw-boundary ec{} c{} nt", early as u8, c)));
            }
        }
    }
}

fn gen(rng: &mut Rng, tier: Tier) -> Vec<Case> {
    std::panic::set_hook(Box::new(|_| {}));
    let mut cases = vec![];
    shape_cases(rng, &mut cases);
    let all = ["Hex", "A85", "Lzw", "Fl", "Rl"];
    let (n_single, n_chain, n_mal) = if tier == Tier::Quick { (40, 150, 400) } else { (400, 2500, 6000) };
    for f in all {
        for i in 0..n_single {
            let n = match i % 8 {
                0 => 0,
                1 => 1,
                2 => 1 + rng.below(8) as usize,
                7 => rng.below(if tier == Tier::Quick { 3000 } else { 9000 }) as usize,
                _ => rng.below(300) as usize,
            };
            cases.push(wf_case(rng, &[f], n, false));
            if f == "Lzw" || f == "Fl" {
                cases.push(wf_case(rng, &[f], n, true));
            }
        }
    }
    for _ in 0..n_chain {
        let k = 2 + rng.below(2) as usize;
        let names: Vec<&'static str> = (0..k).map(|_| *rng.pick(&all)).collect();
        let n = rng.below(200) as usize;
        let wp = rng.chance(1, 2);
        cases.push(wf_case(rng, &names, n, wp));
    }
    lzw_boundary_cases(rng, &mut cases, tier);
    mal_cases(rng, &mut cases, n_mal);
    cases
}

fn main() {
    harness_main(gen, run, Limits::default());
}
