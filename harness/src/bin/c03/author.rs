//! Authoring-program DSL shared by C03 / C20 / C02 (builder b0320).
//!
//! A program is one token without blanks or TABs:
//!
//!   prog  := meta '!' page ('|' page)*
//!   meta  := '-' | item (';' item)*          item := key '=' hex(utf8)      keys: t a s k c p (Info strings)
//!                                             | 'ol=' n          (outline with n top-level items, item i -> page i mod pages,
//!                                                                 every 2nd item has one child)
//!                                             | 'dt=' n          (creation+modification date = 2001-01-01T00:00:00Z + n s)
//!   page  := op (';' op)*                     first op must be `P`
//!   op    := name (',' arg)*
//!
//! Ops (numbers are decimal tokens with at most 2 fraction digits; `hex` = hex of UTF-8 / raw bytes):
//!   P,w,h                 new page                         R,deg            set_rotation
//!   m,x,y  l,x,y  c,x1,y1,x2,y2,x3,y3  re,x,y,w,h  h  S  f  B  n  W       path ops (GraphicsContext)
//!   q  Q  cm,a,b,c,d,e,f  w,x  J,i  j,i  M,x  d,a,b,ph  ds
//!   rg,r,g,b  RG,r,g,b  g,x  G,x  k,c,m,y,k  K,c,m,y,k
//!   T,font,size,x,y,hex   text().set_font(font#,size).at(x,y).write(text)       font# 0..13 = the 14 standard fonts
//!   I,name,cs,w,h,hex,x,y,dw,dh   add_image(name, raw image cs=g|r) + draw_image(name,x,y,dw,dh)
//!   A,kind,x1,y1,x2,y2,hex        add_annotation(kind t|s|h|l, rect, contents)
//!   F,kind,name,x1,y1,x2,y2       form field kind t (text) | c (checkbox) named `name` with one widget;
//!                                 kind x = `forms::create_checkbox_widget` annotation (two appearance streams)
#![allow(dead_code)]

use oxidize_pdf::annotations::{Annotation, AnnotationType};
use oxidize_pdf::forms::{CheckBox, FormManager, TextField, Widget};
use oxidize_pdf::geometry::{Point, Rectangle};
use oxidize_pdf::graphics::{Color, ColorSpace, Image, LineCap, LineDashPattern, LineJoin};
use oxidize_pdf::structure::{Destination, OutlineBuilder, OutlineItem, PageDestination};
use oxidize_pdf::text::Font;
use oxidize_pdf::writer::{PdfWriter, WriterConfig};
use oxidize_pdf::{Document, Page};
use oxiharness::{hex, unhex, Rng};

#[derive(Clone, Debug)]
pub struct Cfg {
    pub xref_streams: bool,
    pub obj_streams: bool,
    pub compress: bool,
    pub version: String,
}

/// `c|x|o|xo` ':' `z|n` ':' version
pub fn parse_cfg(s: &str) -> Option<Cfg> {
    let p: Vec<&str> = s.split(':').collect();
    if p.len() != 3 {
        return None;
    }
    let (x, o) = match p[0] {
        "c" => (false, false),
        "x" => (true, false),
        "o" => (false, true),
        "xo" => (true, true),
        _ => return None,
    };
    let z = match p[1] {
        "z" => true,
        "n" => false,
        _ => return None,
    };
    if p[2].is_empty() || !p[2].chars().all(|c| c.is_ascii_digit() || c == '.') {
        return None;
    }
    Some(Cfg { xref_streams: x, obj_streams: o, compress: z, version: p[2].to_string() })
}

pub fn show_cfg(c: &Cfg) -> String {
    format!(
        "{}:{}:{}",
        match (c.xref_streams, c.obj_streams) {
            (false, false) => "c",
            (true, false) => "x",
            (false, true) => "o",
            (true, true) => "xo",
        },
        if c.compress { "z" } else { "n" },
        c.version
    )
}

pub const FONTS: [Font; 14] = [
    Font::Helvetica,
    Font::HelveticaBold,
    Font::HelveticaOblique,
    Font::HelveticaBoldOblique,
    Font::TimesRoman,
    Font::TimesBold,
    Font::TimesItalic,
    Font::TimesBoldItalic,
    Font::Courier,
    Font::CourierBold,
    Font::CourierOblique,
    Font::CourierBoldOblique,
    Font::Symbol,
    Font::ZapfDingbats,
];

fn num(s: &str) -> Result<f64, String> {
    s.parse::<f64>().map_err(|_| format!("bad-number {}", s))
}

fn text_of(h: &str) -> Result<String, String> {
    let b = unhex(h).ok_or("bad-hex")?;
    String::from_utf8(b).map_err(|_| "bad-utf8".to_string())
}

fn nargs(a: &[&str], n: usize) -> Result<(), String> {
    if a.len() == n + 1 {
        Ok(())
    } else {
        Err(format!("bad-arity {}", a[0]))
    }
}

pub struct Built {
    pub doc: Document,
    pub pages: usize,
}

pub fn build_doc(prog: &str) -> Result<Built, String> {
    let (meta, pages) = prog.split_once('!').ok_or("no-meta")?;
    let mut doc = Document::new();
    let mut outline_n: Option<usize> = None;
    // fixed clock unless the program says otherwise
    let mut dt: i64 = 0;
    if meta != "-" {
        for item in meta.split(';') {
            let (k, v) = item.split_once('=').ok_or("bad-meta")?;
            match k {
                "t" => doc.set_title(text_of(v)?),
                "a" => doc.set_author(text_of(v)?),
                "s" => doc.set_subject(text_of(v)?),
                "k" => doc.set_keywords(text_of(v)?),
                "c" => doc.set_creator(text_of(v)?),
                "p" => doc.set_producer(text_of(v)?),
                "ol" => outline_n = Some(v.parse().map_err(|_| "bad-ol")?),
                "dt" => dt = v.parse().map_err(|_| "bad-dt")?,
                _ => return Err("bad-meta-key".into()),
            }
        }
    }
    // 2001-01-01T00:00:00Z + dt (the harness crate has no direct chrono dependency: the
    // DateTime<Utc> type is inferred from the setter's signature)
    doc.set_creation_date(epoch_plus((978307200 + dt) as u64));
    doc.set_modification_date(epoch_plus((978307200 + dt) as u64));

    let mut fm: Option<FormManager> = None;
    let mut npages = 0usize;
    for ptxt in pages.split('|') {
        let mut page: Option<Page> = None;
        for optxt in ptxt.split(';') {
            let a: Vec<&str> = optxt.split(',').collect();
            if a[0] == "P" {
                nargs(&a, 2)?;
                if page.is_some() {
                    return Err("second-P".into());
                }
                page = Some(Page::new(num(a[1])?, num(a[2])?));
                continue;
            }
            let pg = page.as_mut().ok_or("op-before-P")?;
            match a[0] {
                "R" => {
                    nargs(&a, 1)?;
                    pg.set_rotation(a[1].parse::<i32>().map_err(|_| "bad-rot")?);
                }
                "m" => {
                    nargs(&a, 2)?;
                    pg.graphics().move_to(num(a[1])?, num(a[2])?);
                }
                "l" => {
                    nargs(&a, 2)?;
                    pg.graphics().line_to(num(a[1])?, num(a[2])?);
                }
                "c" => {
                    nargs(&a, 6)?;
                    pg.graphics().curve_to(num(a[1])?, num(a[2])?, num(a[3])?, num(a[4])?, num(a[5])?, num(a[6])?);
                }
                "re" => {
                    nargs(&a, 4)?;
                    pg.graphics().rect(num(a[1])?, num(a[2])?, num(a[3])?, num(a[4])?);
                }
                "h" => {
                    pg.graphics().close_path();
                }
                "S" => {
                    pg.graphics().stroke();
                }
                "f" => {
                    pg.graphics().fill();
                }
                "B" => {
                    pg.graphics().fill_stroke();
                }
                "n" => {
                    pg.graphics().end_path();
                }
                "W" => {
                    pg.graphics().clip();
                }
                "q" => {
                    pg.graphics().save_state();
                }
                "Q" => {
                    pg.graphics().restore_state();
                }
                "cm" => {
                    nargs(&a, 6)?;
                    pg.graphics().transform(num(a[1])?, num(a[2])?, num(a[3])?, num(a[4])?, num(a[5])?, num(a[6])?);
                }
                "w" => {
                    nargs(&a, 1)?;
                    pg.graphics().set_line_width(num(a[1])?);
                }
                "J" => {
                    nargs(&a, 1)?;
                    pg.graphics().set_line_cap(match a[1] {
                        "0" => LineCap::Butt,
                        "1" => LineCap::Round,
                        "2" => LineCap::Square,
                        _ => return Err("bad-cap".into()),
                    });
                }
                "j" => {
                    nargs(&a, 1)?;
                    pg.graphics().set_line_join(match a[1] {
                        "0" => LineJoin::Miter,
                        "1" => LineJoin::Round,
                        "2" => LineJoin::Bevel,
                        _ => return Err("bad-join".into()),
                    });
                }
                "M" => {
                    nargs(&a, 1)?;
                    pg.graphics().set_miter_limit(num(a[1])?);
                }
                "d" => {
                    nargs(&a, 3)?;
                    pg.graphics().set_line_dash_pattern(LineDashPattern::new(vec![num(a[1])?, num(a[2])?], num(a[3])?));
                }
                "ds" => {
                    pg.graphics().set_line_solid();
                }
                "rg" => {
                    nargs(&a, 3)?;
                    pg.graphics().set_fill_color(Color::Rgb(num(a[1])?, num(a[2])?, num(a[3])?));
                }
                "RG" => {
                    nargs(&a, 3)?;
                    pg.graphics().set_stroke_color(Color::Rgb(num(a[1])?, num(a[2])?, num(a[3])?));
                }
                "g" => {
                    nargs(&a, 1)?;
                    pg.graphics().set_fill_color(Color::Gray(num(a[1])?));
                }
                "G" => {
                    nargs(&a, 1)?;
                    pg.graphics().set_stroke_color(Color::Gray(num(a[1])?));
                }
                "k" => {
                    nargs(&a, 4)?;
                    pg.graphics().set_fill_color(Color::Cmyk(num(a[1])?, num(a[2])?, num(a[3])?, num(a[4])?));
                }
                "K" => {
                    nargs(&a, 4)?;
                    pg.graphics().set_stroke_color(Color::Cmyk(num(a[1])?, num(a[2])?, num(a[3])?, num(a[4])?));
                }
                "T" => {
                    nargs(&a, 5)?;
                    let fi: usize = a[1].parse().map_err(|_| "bad-font")?;
                    let font = FONTS.get(fi).ok_or("bad-font")?.clone();
                    let txt = text_of(a[5])?;
                    pg.text()
                        .set_font(font, num(a[2])?)
                        .at(num(a[3])?, num(a[4])?)
                        .write(&txt)
                        .map_err(|e| format!("text-write {:?}", e))?;
                }
                "I" => {
                    nargs(&a, 9)?;
                    let w: u32 = a[3].parse().map_err(|_| "bad-w")?;
                    let h: u32 = a[4].parse().map_err(|_| "bad-h")?;
                    let data = unhex(a[5]).ok_or("bad-hex")?;
                    let cs = match a[2] {
                        "g" => ColorSpace::DeviceGray,
                        "r" => ColorSpace::DeviceRGB,
                        _ => return Err("bad-cs".into()),
                    };
                    let img = Image::from_raw_data(data, w, h, cs, 8);
                    pg.add_image(a[1], img);
                    pg.draw_image(a[1], num(a[6])?, num(a[7])?, num(a[8])?, num(a[9])?)
                        .map_err(|e| format!("draw-image {:?}", e))?;
                }
                "A" => {
                    nargs(&a, 6)?;
                    let rect = Rectangle::new(Point::new(num(a[2])?, num(a[3])?), Point::new(num(a[4])?, num(a[5])?));
                    let ty = match a[1] {
                        "t" => AnnotationType::Text,
                        "s" => AnnotationType::Square,
                        "h" => AnnotationType::Highlight,
                        "l" => AnnotationType::Link,
                        _ => return Err("bad-annot".into()),
                    };
                    pg.add_annotation(Annotation::new(ty, rect).with_contents(text_of(a[6])?));
                }
                "F" => {
                    nargs(&a, 6)?;
                    let rect = Rectangle::new(Point::new(num(a[3])?, num(a[4])?), Point::new(num(a[5])?, num(a[6])?));
                    if a[1] == "x" {
                        // stand-alone checkbox widget annotation with /AP << /N << /Yes stream /Off stream >> >>
                        let ann = oxidize_pdf::forms::create_checkbox_widget(
                            &CheckBox::new(a[2]),
                            &oxidize_pdf::forms::ButtonWidget::new(rect),
                        )
                        .map_err(|e| format!("checkbox-widget {:?}", e))?;
                        pg.add_annotation(ann);
                        continue;
                    }
                    let widget = Widget::new(rect);
                    let fmr = fm.get_or_insert_with(FormManager::new);
                    let r = match a[1] {
                        "t" => fmr.add_text_field(TextField::new(a[2]), widget.clone(), None),
                        "c" => fmr.add_checkbox(CheckBox::new(a[2]), widget.clone(), None),
                        _ => return Err("bad-field".into()),
                    }
                    .map_err(|e| format!("add-field {:?}", e))?;
                    pg.add_form_widget_with_ref(widget, r).map_err(|e| format!("add-widget {:?}", e))?;
                }
                _ => return Err(format!("bad-op {}", a[0])),
            }
        }
        doc.add_page(page.ok_or("empty-page")?);
        npages += 1;
    }
    if let Some(f) = fm {
        doc.set_form_manager(f);
    }
    if let Some(n) = outline_n {
        let mut b = OutlineBuilder::new();
        for i in 0..n {
            let pgno = (i % npages.max(1)) as u32;
            let mut it = OutlineItem::new(format!("Item {}", i)).with_destination(Destination::fit(PageDestination::PageNumber(pgno)));
            if i % 2 == 1 {
                it.add_child(OutlineItem::new(format!("Child {}", i)).with_destination(Destination::fit(PageDestination::PageNumber(pgno))));
            }
            b.add_item(it);
        }
        doc.set_outline(b.build());
    }
    Ok(Built { doc, pages: npages })
}

fn epoch_plus<T: Default + std::ops::Add<std::time::Duration, Output = T>>(secs: u64) -> T {
    T::default() + std::time::Duration::from_secs(secs)
}

/// Serialise with the REAL writer, bypassing `Document::to_bytes_with_config` only in that the
/// modification date is not reset to "now" (`update_modification_date`), so the clock is fixed.
pub fn write_doc(doc: &mut Document, cfg: &Cfg) -> Result<Vec<u8>, String> {
    let config = WriterConfig {
        use_xref_streams: cfg.xref_streams,
        use_object_streams: cfg.obj_streams,
        pdf_version: cfg.version.clone(),
        compress_streams: cfg.compress,
        incremental_update: false,
    };
    let mut buf = Vec::new();
    {
        let mut w = PdfWriter::with_config(&mut buf, config);
        w.write_document(doc).map_err(|e| format!("write {:?}", e))?;
    }
    Ok(buf)
}

// ------------------------------------------------------------------------------------------
// generator

fn numtok(rng: &mut Rng, lo: i64, hi: i64) -> String {
    // mostly integers, sometimes 1 or 2 fraction digits (never a trailing zero)
    let v = rng.range(lo * 100, hi * 100);
    match rng.below(4) {
        0 | 1 => format!("{}", v / 100),
        2 => {
            let t = v / 10;
            if t % 10 == 0 {
                format!("{}", t / 10)
            } else {
                format!("{}{}.{}", if t < 0 { "-" } else { "" }, t.abs() / 10, t.abs() % 10)
            }
        }
        _ => {
            if v % 100 == 0 {
                format!("{}", v / 100)
            } else if v % 10 == 0 {
                format!("{}{}.{}", if v < 0 { "-" } else { "" }, v.abs() / 100, (v.abs() / 10) % 10)
            } else {
                format!("{}{}.{:02}", if v < 0 { "-" } else { "" }, v.abs() / 100, v.abs() % 100)
            }
        }
    }
}

fn unit(rng: &mut Rng) -> String {
    // colour component in [0,1] with <= 2 fraction digits
    let v = rng.below(101);
    if v == 100 {
        "1".into()
    } else if v == 0 {
        "0".into()
    } else if v % 10 == 0 {
        format!("0.{}", v / 10)
    } else {
        format!("0.{:02}", v)
    }
}

const WORDS: [&str; 12] = [
    "Hello", "World", "(paren)", "back\\slash", "a)b(c", "100%", "<angle>", "[br]", "{cu}", "sl/ash", "x#23y", "two  spaces",
];

pub fn gen_text(rng: &mut Rng) -> String {
    let n = 1 + rng.below(3);
    let mut s = String::new();
    for i in 0..n {
        if i > 0 {
            s.push(' ');
        }
        s.push_str(*rng.pick(&WORDS[..]));
    }
    if rng.chance(1, 6) {
        s.push_str(" caf\u{e9} \u{a9}");
    }
    s
}

pub struct GenOpts {
    pub max_pages: u64,
    pub max_ops: u64,
    pub rich: bool, // annotations, form fields, outlines, images
}

pub fn gen_program(rng: &mut Rng, o: &GenOpts) -> String {
    let mut meta: Vec<String> = vec![];
    for k in ["t", "a", "s", "k", "c", "p"] {
        if rng.chance(1, 3) {
            meta.push(format!("{}={}", k, hex(gen_text(rng).as_bytes())));
        }
    }
    let npages = 1 + rng.below(o.max_pages);
    if o.rich && rng.chance(1, 3) {
        meta.push(format!("ol={}", 1 + rng.below(4)));
    }
    if rng.chance(1, 4) {
        meta.push(format!("dt={}", rng.below(1_000_000)));
    }
    let mut pages = vec![];
    let mut field_no = 0;
    for _ in 0..npages {
        let mut ops: Vec<String> = vec![];
        let (w, h) = match rng.below(5) {
            0 => ("595".to_string(), "842".to_string()),
            1 => ("612".to_string(), "792".to_string()),
            2 => ("842".to_string(), "595".to_string()),
            _ => (numtok(rng, 50, 1500), numtok(rng, 50, 1500)),
        };
        ops.push(format!("P,{},{}", w, h));
        if rng.chance(1, 3) {
            ops.push(format!("R,{}", rng.pick(&[0, 90, 180, 270, 360, -90, 45, 450])));
        }
        let nops = rng.below(o.max_ops + 1);
        let mut img_no = 0;
        for _ in 0..nops {
            let k = rng.below(if o.rich { 30 } else { 26 });
            let op = match k {
                0 => format!("m,{},{}", numtok(rng, -10, 800), numtok(rng, -10, 800)),
                1 => format!("l,{},{}", numtok(rng, -10, 800), numtok(rng, -10, 800)),
                2 => format!(
                    "c,{},{},{},{},{},{}",
                    numtok(rng, 0, 600),
                    numtok(rng, 0, 600),
                    numtok(rng, 0, 600),
                    numtok(rng, 0, 600),
                    numtok(rng, 0, 600),
                    numtok(rng, 0, 600)
                ),
                3 => format!("re,{},{},{},{}", numtok(rng, 0, 500), numtok(rng, 0, 500), numtok(rng, 1, 300), numtok(rng, 1, 300)),
                4 => "h".into(),
                5 => "S".into(),
                6 => "f".into(),
                7 => "B".into(),
                8 => "q".into(),
                9 => "Q".into(),
                10 => format!(
                    "cm,{},{},{},{},{},{}",
                    numtok(rng, -2, 2),
                    numtok(rng, -2, 2),
                    numtok(rng, -2, 2),
                    numtok(rng, -2, 2),
                    numtok(rng, -100, 100),
                    numtok(rng, -100, 100)
                ),
                11 => format!("w,{}", numtok(rng, 0, 20)),
                12 => format!("J,{}", rng.below(3)),
                13 => format!("j,{}", rng.below(3)),
                14 => format!("M,{}", numtok(rng, 1, 20)),
                15 => format!("d,{},{},{}", numtok(rng, 1, 9), numtok(rng, 1, 9), numtok(rng, 0, 5)),
                16 => format!("rg,{},{},{}", unit(rng), unit(rng), unit(rng)),
                17 => format!("RG,{},{},{}", unit(rng), unit(rng), unit(rng)),
                18 => format!("g,{}", unit(rng)),
                19 => format!("G,{}", unit(rng)),
                20 => format!("k,{},{},{},{}", unit(rng), unit(rng), unit(rng), unit(rng)),
                21 => format!("K,{},{},{},{}", unit(rng), unit(rng), unit(rng), unit(rng)),
                22 | 23 | 24 => format!(
                    "T,{},{},{},{},{}",
                    rng.below(14),
                    numtok(rng, 4, 48),
                    numtok(rng, 0, 500),
                    numtok(rng, 0, 800),
                    hex(gen_text(rng).as_bytes())
                ),
                25 => {
                    if rng.chance(1, 2) {
                        "n".into()
                    } else {
                        "W".into()
                    }
                }
                26 => {
                    let cs = if rng.chance(1, 2) { "g" } else { "r" };
                    let (iw, ih) = (1 + rng.below(4), 1 + rng.below(4));
                    let n = (iw * ih * if cs == "g" { 1 } else { 3 }) as usize;
                    img_no += 1;
                    format!(
                        "I,Im{},{},{},{},{},{},{},{},{}",
                        img_no,
                        cs,
                        iw,
                        ih,
                        hex(&rng.bytes(n)),
                        numtok(rng, 0, 400),
                        numtok(rng, 0, 400),
                        numtok(rng, 1, 200),
                        numtok(rng, 1, 200)
                    )
                }
                27 | 28 => format!(
                    "A,{},{},{},{},{},{}",
                    rng.pick(&["t", "s", "h", "l"]),
                    numtok(rng, 0, 300),
                    numtok(rng, 0, 300),
                    numtok(rng, 300, 600),
                    numtok(rng, 300, 600),
                    hex(gen_text(rng).as_bytes())
                ),
                _ => {
                    field_no += 1;
                    format!(
                        "F,{},fld{},{},{},{},{}",
                        rng.pick(&["t", "c"]),
                        field_no,
                        numtok(rng, 0, 300),
                        numtok(rng, 0, 300),
                        numtok(rng, 300, 600),
                        numtok(rng, 300, 600)
                    )
                }
            };
            ops.push(op);
        }
        pages.push(ops.join(";"));
    }
    format!("{}!{}", if meta.is_empty() { "-".to_string() } else { meta.join(";") }, pages.join("|"))
}
