//! C03 — written files are structurally valid PDF.
//!
//! Requests
//!   `doc <cfg> <program>`       write the program's document with the REAL writer under <cfg>,
//!                               scan the real bytes with the independent strict scanner
//!                               (scan.rs) and answer the extracted FACTS (see `facts`).
//!   `xrefenc <entries>`         function level: `XRefStreamWriter::{add_*,encode_entries,
//!                               create_dictionary}`; entries `f<a>:<g>,n<off>:<g>,c<stm>:<idx>`
//!                               answer: `W=a/b/c size=<n> flt=<0|1> data=<hex>`
//!   `objstm <id>:<hex>,…`       function level: `ObjectStream::{add_object,generate_stream_data,
//!                               generate_dictionary}`; answer `N=<n> First=<f> data=<hex of the inflated data>`
mod author;
mod scan;

use author::*;
use oxiharness::*;
use scan::*;

fn show_entry(e: &XEntry) -> String {
    match e {
        XEntry::Free(a, g) => format!("f{}:{}", a, g),
        XEntry::InUse(a, g) => format!("n{}:{}", a, g),
        XEntry::Compressed(a, g) => format!("c{}:{}", a, g),
    }
}

fn rle(items: &[&XEntry]) -> String {
    let mut out: Vec<String> = vec![];
    let mut i = 0;
    while i < items.len() {
        let mut j = i;
        while j + 1 < items.len() && items[j + 1] == items[i] {
            j += 1;
        }
        let n = j - i + 1;
        if n > 1 {
            out.push(format!("{}*{}", show_entry(items[i]), n));
        } else {
            out.push(show_entry(items[i]));
        }
        i = j + 1;
    }
    if out.is_empty() {
        "-".into()
    } else {
        out.join(",")
    }
}

fn show_ref(v: Option<&Val>) -> String {
    match v {
        Some(Val::Ref(n, g)) => format!("{}.{}", n, g),
        Some(_) => "direct".into(),
        None => "-".into(),
    }
}

fn lib_strict_open(bytes: &[u8]) -> String {
    use oxidize_pdf::parser::{ParseOptions, PdfReader};
    let r = PdfReader::new_with_options(std::io::Cursor::new(bytes.to_vec()), ParseOptions::strict());
    match r {
        Err(e) => format!("err:open:{}", classify(&format!("{:?}", e))),
        Ok(mut rd) => {
            if let Err(e) = rd.catalog() {
                return format!("err:catalog:{}", classify(&format!("{:?}", e)));
            }
            match rd.page_count() {
                Ok(n) => format!("ok:{}", n),
                Err(e) => format!("err:pages:{}", classify(&format!("{:?}", e))),
            }
        }
    }
}

fn classify(s: &str) -> String {
    let t: String = s.chars().take_while(|c| c.is_ascii_alphanumeric()).collect();
    if t.is_empty() {
        "other".into()
    } else {
        t
    }
}

/// FACTS of a file, one line:
///   ok ver=<v> hl=<header length> objs=<num>.<gen>@<off>+<end-off>[s<declared /Length>],…
///      xk=c|s xo=<xref offset> [sid=<id> W=a/b/c idx=f/c[/f/c…] flt=0|1 rl=<raw> dl=<decoded>]
///      ents=<RLE of entries from object 0: f<next>:<gen> n<off>:<gen> c<stm>:<idx>, `*k` = k times> contig=0|1
///      size=<n> root=<n.g> info=<n.g> tkeys=<sorted keys> sx=<offset of `startxref`> eof=<offset of %%EOF> len=<n>
///      stm=<id>:<N>:<First>:<decoded length>:<num>/<off>+…;…|-  unres=<n.g of references that do not resolve>|-  cat=<0|1>  lib=<ok:pages|err:…>
fn facts(bytes: &[u8]) -> String {
    let t0 = std::time::Instant::now();
    let sc = scan(bytes);
    if std::env::var("C03_TIMING").is_ok() {
        eprintln!("scan {:?}", t0.elapsed());
        let t1 = std::time::Instant::now();
        let _ = lib_strict_open(bytes);
        eprintln!("lib {:?}", t1.elapsed());
    }
    let s = match sc {
        Ok(s) => s,
        Err(m) => return format!("scanerr:{} len={} lib={}", m.replace(' ', "_"), bytes.len(), lib_strict_open(bytes)),
    };
    let mut f = vec!["ok".to_string()];
    f.push(format!("ver={}", s.version));
    f.push(format!("hl={}", s.header_len));
    let objs: Vec<String> = s
        .objects
        .iter()
        .map(|o| {
            format!(
                "{}.{}@{}+{}{}",
                o.num,
                o.gen,
                o.off,
                o.end - o.off,
                match o.stream {
                    Some((_, l)) => format!("s{}", l),
                    None => String::new(),
                }
            )
        })
        .collect();
    f.push(format!("objs={}", if objs.is_empty() { "-".into() } else { objs.join(",") }));
    match &s.xref_kind {
        XrefKind::Classic => {
            f.push("xk=c".into());
            f.push(format!("xo={}", s.xref_off));
        }
        XrefKind::Stream { id, w, index, filter, raw_len, decoded_len } => {
            f.push("xk=s".into());
            f.push(format!("xo={}", s.xref_off));
            f.push(format!("sid={}", id));
            f.push(format!("W={}/{}/{}", w[0], w[1], w[2]));
            f.push(format!("idx={}", index.iter().map(|(a, b)| format!("{}/{}", a, b)).collect::<Vec<_>>().join("/")));
            f.push(format!("flt={}", if *filter { 1 } else { 0 }));
            f.push(format!("rl={}", raw_len));
            f.push(format!("dl={}", decoded_len));
        }
    }
    let mut contig = true;
    let mut items = vec![];
    for (k, (n, e)) in s.entries.iter().enumerate() {
        if *n != k as u64 {
            contig = false;
        }
        items.push(e);
    }
    f.push(format!("ents={}", rle(&items)));
    f.push(format!("contig={}", if contig { 1 } else { 0 }));
    f.push(format!(
        "size={}",
        match s.trailer.get("Size") {
            Some(Val::Int(n)) => n.to_string(),
            _ => "-".into(),
        }
    ));
    f.push(format!("root={}", show_ref(s.trailer.get("Root"))));
    f.push(format!("info={}", show_ref(s.trailer.get("Info"))));
    let mut keys: Vec<String> = match &s.trailer {
        Val::Dict(d) => d.iter().map(|(k, _)| String::from_utf8_lossy(k).to_string()).collect(),
        _ => vec![],
    };
    keys.sort();
    f.push(format!("tkeys={}", keys.join(",")));
    f.push(format!("sx={}", s.startxref_kw_off));
    f.push(format!("eof={}", s.eof_off));
    f.push(format!("len={}", s.file_len));
    let stm: Vec<String> = s
        .objstms
        .iter()
        .map(|st| {
            format!(
                "{}:{}:{}:{}:{}",
                st.id,
                st.n,
                st.first,
                st.decoded_len,
                st.members.iter().map(|(n, o, _)| format!("{}/{}", n, o)).collect::<Vec<_>>().join("+")
            )
        })
        .collect();
    f.push(format!("stm={}", if stm.is_empty() { "-".into() } else { stm.join(";") }));
    // every indirect reference must resolve through the cross-reference data
    let mut refs = vec![];
    s.trailer.refs(&mut refs);
    for o in &s.objects {
        o.val.refs(&mut refs);
    }
    for st in &s.objstms {
        for (_, _, v) in &st.members {
            v.refs(&mut refs);
        }
    }
    refs.sort();
    refs.dedup();
    let unres: Vec<String> = refs.iter().filter(|(n, g)| s.resolve(*n, *g).is_err()).map(|(n, g)| format!("{}.{}", n, g)).collect();
    f.push(format!("nrefs={}", refs.len()));
    f.push(format!("unres={}", if unres.is_empty() { "-".into() } else { unres[..unres.len().min(6)].join(",") }));
    let cat = match s.trailer.get("Root") {
        Some(Val::Ref(n, g)) => match s.resolve(*n, *g) {
            Ok(v) => v.get("Type").and_then(|t| t.as_name()) == Some(b"Catalog"),
            Err(_) => false,
        },
        _ => false,
    };
    f.push(format!("cat={}", if cat { 1 } else { 0 }));
    f.push(format!("lib={}", lib_strict_open(bytes)));
    f.join(" ")
}

fn run_doc(cfg: &str, prog: &str) -> String {
    let cfg = match parse_cfg(cfg) {
        Some(c) => c,
        None => return "bad-request".into(),
    };
    let mut built = match build_doc(prog) {
        Ok(b) => b,
        Err(m) => return format!("builderr:{}", m.replace(' ', "_")),
    };
    let t0 = std::time::Instant::now();
    let bytes = match write_doc(&mut built.doc, &cfg) {
        Ok(b) => b,
        Err(m) => return format!("writeerr:{}", classify(&m)),
    };
    if let Ok(dir) = std::env::var("C03_DUMP") {
        let _ = std::fs::write(format!("{}/dump-{}.pdf", dir, show_cfg(&cfg).replace(':', "_")), &bytes);
    }
    let t1 = t0.elapsed();
    let r = facts(&bytes);
    if std::env::var("C03_TIMING").is_ok() {
        eprintln!("write {:?} facts {:?}", t1, t0.elapsed() - t1);
    }
    r
}

fn run_xrefenc(spec: &str) -> String {
    use oxidize_pdf::objects::ObjectId;
    use oxidize_pdf::writer::XRefStreamWriter;
    let mut w = XRefStreamWriter::new(ObjectId::new(1, 0));
    if spec != "-" {
        for t in spec.split(',') {
            let (a, b) = match t[1..].split_once(':') {
                Some(x) => x,
                None => return "bad-request".into(),
            };
            let (a, b): (u64, u64) = match (a.parse(), b.parse()) {
                (Ok(a), Ok(b)) => (a, b),
                _ => return "bad-request".into(),
            };
            match &t[..1] {
                "f" => w.add_free_entry(a as u32, b as u16),
                "n" => w.add_in_use_entry(a, b as u16),
                "c" => w.add_compressed_entry(a as u32, b as u32),
                _ => return "bad-request".into(),
            }
        }
    }
    let data = w.encode_entries();
    let d = w.create_dictionary(None);
    use oxidize_pdf::objects::Object;
    let wv = match d.get("W") {
        Some(Object::Array(a)) => a
            .iter()
            .map(|o| match o {
                Object::Integer(i) => i.to_string(),
                _ => "?".into(),
            })
            .collect::<Vec<_>>()
            .join("/"),
        _ => "?".into(),
    };
    let size = match d.get("Size") {
        Some(Object::Integer(i)) => i.to_string(),
        _ => "?".into(),
    };
    let idx = match d.get("Index") {
        Some(Object::Array(a)) => a
            .iter()
            .map(|o| match o {
                Object::Integer(i) => i.to_string(),
                _ => "?".into(),
            })
            .collect::<Vec<_>>()
            .join("/"),
        _ => "?".into(),
    };
    format!("W={} size={} idx={} flt={} data={}", wv, size, idx, if d.get("Filter").is_some() { 1 } else { 0 }, hex(&data))
}

fn run_objstm(spec: &str) -> String {
    use oxidize_pdf::objects::{Object, ObjectId};
    use oxidize_pdf::writer::ObjectStream;
    let mut st = ObjectStream::new(ObjectId::new(1_000_000, 0));
    if spec != "-" {
        for t in spec.split(',') {
            let (a, b) = match t.split_once(':') {
                Some(x) => x,
                None => return "bad-request".into(),
            };
            let (id, data) = match (a.parse::<u32>(), unhex(b)) {
                (Ok(a), Some(b)) => (a, b),
                _ => return "bad-request".into(),
            };
            st.add_object(ObjectId::new(id, 0), data);
        }
    }
    let z = match st.generate_stream_data(6) {
        Ok(z) => z,
        Err(_) => return "err:empty".into(),
    };
    let d = st.generate_dictionary(&z);
    let geti = |k: &str| match d.get(k) {
        Some(Object::Integer(i)) => i.to_string(),
        _ => "?".into(),
    };
    let raw = match inflate_strict(&z) {
        Ok(r) => r,
        Err(m) => return format!("err:{}", m),
    };
    format!("N={} First={} lenok={} data={}", geti("N"), geti("First"), if geti("Length") == z.len().to_string() { 1 } else { 0 }, hex(&raw))
}

fn run(req: &str) -> String {
    let p: Vec<&str> = req.split(' ').collect();
    match p.as_slice() {
        ["doc", cfg, prog] => run_doc(cfg, prog),
        ["xrefenc", spec] => run_xrefenc(spec),
        ["objstm", spec] => run_objstm(spec),
        _ => "bad-request".into(),
    }
}

const CFGS: [&str; 12] = [
    "c:z:1.7", "c:n:1.7", "x:z:1.5", "x:n:1.5", "xo:z:1.5", "xo:n:1.5", "o:z:1.5", "o:n:1.7", "c:z:1.4", "c:n:2.0", "x:z:1.7", "c:z:1.3",
];

fn gen(rng: &mut Rng, tier: Tier) -> Vec<Case> {
    let mut cases = vec![];
    let (ndocs, nfn) = match tier {
        Tier::Quick => (60, 300),
        Tier::Thorough => (1500, 6000),
    };
    // ---- documents x configurations
    for d in 0..ndocs {
        let rich = d % 3 != 0;
        let o = GenOpts { max_pages: if d % 10 == 0 { 12 } else { 4 }, max_ops: if d % 7 == 0 { 60 } else { 14 }, rich };
        let prog = gen_program(rng, &o);
        let nt = prog.contains(';');
        for (ci, cfg) in CFGS.iter().enumerate() {
            // object-stream configurations produce a 10^6-entry cross-reference section
            // (object stream ids start at 1 000 000): 6-20 MB files, keep them few
            let heavy = cfg.starts_with("o:") || cfg.starts_with("xo:");
            if heavy {
                // a handful of fixed document indices per heavy configuration
                let want: &[usize] = match (*cfg, tier) {
                    ("xo:z:1.5", Tier::Quick) => &[7],
                    ("xo:z:1.5", Tier::Thorough) => &[1, 7, 20, 33, 50, 77, 100, 140, 201, 333, 500, 700, 900, 1100, 1300],
                    ("xo:n:1.5", Tier::Quick) => &[2],
                    ("xo:n:1.5", Tier::Thorough) => &[2, 40, 400],
                    ("o:z:1.5", Tier::Quick) => &[],
                    ("o:z:1.5", Tier::Thorough) => &[4, 60, 600],
                    ("o:n:1.7", Tier::Quick) => &[],
                    ("o:n:1.7", Tier::Thorough) => &[5, 70],
                    _ => &[],
                };
                if !want.contains(&d) {
                    continue;
                }
            }
            if ci >= 8 && d % 4 != 0 {
                continue;
            }
            let kind = cfg.split(':').next().unwrap();
            cases.push(Case::new(
                format!("doc {} {}", cfg, prog),
                format!("doc cfg-{} {} {}", kind, if cfg.contains(":z:") { "z" } else { "n" }, if nt { "nt" } else { "" }),
            ));
        }
    }
    // ---- function level: xref stream encoding, boundary values in every slot
    let bound: [u64; 18] = [
        0, 1, 254, 255, 256, 257, 65534, 65535, 65536, 65537, 16777215, 16777216, 16777217, 4294967295, 4294967296, 1099511627775, 1099511627776,
        72057594037927935,
    ];
    for k in 0..nfn {
        let n = 1 + rng.below(if k % 10 == 0 { 40 } else { 6 });
        let mut es = vec![];
        for _ in 0..n {
            let pickv = |rng: &mut Rng, max: u64| -> u64 {
                let v = if rng.chance(2, 3) { *rng.pick(&bound) } else { rng.next() >> rng.below(64) };
                v.min(max)
            };
            es.push(match rng.below(3) {
                // `add_free_entry` never widens /W (see C03-F4): keep `next` below 2^24 here,
                // larger values only in the dedicated requests below
                0 => format!("f{}:{}", pickv(rng, 16777215), pickv(rng, 65535)),
                1 => format!("n{}:{}", pickv(rng, u64::MAX >> 1), pickv(rng, 65535)),
                _ => format!("c{}:{}", pickv(rng, u32::MAX as u64), pickv(rng, u32::MAX as u64)),
            });
        }
        cases.push(Case::new(format!("xrefenc {}", es.join(",")), "xrefenc nt"));
    }
    cases.push(Case::new("xrefenc -", "xrefenc"));
    for v in [16777216u64, 16777217, 4294967295] {
        cases.push(Case::new(format!("xrefenc f{}:0", v), "xrefenc free-wide nt"));
        cases.push(Case::new(format!("xrefenc f{}:7,n{}:0", v, 1 + rng.below(1000)), "xrefenc free-wide nt"));
    }
    // ---- function level: object stream packing
    for k in 0..nfn / 2 {
        let n = if k % 25 == 0 { 100 + rng.below(3) } else { 1 + rng.below(8) };
        let mut os = vec![];
        let mut id = 1 + rng.below(5);
        for _ in 0..n {
            let len = rng.below(if k % 9 == 0 { 120 } else { 12 }) as usize;
            let data: Vec<u8> = (0..len).map(|_| *rng.pick(b"<>/ abcXYZ012[]()\n")).collect();
            os.push(format!("{}:{}", id, hex(&data)));
            id += 1 + rng.below(if k % 5 == 0 { 100000 } else { 3 });
        }
        cases.push(Case::new(format!("objstm {}", os.join(",")), "objstm nt"));
    }
    cases.push(Case::new("objstm -", "objstm"));
    cases
}

fn main() {
    harness_main(gen, run, Limits { per_case: std::time::Duration::from_secs(60), ..Limits::default() });
}
