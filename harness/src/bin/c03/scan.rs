//! Independent STRICT scanner of a PDF file, written from ISO 32000-1 §7.2, §7.3, §7.5
//! (builder b0320; shared by C03 / C20 / C02).  No recovery of any kind: anything that is not
//! exactly what the standard describes is an error `Err(class)`.
//!
//! It does not share code with /repo (only `flate2` for RFC 1950 inflate).
#![allow(dead_code)]

use std::collections::BTreeMap;

#[derive(Clone, Debug, PartialEq)]
pub enum Val {
    Null,
    Bool(bool),
    Int(i64),
    /// the token as written
    Real(String),
    Str(Vec<u8>),
    Name(Vec<u8>),
    Arr(Vec<Val>),
    Dict(Vec<(Vec<u8>, Val)>),
    Ref(u32, u32),
}

impl Val {
    pub fn get(&self, key: &str) -> Option<&Val> {
        match self {
            Val::Dict(d) => d.iter().find(|(k, _)| k.as_slice() == key.as_bytes()).map(|(_, v)| v),
            _ => None,
        }
    }
    pub fn as_int(&self) -> Option<i64> {
        match self {
            Val::Int(i) => Some(*i),
            _ => None,
        }
    }
    pub fn as_name(&self) -> Option<&[u8]> {
        match self {
            Val::Name(n) => Some(n),
            _ => None,
        }
    }
    pub fn refs(&self, out: &mut Vec<(u32, u32)>) {
        match self {
            Val::Ref(n, g) => out.push((*n, *g)),
            Val::Arr(a) => a.iter().for_each(|v| v.refs(out)),
            Val::Dict(d) => d.iter().for_each(|(_, v)| v.refs(out)),
            _ => {}
        }
    }
}

pub type R<T> = Result<T, String>;

fn e<T>(s: &str) -> R<T> {
    Err(s.to_string())
}

pub fn is_ws(b: u8) -> bool {
    matches!(b, 0 | 9 | 10 | 12 | 13 | 32)
}
pub fn is_delim(b: u8) -> bool {
    matches!(b, b'(' | b')' | b'<' | b'>' | b'[' | b']' | b'{' | b'}' | b'/' | b'%')
}
fn is_regular(b: u8) -> bool {
    !is_ws(b) && !is_delim(b)
}

pub struct P<'a> {
    pub b: &'a [u8],
    pub i: usize,
    depth: usize,
}

impl<'a> P<'a> {
    pub fn new(b: &'a [u8], i: usize) -> Self {
        P { b, i, depth: 0 }
    }
    fn peek(&self) -> Option<u8> {
        self.b.get(self.i).copied()
    }
    /// white space and comments (§7.2.3, §7.2.4)
    pub fn skip_ws(&mut self) {
        while let Some(c) = self.peek() {
            if is_ws(c) {
                self.i += 1;
            } else if c == b'%' {
                while let Some(c) = self.peek() {
                    if c == 10 || c == 13 {
                        break;
                    }
                    self.i += 1;
                }
            } else {
                break;
            }
        }
    }
    fn regular_run(&mut self) -> &'a [u8] {
        let s = self.i;
        while let Some(c) = self.peek() {
            if is_regular(c) {
                self.i += 1;
            } else {
                break;
            }
        }
        &self.b[s..self.i]
    }
    pub fn keyword(&mut self, kw: &str) -> R<()> {
        self.skip_ws();
        let s = self.i;
        let t = self.regular_run();
        if t == kw.as_bytes() {
            Ok(())
        } else {
            self.i = s;
            Err(format!("expected-{}", kw))
        }
    }
    /// unsigned decimal integer token (object numbers, generation numbers, offsets)
    pub fn uint(&mut self) -> R<u64> {
        self.skip_ws();
        let s = self.i;
        let t = self.regular_run();
        if t.is_empty() || t.len() > 19 || !t.iter().all(|c| c.is_ascii_digit()) {
            self.i = s;
            return e("expected-unsigned-integer");
        }
        Ok(std::str::from_utf8(t).unwrap().parse::<u64>().unwrap())
    }

    fn number(t: &[u8]) -> Option<Val> {
        // §7.3.3: optional sign, digits, optional '.', digits; at least one digit
        let (sign, rest) = match t.first() {
            Some(b'+') | Some(b'-') => (1, &t[1..]),
            _ => (0, t),
        };
        if rest.is_empty() {
            return None;
        }
        let dots = rest.iter().filter(|c| **c == b'.').count();
        if dots > 1 || !rest.iter().all(|c| c.is_ascii_digit() || *c == b'.') || rest.iter().all(|c| *c == b'.') {
            return None;
        }
        let s = std::str::from_utf8(t).ok()?;
        if dots == 0 {
            let _ = sign;
            s.parse::<i64>().ok().map(Val::Int)
        } else {
            Some(Val::Real(s.to_string()))
        }
    }

    fn name(&mut self) -> R<Vec<u8>> {
        // at '/'
        self.i += 1;
        let raw = self.regular_run();
        let mut out = Vec::with_capacity(raw.len());
        let mut k = 0;
        while k < raw.len() {
            if raw[k] == b'#' {
                let h = |c: u8| (c as char).to_digit(16);
                match (raw.get(k + 1).and_then(|c| h(*c)), raw.get(k + 2).and_then(|c| h(*c))) {
                    (Some(a), Some(b)) => {
                        let v = (a * 16 + b) as u8;
                        if v == 0 {
                            return e("name-nul");
                        }
                        out.push(v);
                        k += 3;
                    }
                    _ => return e("name-bad-escape"),
                }
            } else {
                out.push(raw[k]);
                k += 1;
            }
        }
        Ok(out)
    }

    fn literal_string(&mut self) -> R<Vec<u8>> {
        // at '('
        self.i += 1;
        let mut depth = 1;
        let mut out = vec![];
        loop {
            let c = match self.peek() {
                Some(c) => c,
                None => return e("string-unterminated"),
            };
            self.i += 1;
            match c {
                b'(' => {
                    depth += 1;
                    out.push(c);
                }
                b')' => {
                    depth -= 1;
                    if depth == 0 {
                        return Ok(out);
                    }
                    out.push(c);
                }
                b'\\' => {
                    let d = match self.peek() {
                        Some(d) => d,
                        None => return e("string-unterminated"),
                    };
                    self.i += 1;
                    match d {
                        b'n' => out.push(10),
                        b'r' => out.push(13),
                        b't' => out.push(9),
                        b'b' => out.push(8),
                        b'f' => out.push(12),
                        b'(' | b')' | b'\\' => out.push(d),
                        b'0'..=b'7' => {
                            let mut v = (d - b'0') as u32;
                            for _ in 0..2 {
                                match self.peek() {
                                    Some(x @ b'0'..=b'7') => {
                                        v = v * 8 + (x - b'0') as u32;
                                        self.i += 1;
                                    }
                                    _ => break,
                                }
                            }
                            out.push(v as u8);
                        }
                        13 => {
                            if self.peek() == Some(10) {
                                self.i += 1;
                            }
                        }
                        10 => {}
                        // §7.3.4.2: "if the character following the REVERSE SOLIDUS is not one of
                        // those shown in Table 3, the REVERSE SOLIDUS shall be ignored"
                        other => out.push(other),
                    }
                }
                13 => {
                    if self.peek() == Some(10) {
                        self.i += 1;
                    }
                    out.push(10);
                }
                _ => out.push(c),
            }
        }
    }

    fn hex_string(&mut self) -> R<Vec<u8>> {
        // at '<' (not '<<')
        self.i += 1;
        let mut digs = vec![];
        loop {
            let c = match self.peek() {
                Some(c) => c,
                None => return e("hexstring-unterminated"),
            };
            self.i += 1;
            if c == b'>' {
                break;
            }
            if is_ws(c) {
                continue;
            }
            match (c as char).to_digit(16) {
                Some(d) => digs.push(d as u8),
                None => return e("hexstring-bad-digit"),
            }
        }
        if digs.len() % 2 == 1 {
            digs.push(0);
        }
        Ok(digs.chunks(2).map(|p| p[0] * 16 + p[1]).collect())
    }

    /// one object (§7.3); `N G R` recognised by look-ahead
    pub fn value(&mut self) -> R<Val> {
        self.skip_ws();
        self.depth += 1;
        if self.depth > 200 {
            return e("nesting-too-deep");
        }
        let r = self.value_inner();
        self.depth -= 1;
        r
    }

    fn value_inner(&mut self) -> R<Val> {
        let c = match self.peek() {
            Some(c) => c,
            None => return e("unexpected-eof"),
        };
        match c {
            b'/' => Ok(Val::Name(self.name()?)),
            b'(' => Ok(Val::Str(self.literal_string()?)),
            b'<' => {
                if self.b.get(self.i + 1) == Some(&b'<') {
                    self.i += 2;
                    let mut d: Vec<(Vec<u8>, Val)> = vec![];
                    loop {
                        self.skip_ws();
                        match self.peek() {
                            Some(b'>') => {
                                if self.b.get(self.i + 1) == Some(&b'>') {
                                    self.i += 2;
                                    return Ok(Val::Dict(d));
                                }
                                return e("dict-bad-close");
                            }
                            Some(b'/') => {
                                let k = self.name()?;
                                if d.iter().any(|(k2, _)| *k2 == k) {
                                    return e("dict-duplicate-key");
                                }
                                let v = self.value()?;
                                d.push((k, v));
                            }
                            Some(_) => return e("dict-key-not-a-name"),
                            None => return e("dict-unterminated"),
                        }
                    }
                } else {
                    Ok(Val::Str(self.hex_string()?))
                }
            }
            b'[' => {
                self.i += 1;
                let mut a = vec![];
                loop {
                    self.skip_ws();
                    match self.peek() {
                        Some(b']') => {
                            self.i += 1;
                            return Ok(Val::Arr(a));
                        }
                        None => return e("array-unterminated"),
                        _ => a.push(self.value()?),
                    }
                }
            }
            b')' | b'>' | b']' | b'{' | b'}' => e("unexpected-delimiter"),
            _ => {
                let s = self.i;
                let t = self.regular_run();
                match t {
                    b"true" => return Ok(Val::Bool(true)),
                    b"false" => return Ok(Val::Bool(false)),
                    b"null" => return Ok(Val::Null),
                    _ => {}
                }
                match Self::number(t) {
                    Some(Val::Int(n)) if n >= 0 && t[0].is_ascii_digit() => {
                        // look ahead for `G R`
                        let save = self.i;
                        if let Ok(g) = self.uint() {
                            self.skip_ws();
                            let s2 = self.i;
                            let t2 = self.regular_run();
                            if t2 == b"R" && g <= 65535 && n <= u32::MAX as i64 {
                                return Ok(Val::Ref(n as u32, g as u32));
                            }
                            let _ = s2;
                        }
                        self.i = save;
                        Ok(Val::Int(n))
                    }
                    Some(v) => Ok(v),
                    None => {
                        self.i = s;
                        Err(format!("bad-token-{}", String::from_utf8_lossy(&t[..t.len().min(12)]).replace(' ', "_")))
                    }
                }
            }
        }
    }
}

#[derive(Clone, Debug)]
pub struct IndObj {
    pub num: u32,
    pub gen: u32,
    /// offset of the first digit of `N G obj`
    pub off: usize,
    /// offset just after `endobj`
    pub end: usize,
    /// offset of the first byte of the value (after `obj` + white space)
    pub body_off: usize,
    pub val: Val,
    /// (data offset, declared /Length) when the object is a stream
    pub stream: Option<(usize, usize)>,
}

/// Parse one indirect object that must start exactly at `off` (§7.3.10, §7.3.8).
pub fn indirect_object(b: &[u8], off: usize) -> R<IndObj> {
    match b.get(off) {
        Some(c) if c.is_ascii_digit() => {}
        _ => return e("object-does-not-start-with-digit"),
    }
    let mut p = P::new(b, off);
    let num = p.uint()?;
    let gen = p.uint()?;
    p.keyword("obj")?;
    if num > u32::MAX as u64 || gen > 65535 {
        return e("object-number-out-of-range");
    }
    p.skip_ws();
    let body_off = p.i;
    let val = p.value()?;
    p.skip_ws();
    let mut stream = None;
    if b[p.i..].starts_with(b"stream") {
        p.i += 6;
        // §7.3.8.1: `stream` followed by CRLF or LF, not CR alone
        if b[p.i..].starts_with(b"\r\n") {
            p.i += 2;
        } else if b[p.i..].starts_with(b"\n") {
            p.i += 1;
        } else {
            return e("stream-keyword-not-followed-by-eol");
        }
        let len = match val.get("Length") {
            Some(Val::Int(n)) if *n >= 0 => *n as usize,
            Some(Val::Ref(_, _)) => return e("stream-length-indirect-unsupported"),
            _ => return e("stream-without-length"),
        };
        if !matches!(val, Val::Dict(_)) {
            return e("stream-without-dictionary");
        }
        let data_off = p.i;
        if data_off + len > b.len() {
            return e("stream-length-beyond-eof");
        }
        p.i = data_off + len;
        // optional EOL, then `endstream`
        if b[p.i..].starts_with(b"\r\n") {
            p.i += 2;
        } else if b[p.i..].starts_with(b"\n") || b[p.i..].starts_with(b"\r") {
            p.i += 1;
        }
        if !b[p.i..].starts_with(b"endstream") {
            return e("stream-length-mismatch");
        }
        p.i += 9;
        stream = Some((data_off, len));
    }
    p.keyword("endobj")?;
    Ok(IndObj { num: num as u32, gen: gen as u32, off, end: p.i, body_off, val, stream })
}

#[derive(Clone, Debug, PartialEq)]
pub enum XEntry {
    Free(u64, u64),
    InUse(u64, u64),
    Compressed(u64, u64),
}

#[derive(Clone, Debug)]
pub enum XrefKind {
    Classic,
    Stream { id: u32, w: [usize; 3], index: Vec<(u64, u64)>, filter: bool, raw_len: usize, decoded_len: usize },
}

#[derive(Clone, Debug)]
pub struct ObjStm {
    pub id: u32,
    pub n: usize,
    pub first: usize,
    /// (object number, relative offset, parsed value, byte length of the value's text)
    pub members: Vec<(u32, usize, Val)>,
    pub decoded_len: usize,
}

#[derive(Clone, Debug)]
pub struct Scan {
    pub version: String,
    pub header_len: usize,
    /// top-level indirect objects in file order
    pub objects: Vec<IndObj>,
    pub xref_off: usize,
    pub xref_kind: XrefKind,
    /// object number -> entry, contiguous from 0
    pub entries: BTreeMap<u64, XEntry>,
    pub trailer: Val,
    pub startxref_kw_off: usize,
    pub eof_off: usize,
    pub file_len: usize,
    pub objstms: Vec<ObjStm>,
}

pub fn inflate_strict(data: &[u8]) -> R<Vec<u8>> {
    use std::io::Read;
    let mut d = flate2::read::ZlibDecoder::new(data);
    let mut out = vec![];
    d.read_to_end(&mut out).map_err(|_| "inflate-failed".to_string())?;
    if (d.total_in() as usize) != data.len() {
        return e("inflate-trailing-garbage");
    }
    Ok(out)
}

fn eol_at(b: &[u8], i: usize) -> Option<usize> {
    if b[i..].starts_with(b"\r\n") {
        Some(2)
    } else if b[i..].starts_with(b"\n") || b[i..].starts_with(b"\r") {
        Some(1)
    } else {
        None
    }
}

/// stream data of an indirect object, decoded (only FlateDecode or no filter)
pub fn stream_data(b: &[u8], o: &IndObj) -> R<Vec<u8>> {
    let (off, len) = o.stream.ok_or("not-a-stream")?;
    let raw = &b[off..off + len];
    match o.val.get("Filter") {
        None => Ok(raw.to_vec()),
        Some(Val::Name(n)) if n == b"FlateDecode" => {
            if o.val.get("DecodeParms").is_some() {
                return e("decodeparms-unsupported");
            }
            inflate_strict(raw)
        }
        Some(Val::Arr(a)) if a.len() == 1 && a[0] == Val::Name(b"FlateDecode".to_vec()) => inflate_strict(raw),
        Some(Val::Arr(a)) if a.is_empty() => Ok(raw.to_vec()),
        _ => e("filter-unsupported"),
    }
}

pub fn scan(b: &[u8]) -> R<Scan> {
    // ---- header (§7.5.2)
    if !b.starts_with(b"%PDF-") {
        return e("header-missing");
    }
    let mut i = 5;
    while i < b.len() && (b[i].is_ascii_digit() || b[i] == b'.') {
        i += 1;
    }
    let version = String::from_utf8_lossy(&b[5..i]).to_string();
    {
        let p: Vec<&str> = version.split('.').collect();
        if p.len() != 2 || p.iter().any(|x| x.is_empty() || !x.chars().all(|c| c.is_ascii_digit())) {
            return e("header-bad-version");
        }
    }
    i += eol_at(b, i).ok_or("header-not-followed-by-eol")?;
    // ---- end of file (§7.5.5): ... startxref EOL offset EOL %%EOF [EOL]
    let mut end = b.len();
    if b[..end].ends_with(b"\r\n") {
        end -= 2;
    } else if b[..end].ends_with(b"\n") || b[..end].ends_with(b"\r") {
        end -= 1;
    }
    if !b[..end].ends_with(b"%%EOF") {
        return e("eof-marker-missing");
    }
    let eof_off = end - 5;
    let mut j = eof_off;
    // EOL before %%EOF
    if b[..j].ends_with(b"\r\n") {
        j -= 2;
    } else if b[..j].ends_with(b"\n") || b[..j].ends_with(b"\r") {
        j -= 1;
    } else {
        return e("eof-marker-not-on-own-line");
    }
    let dig_end = j;
    while j > 0 && b[j - 1].is_ascii_digit() {
        j -= 1;
    }
    if j == dig_end || dig_end - j > 19 {
        return e("startxref-offset-missing");
    }
    let xref_off: usize = std::str::from_utf8(&b[j..dig_end]).unwrap().parse().map_err(|_| "startxref-offset-bad")?;
    if b[..j].ends_with(b"\r\n") {
        j -= 2;
    } else if b[..j].ends_with(b"\n") || b[..j].ends_with(b"\r") {
        j -= 1;
    } else {
        return e("startxref-offset-not-on-own-line");
    }
    if !b[..j].ends_with(b"startxref") {
        return e("startxref-keyword-missing");
    }
    let startxref_kw_off = j - 9;
    if xref_off >= startxref_kw_off {
        return e("startxref-offset-beyond-trailer");
    }

    // ---- body: sequential strict scan of the indirect objects (§7.5.3)
    let mut objects: Vec<IndObj> = vec![];
    let mut p = P::new(b, i);
    loop {
        p.skip_ws();
        let at = p.i;
        if at >= startxref_kw_off {
            break;
        }
        if b[at..].starts_with(b"xref") || b[at..].starts_with(b"trailer") {
            break;
        }
        let o = indirect_object(b, at).map_err(|m| format!("object@{}:{}", at, m))?;
        p.i = o.end;
        objects.push(o);
    }
    let body_end = p.i;

    // ---- cross-reference section at the startxref offset (§7.5.4, §7.5.8)
    let mut entries: BTreeMap<u64, XEntry> = BTreeMap::new();
    let trailer: Val;
    let xref_kind: XrefKind;
    if b[xref_off..].starts_with(b"xref") {
        if body_end != xref_off {
            return e("xref-keyword-not-where-body-ends");
        }
        let mut k = xref_off + 4;
        k += eol_at(b, k).ok_or("xref-keyword-not-followed-by-eol")?;
        loop {
            if b[k..].starts_with(b"trailer") {
                break;
            }
            // subsection header: first SP count EOL
            let mut q = P::new(b, k);
            let s0 = q.i;
            let first = q.uint().map_err(|_| "xref-subsection-header")?;
            if q.i == s0 || b.get(q.i) != Some(&b' ') {
                return e("xref-subsection-header");
            }
            q.i += 1;
            if !b.get(q.i).map(|c| c.is_ascii_digit()).unwrap_or(false) {
                return e("xref-subsection-header");
            }
            let count = q.uint().map_err(|_| "xref-subsection-header")?;
            k = q.i;
            // the standard allows an optional space before the EOL in practice; strict: EOL only
            k += eol_at(b, k).ok_or("xref-subsection-header-eol")?;
            for n in 0..count {
                if k + 20 > b.len() {
                    return e("xref-entry-truncated");
                }
                let ent = &b[k..k + 20];
                let ok = ent[..10].iter().all(|c| c.is_ascii_digit())
                    && ent[10] == b' '
                    && ent[11..16].iter().all(|c| c.is_ascii_digit())
                    && ent[16] == b' '
                    && (ent[17] == b'n' || ent[17] == b'f')
                    && (&ent[18..20] == b" \n" || &ent[18..20] == b" \r" || &ent[18..20] == b"\r\n");
                if !ok {
                    return Err(format!("xref-entry-malformed@{}", first + n));
                }
                let a: u64 = std::str::from_utf8(&ent[..10]).unwrap().parse().unwrap();
                let g: u64 = std::str::from_utf8(&ent[11..16]).unwrap().parse().unwrap();
                let en = if ent[17] == b'n' { XEntry::InUse(a, g) } else { XEntry::Free(a, g) };
                if entries.insert(first + n, en).is_some() {
                    return e("xref-duplicate-entry");
                }
                k += 20;
            }
        }
        let mut q = P::new(b, k);
        q.keyword("trailer")?;
        trailer = q.value().map_err(|m| format!("trailer:{}", m))?;
        if !matches!(trailer, Val::Dict(_)) {
            return e("trailer-not-a-dictionary");
        }
        q.skip_ws();
        if q.i != startxref_kw_off {
            return e("trailer-not-followed-by-startxref");
        }
        xref_kind = XrefKind::Classic;
    } else {
        // must be the LAST object of the body and a cross-reference stream
        let o = match objects.last() {
            Some(o) if o.off == xref_off => o.clone(),
            _ => return e("startxref-does-not-point-at-xref-or-object"),
        };
        let mut q = P::new(b, o.end);
        q.skip_ws();
        if q.i != startxref_kw_off {
            return e("xref-stream-not-followed-by-startxref");
        }
        if o.stream.is_none() {
            return e("xref-stream-is-not-a-stream");
        }
        if o.val.get("Type").and_then(|v| v.as_name()) != Some(b"XRef") {
            return e("xref-stream-type");
        }
        let size = o.val.get("Size").and_then(|v| v.as_int()).ok_or("xref-stream-size")?;
        let w: Vec<usize> = match o.val.get("W") {
            Some(Val::Arr(a)) if a.len() == 3 => a
                .iter()
                .map(|v| v.as_int().filter(|n| *n >= 0 && *n <= 8).map(|n| n as usize))
                .collect::<Option<Vec<_>>>()
                .ok_or("xref-stream-w")?,
            _ => return e("xref-stream-w"),
        };
        let index: Vec<(u64, u64)> = match o.val.get("Index") {
            None => vec![(0, size as u64)],
            Some(Val::Arr(a)) if a.len() % 2 == 0 => {
                let ns: Vec<u64> =
                    a.iter().map(|v| v.as_int().filter(|n| *n >= 0).map(|n| n as u64)).collect::<Option<Vec<_>>>().ok_or("xref-stream-index")?;
                ns.chunks(2).map(|c| (c[0], c[1])).collect()
            }
            _ => return e("xref-stream-index"),
        };
        let filter = o.val.get("Filter").is_some();
        let data = stream_data(b, &o).map_err(|m| format!("xref-stream-data:{}", m))?;
        let ew = w[0] + w[1] + w[2];
        let total: u64 = index.iter().map(|(_, c)| *c).sum();
        if ew == 0 || data.len() as u64 != total * ew as u64 {
            return e("xref-stream-data-length");
        }
        let mut k = 0usize;
        let field = |k: &mut usize, n: usize| -> u64 {
            let mut v = 0u64;
            for _ in 0..n {
                v = (v << 8) | data[*k] as u64;
                *k += 1;
            }
            v
        };
        for (first, count) in &index {
            for n in 0..*count {
                let t = if w[0] == 0 { 1 } else { field(&mut k, w[0]) };
                let f2 = field(&mut k, w[1]);
                let f3 = field(&mut k, w[2]);
                let en = match t {
                    0 => XEntry::Free(f2, f3),
                    1 => XEntry::InUse(f2, f3),
                    2 => XEntry::Compressed(f2, f3),
                    _ => return e("xref-stream-entry-type"),
                };
                if entries.insert(first + n, en).is_some() {
                    return e("xref-duplicate-entry");
                }
            }
        }
        xref_kind = XrefKind::Stream {
            id: o.num,
            w: [w[0], w[1], w[2]],
            index,
            filter,
            raw_len: o.stream.unwrap().1,
            decoded_len: data.len(),
        };
        trailer = o.val.clone();
    }
    if trailer.get("Prev").is_some() {
        return e("prev-unsupported-by-this-scanner");
    }

    // ---- object streams (§7.5.7)
    let mut objstms = vec![];
    for o in &objects {
        if o.stream.is_some() && o.val.get("Type").and_then(|v| v.as_name()) == Some(b"ObjStm") {
            let n = o.val.get("N").and_then(|v| v.as_int()).filter(|n| *n >= 0).ok_or("objstm-n")? as usize;
            let first = o.val.get("First").and_then(|v| v.as_int()).filter(|n| *n >= 0).ok_or("objstm-first")? as usize;
            let data = stream_data(b, o).map_err(|m| format!("objstm-data:{}", m))?;
            if first > data.len() {
                return e("objstm-first-beyond-data");
            }
            let mut q = P::new(&data[..first], 0);
            let mut pairs = vec![];
            for _ in 0..n {
                let num = q.uint().map_err(|_| "objstm-index")?;
                let off = q.uint().map_err(|_| "objstm-index")?;
                pairs.push((num as u32, off as usize));
            }
            q.skip_ws();
            if q.i != first {
                return e("objstm-index-garbage");
            }
            let mut members = vec![];
            for (idx, (num, off)) in pairs.iter().enumerate() {
                if first + off > data.len() {
                    return e("objstm-offset-beyond-data");
                }
                let limit = match pairs.get(idx + 1) {
                    Some((_, o2)) if *o2 >= *off => first + o2,
                    Some(_) => return e("objstm-offsets-not-increasing"),
                    None => data.len(),
                };
                let mut q = P::new(&data[..limit], first + off);
                let v = q.value().map_err(|m| format!("objstm-member-{}:{}", num, m))?;
                q.skip_ws();
                if q.i != limit {
                    return Err(format!("objstm-member-{}-trailing-garbage", num));
                }
                members.push((*num, *off, v));
            }
            objstms.push(ObjStm { id: o.num, n, first, members, decoded_len: data.len() });
        }
    }

    Ok(Scan {
        version,
        header_len: i,
        objects,
        xref_off,
        xref_kind,
        entries,
        trailer,
        startxref_kw_off,
        eof_off,
        file_len: b.len(),
        objstms,
    })
}

impl Scan {
    /// resolve an object number through the cross-reference data ONLY (as a reader would)
    pub fn resolve(&self, num: u32, gen: u32) -> R<&Val> {
        match self.entries.get(&(num as u64)) {
            Some(XEntry::InUse(off, g)) => {
                if *g != gen as u64 {
                    return e("generation-mismatch");
                }
                match self.objects.iter().find(|o| o.off as u64 == *off) {
                    Some(o) if o.num == num && o.gen == gen => Ok(&o.val),
                    Some(_) => e("entry-points-at-another-object"),
                    None => e("entry-does-not-point-at-an-object"),
                }
            }
            Some(XEntry::Compressed(stm, idx)) => {
                if gen != 0 {
                    return e("generation-mismatch");
                }
                let s = self.objstms.iter().find(|s| s.id as u64 == *stm).ok_or("objstm-missing")?;
                match s.members.get(*idx as usize) {
                    Some((n, _, v)) if *n == num => Ok(v),
                    Some(_) => e("objstm-index-names-another-object"),
                    None => e("objstm-index-out-of-range"),
                }
            }
            Some(XEntry::Free(_, _)) => e("free"),
            None => e("no-entry"),
        }
    }

    pub fn stream_of(&self, num: u32) -> Option<&IndObj> {
        match self.entries.get(&(num as u64)) {
            Some(XEntry::InUse(off, _)) => self.objects.iter().find(|o| o.off as u64 == *off && o.num == num),
            _ => None,
        }
    }
}
