//! C12 — drives the real font subsetter (`text/fonts/truetype_subsetter.rs`,
//! `text/fonts/cff_subsetter.rs`) and reads both the original font and the subset bytes with
//! an independent sfnt / CFF reader (`../c12_sfnt.rs`, `../c12_cff.rs`).
use oxidize_pdf::text::fonts::truetype_subsetter::{subset_font, subset_font_by_gids};
use oxiharness::*;
use std::collections::{BTreeMap, BTreeSet, HashMap, HashSet};
use std::sync::{Arc, Mutex, OnceLock};

#[path = "../c12_sfnt.rs"]
mod sfnt;
use sfnt::*;
#[path = "../c12_cff.rs"]
mod cff;

pub const REAL_FONTS: &[(&str, &str)] = &[
    ("roboto", "/repo/test-pdfs/Roboto-Regular.ttf"),
    ("sourcesans3", "/repo/test-pdfs/SourceSans3-Regular.otf"),
    ("dejavu-sans", "/usr/share/fonts/truetype/dejavu/DejaVuSans.ttf"),
    ("dejavu-serif", "/usr/share/fonts/truetype/dejavu/DejaVuSerif.ttf"),
    ("dejavu-mono", "/usr/share/fonts/truetype/dejavu/DejaVuSansMono.ttf"),
    ("dejavu-math", "/usr/share/fonts/truetype/dejavu/DejaVuMathTeXGyre.ttf"),
    ("dejavu-xlight", "/usr/share/fonts/truetype/dejavu/DejaVuSans-ExtraLight.ttf"),
    (
        "liberation",
        "/opt/veriftools/tlapm/lib/tlapm/backends/Isabelle/contrib/pdfjs-2.14.305/web/standard_fonts/LiberationSans-Regular.ttf",
    ),
    (
        "liberation-it",
        "/opt/veriftools/tlapm/lib/tlapm/backends/Isabelle/contrib/pdfjs-2.14.305/web/standard_fonts/LiberationSans-Italic.ttf",
    ),
    (
        "isa-hinted",
        "/opt/veriftools/tlapm/lib/tlapm/backends/Isabelle/contrib/isabelle_fonts-20241227/ttf-hinted/IsabelleDejaVuSans.ttf",
    ),
    (
        "isa-mono",
        "/opt/veriftools/tlapm/lib/tlapm/backends/Isabelle/contrib/isabelle_fonts-20241227/ttf/IsabelleDejaVuSansMono.ttf",
    ),
    (
        "vacuous",
        "/opt/veriftools/tlapm/lib/tlapm/backends/Isabelle/contrib/isabelle_fonts-20241227/ttf/Vacuous.ttf",
    ),
];

// ------------------------------------------------------------------------------------------
// generated fonts: everything derives from the seed in the font id `gen-<seed>`
// ------------------------------------------------------------------------------------------

/// `extras` (font ids `gx-<seed>`): boundary material drawn from a SEPARATE random stream (so
/// that `gen-<seed>` fonts never change): components and cmap entries pointing at glyph ids the
/// font does not have (numGlyphs, numGlyphs+k, 0xFFFF), a deep composite chain, composites that
/// carry WE_HAVE_INSTRUCTIONS with word arguments and a 2x2 transform.
fn gen_font(seed: u64, extras: bool) -> Vec<u8> {
    let mut r = Rng::new(seed ^ 0xC12C12);
    let mut x = Rng::new(seed ^ 0x0E87_7A5C_12);
    let ng = 6 + r.below(70) as usize;
    let long_loca = r.chance(1, 2);
    let cyclic = r.chance(1, 8);
    let mut glyphs = Vec::with_capacity(ng);
    let instr = |r: &mut Rng| -> Vec<u8> {
        if r.chance(1, 3) {
            vec![]
        } else {
            let n = 1 + r.below(9) as usize;
            r.bytes(n)
        }
    };
    for i in 0..ng {
        let k = r.below(10);
        if i == 0 || k < 5 || i < 3 {
            let nc = 1 + r.below(3) as usize;
            let contours = (0..nc)
                .map(|_| {
                    (0..3 + r.below(4) as usize)
                        .map(|_| (r.range(-300, 900) as i16, r.range(-300, 900) as i16, r.chance(3, 4)))
                        .collect()
                })
                .collect();
            let ins = instr(&mut r);
            glyphs.push(GenGlyph::Simple { contours, instr: ins, pad: r.below(3) as usize });
        } else if k == 5 {
            glyphs.push(GenGlyph::Empty);
        } else {
            let n = 1 + r.below(4) as usize;
            let comps = (0..n)
                .map(|_| GenComp {
                    // acyclic by construction: components have smaller ids
                    gid: r.below(i as u64) as u16,
                    style: r.below(6) as u8,
                    dx: r.range(-100, 100) as i16,
                    dy: r.range(-100, 100) as i16,
                })
                .collect();
            let ins = if r.chance(1, 2) { instr(&mut r) } else { vec![] };
            glyphs.push(GenGlyph::Composite { comps, instr: ins, pad: r.below(3) as usize });
        }
    }
    if cyclic {
        // a self loop and a two-cycle among the last glyphs
        let a = ng - 1;
        let b = ng - 2;
        glyphs[a] = GenGlyph::Composite {
            comps: vec![
                GenComp { gid: b as u16, style: 0, dx: 1, dy: 1 },
                GenComp { gid: a as u16, style: 1, dx: 2, dy: 2 },
            ],
            instr: vec![],
            pad: 0,
        };
        glyphs[b] = GenGlyph::Composite {
            comps: vec![GenComp { gid: a as u16, style: 0, dx: 3, dy: 3 }, GenComp { gid: 1, style: 2, dx: 0, dy: 0 }],
            instr: vec![1, 2, 3],
            pad: 0,
        };
    }
    if extras && ng >= 8 {
        // a chain  ng-3 -> ng-4 -> … of depth 4..ng-4 ending in a simple glyph
        if x.chance(1, 2) {
            let depth = 4 + x.below((ng as u64 - 7).max(1)) as usize;
            let top = ng - 3;
            for d in 0..depth.min(top - 1) {
                let i = top - d;
                glyphs[i] = GenGlyph::Composite {
                    comps: vec![GenComp { gid: (i - 1) as u16, style: x.below(6) as u8, dx: d as i16, dy: -(d as i16) }],
                    instr: if x.chance(1, 2) { vec![7; 1 + x.below(6) as usize] } else { vec![] },
                    pad: x.below(2) as usize,
                };
            }
        }
        // components that reference glyphs the font does not have
        let n = 1 + x.below(3) as usize;
        for _ in 0..n {
            let i = 3 + x.below(ng as u64 - 3) as usize;
            let missing = match x.below(4) {
                0 => 0xFFFF,
                1 => ng as u16,
                2 => ng as u16 + 1 + x.below(40) as u16,
                _ => 0xFFFE,
            };
            let keep = GenComp { gid: x.below(3) as u16, style: 5, dx: 300, dy: -300 };
            glyphs[i] = GenGlyph::Composite {
                comps: if x.chance(1, 2) {
                    vec![keep, GenComp { gid: missing, style: x.below(6) as u8, dx: 1, dy: 2 }]
                } else {
                    vec![GenComp { gid: missing, style: x.below(6) as u8, dx: 1, dy: 2 }, keep]
                },
                instr: if x.chance(1, 2) { vec![9; 1 + x.below(4) as usize] } else { vec![] },
                pad: 0,
            };
        }
    }
    let adv: Vec<u16> = (0..ng).map(|_| 200 + r.below(1800) as u16).collect();
    let lsb: Vec<i16> = (0..ng).map(|_| r.range(-50, 200) as i16).collect();
    let nhm = if r.chance(1, 2) { ng as u16 } else { 1 + r.below(ng as u64) as u16 };
    let cmap_fmt = if r.chance(1, 3) { 12 } else { 4 };
    let nchars = ng + r.below(ng as u64 * 2) as usize;
    let mut cmap: Vec<(u32, u16)> = Vec::new();
    let mut base = 0x20u32;
    for _ in 0..nchars {
        let cp = match r.below(10) {
            0..=4 => {
                base += 1 + r.below(3) as u32;
                base
            }
            5 => 0x391 + r.below(60) as u32,
            6 => 0x4E00 + r.below(300) as u32,
            7 if cmap_fmt == 12 => 0x1F600 + r.below(80) as u32,
            _ => 0xA0 + r.below(0x160) as u32,
        };
        cmap.push((cp, 1 + r.below(ng as u64 - 1) as u16));
    }
    if extras && cmap_fmt == 4 && x.chance(1, 2) {
        // cmap entries beyond numGlyphs (a reader that does not cross-check maxp keeps them)
        for _ in 0..1 + x.below(3) {
            let g = match x.below(3) {
                0 => 0xFFFF,
                1 => ng as u16,
                _ => ng as u16 + x.below(100) as u16,
            };
            cmap.push((0x2100 + x.below(0x80) as u32, g));
        }
    }
    cmap.sort();
    cmap.dedup_by_key(|p| p.0);
    let truncate = if r.chance(1, 10) { 1 + r.below(60) as usize } else { 0 };
    let mut f = GenFont {
        glyphs,
        adv,
        lsb,
        nhm,
        long_loca,
        cmap,
        cmap_fmt,
        pad_table: 0,
        truncate_glyf: 0,
        upem: *r.pick(&[1000u16, 2048, 1024]),
    };
    // file size: small (no pad), or steered around the 100 000-byte threshold
    let target: usize = if extras {
        match x.below(4) {
            0 => 100_000,
            1 => 100_001 + x.below(3) as usize,
            _ => 100_004 + x.below(30_000) as usize,
        }
    } else { match r.below(8) {
        0 => 0,
        1 => 99_997 + r.below(3) as usize,
        2 | 3 => 100_000 + r.below(3) as usize,
        _ => 100_004 + r.below(40_000) as usize,
    } };
    let l0 = build_font(&f).len();
    if target > l0 + 24 {
        f.pad_table = (target - l0 - 16) & !3;
        // residual 0..3 bytes: grow the last non-empty glyph (glyf is physically last)
        let len = build_font(&f).len();
        let diff = target.saturating_sub(len);
        if diff > 0 && diff < 4 {
            for g in f.glyphs.iter_mut().rev() {
                match g {
                    GenGlyph::Simple { pad, .. } | GenGlyph::Composite { pad, .. } => {
                        *pad += diff;
                        break;
                    }
                    GenGlyph::Empty => {}
                }
            }
        }
    }
    f.truncate_glyf = truncate;
    build_font(&f)
}

// ------------------------------------------------------------------------------------------
// font store
// ------------------------------------------------------------------------------------------

fn store() -> &'static Mutex<HashMap<String, Option<Arc<Vec<u8>>>>> {
    static S: OnceLock<Mutex<HashMap<String, Option<Arc<Vec<u8>>>>>> = OnceLock::new();
    S.get_or_init(|| Mutex::new(HashMap::new()))
}

pub fn font_bytes(id: &str) -> Option<Arc<Vec<u8>>> {
    let mut s = store().lock().unwrap();
    if let Some(v) = s.get(id) {
        return v.clone();
    }
    let v = if let Some(seed) = id.strip_prefix("gen-") {
        seed.parse::<u64>().ok().map(|s| Arc::new(gen_font(s, false)))
    } else if let Some(seed) = id.strip_prefix("gx-") {
        seed.parse::<u64>().ok().map(|s| Arc::new(gen_font(s, true)))
    } else {
        let repo = std::env::var("VERIF_REPO").unwrap_or_else(|_| "/repo".into());
        REAL_FONTS
            .iter()
            .find(|f| f.0 == id)
            .and_then(|f| {
                let p = match f.1.strip_prefix("/repo/") {
                    Some(rest) => format!("{}/{}", repo, rest),
                    None => f.1.to_string(),
                };
                std::fs::read(p).ok()
            })
            .map(Arc::new)
    };
    s.insert(id.to_string(), v.clone());
    v
}

// ------------------------------------------------------------------------------------------
// facts of the ORIGINAL font for a request (independent reader)
// ------------------------------------------------------------------------------------------

/// fact of a glyph of a SUBSET (strict reading only)
fn fact_line(s: &Sfnt, gid: u16) -> String {
    let d = s.glyph_desc(gid);
    match s.hmetrics(gid) {
        Ok((a, l)) => format!("{}:{}:{}:{}", gid, a, l, d.show()),
        Err(_) => format!("{}:0:0:B", gid),
    }
}

/// fact of a glyph of the ORIGINAL font: the loca-trusting reading (what the subsetter's reader
/// sees, see c12_sfnt.rs), `B` = the glyph read fails, metrics `upem:0` when the metrics read
/// fails; a trailing `!` says that the strict reading differs (glyph id beyond numGlyphs, entry
/// beyond the glyf/hmtx table, …) — the oracle is silent about such glyphs.
/// `None`: the bytes are there but do not decode as a glyph (outside the abstraction).
fn orig_fact_line(s: &Sfnt, gid: u16) -> Option<String> {
    let ld = s.glyph_desc_lenient(gid);
    if matches!(ld, Some(GlyphDesc::Bad(_))) {
        return None;
    }
    let lm = s.hmetrics_lenient(gid);
    let strict_same = match (&ld, lm) {
        (Some(d), Some(m)) => s.glyph_desc(gid) == *d && s.hmetrics(gid) == Ok(m),
        _ => false,
    };
    let (a, l) = lm.unwrap_or((s.units_per_em().unwrap_or(0), 0));
    let d = ld.map(|d| d.show()).unwrap_or_else(|| "B".into());
    Some(format!("{}:{}:{}:{}{}", gid, a, l, d, if strict_same { "" } else { "!" }))
}

fn orig_facts(s: &Sfnt, cl: &BTreeSet<u16>) -> Option<String> {
    let v: Option<Vec<String>> = cl.iter().map(|g| orig_fact_line(s, *g)).collect();
    Some(join(v?, ";"))
}

/// component closure as the subsetter's reader sees the font (loca-trusting reading)
fn closure_of(s: &Sfnt, init: &BTreeSet<u16>) -> BTreeSet<u16> {
    let mut seen = init.clone();
    let mut work: Vec<u16> = init.iter().cloned().collect();
    while let Some(g) = work.pop() {
        for c in s.glyph_desc_lenient(g).map(|d| d.children()).unwrap_or_default() {
            if seen.insert(c) {
                work.push(c);
            }
        }
    }
    seen
}

fn join<T: ToString>(xs: impl IntoIterator<Item = T>, sep: &str) -> String {
    let v: Vec<String> = xs.into_iter().map(|x| x.to_string()).collect();
    if v.is_empty() {
        "-".into()
    } else {
        v.join(sep)
    }
}

fn stripped_lens(s: &Sfnt, cl: &BTreeSet<u16>) -> String {
    join(cl.iter().map(|g| format!("{}:{}", g, s.glyph_bytes_lenient(*g).map(stripped_len).unwrap_or(0))), ",")
}

/// The byte runs of the ORIGINAL file the subsetter reads for this request, for the byte-level
/// model: directory, head/hhea/maxp/post, and — whole tables for generated fonts, per-glyph
/// entries for real fonts — loca, hmtx, glyf.  `<off>.<hex>,…` (sorted, merged).
fn file_segs(bytes: &[u8], s: &Sfnt, cl: &BTreeSet<u16>, whole_tables: bool) -> String {
    let flen = bytes.len();
    let mut ranges: Vec<(usize, usize)> = vec![(0, 12 + 16 * s.tables.len())];
    let tab = |t: &[u8; 4]| s.rec(t).map(|r| (r.offset as usize, r.offset as usize + r.length as usize));
    for t in [b"head", b"hhea", b"maxp", b"post"] {
        if let Some(r) = tab(t) {
            ranges.push(r);
        }
    }
    if let Some(h) = tab(b"head") {
        ranges.push((h.0, h.0 + 54));
    }
    if whole_tables {
        for t in [b"loca", b"hmtx", b"glyf"] {
            if let Some(r) = tab(t) {
                ranges.push(r);
            }
        }
    }
    let short = s.loca_format_raw() == Some(0);
    let esz = if short { 2 } else { 4 };
    let nh = s.rec(b"hhea").and_then(|h| be16(bytes, h.offset as usize + 34)).unwrap_or(0) as usize;
    for &g in cl {
        let g = g as usize;
        if let (Some(lo), Some(gl)) = (s.rec(b"loca"), s.rec(b"glyf")) {
            let idx = g * esz;
            if idx + 2 * esz <= lo.length as usize {
                let b = lo.offset as usize + idx;
                ranges.push((b, b + 2 * esz));
                let rd = |o: usize| if short { be16(bytes, o).map(|v| v as usize * 2) } else { be32(bytes, o).map(|v| v as usize) };
                if let (Some(st), Some(en)) = (rd(b), rd(b + esz)) {
                    if st < en {
                        ranges.push((gl.offset as usize + st, gl.offset as usize + en));
                    }
                }
            }
        }
        if let Some(hm) = s.rec(b"hmtx") {
            let o = hm.offset as usize;
            if g < nh {
                ranges.push((o + g * 4, o + g * 4 + 4));
            } else if nh > 0 {
                ranges.push((o + (nh - 1) * 4, o + (nh - 1) * 4 + 2));
                let l = o + nh * 4 + (g - nh) * 2;
                ranges.push((l, l + 2));
            }
        }
    }
    let mut rs: Vec<(usize, usize)> =
        ranges.into_iter().map(|(a, b)| (a.min(flen), b.min(flen))).filter(|(a, b)| a < b).collect();
    rs.sort();
    let mut merged: Vec<(usize, usize)> = Vec::new();
    for r in rs {
        match merged.last_mut() {
            Some(l) if r.0 <= l.1 => l.1 = l.1.max(r.1),
            _ => merged.push(r),
        }
    }
    join(merged.iter().map(|(a, b)| format!("{}.{}", a, hex(&bytes[*a..*b]))), ",")
}

/// byte-level fields of a request (empty when the closure is too large to ship the bytes)
fn byte_fields(id: &str, bytes: &[u8], s: &Sfnt, cl: &BTreeSet<u16>) -> String {
    let gen = id.starts_with("gen-") || id.starts_with("gx-");
    if !gen && cl.len() > 48 {
        return String::new();
    }
    format!(" flen={} segs={}", bytes.len(), file_segs(bytes, s, cl, gen))
}

fn is_cff(s: &Sfnt) -> bool {
    s.rec(b"CFF ").is_some()
}

/// request line for `subset_font(font, used)`
fn make_tt(id: &str, used: &[u32], with_all: bool) -> Option<String> {
    let bytes = font_bytes(id)?;
    let s = Sfnt::parse(&bytes).ok()?;
    let cff = is_cff(&s);
    // TrueType: the cmap as a reader that does not cross-check it against maxp sees it
    let cmap = if cff { s.cmap_unicode().ok()? } else { s.cmap_unicode_lenient().ok()? };
    let ng = s.num_glyphs().ok()?;
    let mapped: Vec<(u32, u16)> = used.iter().filter_map(|c| cmap.get(c).map(|g| (*c, *g))).collect();
    if cff {
        return cff::make_cf(id, used, &bytes, &s, &mapped, ng);
    }
    let mut init: BTreeSet<u16> = mapped.iter().map(|p| p.1).collect();
    init.insert(0);
    let cl = closure_of(&s, &init);
    let facts = orig_facts(&s, &cl)?;
    let all = if with_all { join(cmap.iter().map(|(c, g)| format!("{}:{}", c, g)), ",") } else { "?".into() };
    Some(format!(
        "tt font={} used={} size={} ng={} cff=0 lf={} sl={} cmap={} allcmap={} g={}{}",
        id,
        join(used.iter(), ","),
        bytes.len(),
        ng,
        s.loca_format().unwrap_or(1),
        stripped_lens(&s, &cl),
        join(mapped.iter().map(|(c, g)| format!("{}:{}", c, g)), ","),
        all,
        facts,
        byte_fields(id, &bytes, &s, &cl)
    ))
}

fn make_tg(id: &str, used: &[u16]) -> Option<String> {
    let bytes = font_bytes(id)?;
    let s = Sfnt::parse(&bytes).ok()?;
    let mut init: BTreeSet<u16> = used.iter().cloned().collect();
    init.insert(0);
    let cl = closure_of(&s, &init);
    Some(format!(
        "tg font={} used={} cff={} lf={} sl={} g={}{}",
        id,
        join(used.iter(), ","),
        is_cff(&s) as u8,
        s.loca_format().unwrap_or(1),
        if is_cff(&s) { "-".to_string() } else { stripped_lens(&s, &cl) },
        if is_cff(&s) { "-".to_string() } else { orig_facts(&s, &cl)? },
        if is_cff(&s) { String::new() } else { byte_fields(id, &bytes, &s, &cl) }
    ))
}

// ------------------------------------------------------------------------------------------
// the real code
// ------------------------------------------------------------------------------------------

fn field<'a>(req: &'a str, k: &str) -> Option<&'a str> {
    req.split(' ').find_map(|f| f.strip_prefix(k).and_then(|r| r.strip_prefix('=')))
}

fn parse_list(s: &str) -> Option<Vec<u32>> {
    if s == "-" {
        return Some(vec![]);
    }
    s.split(',').map(|t| t.parse().ok()).collect()
}

fn show_map(m: &BTreeMap<u32, u16>) -> String {
    join(m.iter().map(|(c, g)| format!("{}:{}", c, g)), ",")
}

/// facts of a subset sfnt, as the independent reader sees them
fn subset_facts(data: &[u8]) -> String {
    let s = match Sfnt::parse(data) {
        Ok(s) => s,
        Err(e) => return format!("n=0 wf=unreadable:{} g=-", e.replace(' ', "_")),
    };
    let ng = s.num_glyphs().unwrap_or(0);
    let probs = s.problems();
    let wf = if probs.is_empty() { "ok".to_string() } else { probs.join(",") };
    format!("n={} wf={} g={}", ng, wf, join((0..ng).map(|g| fact_line(&s, g)), ";"))
}

fn run(req: &str) -> String {
    let op = req.split(' ').next().unwrap_or("");
    let want_bytes = field(req, "segs").is_some();
    let bytes_out = |d: &[u8]| if want_bytes { format!(" bytes={}", hex(d)) } else { String::new() };
    let (Some(id), Some(used)) = (field(req, "font"), field(req, "used").and_then(parse_list)) else {
        return "bad-request".into();
    };
    let Some(bytes) = font_bytes(id) else { return "err:no-such-font".into() };
    match op {
        "tt" | "cf" => {
            let chars: HashSet<char> = used.iter().filter_map(|c| char::from_u32(*c)).collect();
            match subset_font(bytes.to_vec(), &chars) {
                Err(_) => "err:subset".into(),
                Ok(r) => {
                    let map: BTreeMap<u32, u16> = r.glyph_mapping.iter().map(|(c, g)| (*c, *g)).collect();
                    if r.font_data == *bytes {
                        format!("kind=full map={}", show_map(&map))
                    } else if r.is_raw_cff {
                        format!("kind=rawcff map={} {}", show_map(&map), cff::cff_facts(&r.font_data, &map))
                    } else {
                        format!("kind=subset map={} {}{}", show_map(&map), subset_facts(&r.font_data), bytes_out(&r.font_data))
                    }
                }
            }
        }
        "tg" => {
            let gids: HashSet<u16> = used.iter().map(|g| *g as u16).collect();
            match subset_font_by_gids(bytes.to_vec(), &gids) {
                Err(_) => "err:subset".into(),
                Ok(r) => {
                    let map: BTreeMap<u32, u16> = r.old_to_new.iter().map(|(c, g)| (*c as u32, *g)).collect();
                    format!("kind=subset map={} {}{}", show_map(&map), subset_facts(&r.font_data), bytes_out(&r.font_data))
                }
            }
        }
        _ => "bad-request".into(),
    }
}

// ------------------------------------------------------------------------------------------
// generator
// ------------------------------------------------------------------------------------------

struct FontInfo {
    id: String,
    cmap: Vec<(u32, u16)>,
    ng: u16,
    size: usize,
    cff: bool,
}

fn info(id: &str) -> Option<FontInfo> {
    let bytes = font_bytes(id)?;
    let s = Sfnt::parse(&bytes).ok()?;
    let cmap = if is_cff(&s) { s.cmap_unicode().ok()? } else { s.cmap_unicode_lenient().ok()? };
    Some(FontInfo {
        id: id.to_string(),
        cmap: cmap.into_iter().collect(),
        ng: s.num_glyphs().ok()?,
        size: bytes.len(),
        cff: is_cff(&s),
    })
}

/// `k` distinct covered code points, drawn as a mix of contiguous runs and scattered picks
fn pick_chars(r: &mut Rng, fi: &FontInfo, k: usize) -> Vec<u32> {
    let n = fi.cmap.len();
    let mut set = BTreeSet::new();
    if n == 0 {
        return vec![];
    }
    let k = k.min(n);
    let mut guard = 0;
    while set.len() < k && guard < 20 * k + 100 {
        guard += 1;
        if r.chance(1, 3) {
            let st = r.below(n as u64) as usize;
            let len = 1 + r.below(12) as usize;
            for j in st..(st + len).min(n) {
                if set.len() < k {
                    set.insert(fi.cmap[j].0);
                }
            }
        } else {
            set.insert(fi.cmap[r.below(n as u64) as usize].0);
        }
    }
    set.into_iter().collect()
}

/// chars the font does not map (and astral ones), to mix in
fn unmapped(r: &mut Rng, fi: &FontInfo, k: usize) -> Vec<u32> {
    let have: HashSet<u32> = fi.cmap.iter().map(|p| p.0).collect();
    let mut v = vec![];
    for _ in 0..k {
        let c = match r.below(4) {
            0 => 0xE000 + r.below(0x100) as u32,
            1 => 0x1F300 + r.below(0x300) as u32,
            2 => 0x3040 + r.below(0x60) as u32,
            _ => 0x20 + r.below(0x3000) as u32,
        };
        if !have.contains(&c) && char::from_u32(c).is_some() {
            v.push(c);
        }
    }
    v
}

fn shuffle<T>(r: &mut Rng, v: &mut Vec<T>) {
    for i in (1..v.len()).rev() {
        let j = r.below(i as u64 + 1) as usize;
        v.swap(i, j);
    }
}

fn tags_for(req: &str, extra: &str) -> String {
    // non-trivial: at least one requested char is mapped and the model predicts a real subset
    // or a keep-full decision on a font that has composites in the closure
    let mapped = field(req, "cmap").map(|c| c != "-").unwrap_or(false) || req.starts_with("tg ");
    let comp = req.contains(":C");
    format!(
        "{} {}{}{}",
        extra,
        if mapped { "mapped " } else { "unmapped " },
        if comp { "composite " } else { "" },
        if mapped { "nt" } else { "" }
    )
}

fn gen(rng: &mut Rng, tier: Tier) -> Vec<Case> {
    let mut cases = Vec::new();
    let thorough = tier == Tier::Thorough;
    let mut push = |req: Option<String>, extra: &str| {
        if let Some(q) = req {
            let t = tags_for(&q, extra);
            cases.push(Case::new(q, t));
        }
    };
    // ---- real fonts ----
    for (id, _) in REAL_FONTS {
        let Some(fi) = info(id) else { continue };
        let kind = if fi.cff { "real-cff" } else { "real-tt" };
        let mut sizes: Vec<usize> = vec![0, 1, 2, 9, 10, 11, 40, 120];
        let extra_n = if thorough { 14 } else { 3 };
        for _ in 0..extra_n {
            sizes.push(1 + rng.below(400) as usize);
        }
        sizes.push(fi.cmap.len()); // everything: keeps the full font
        for k in sizes {
            let mut used = pick_chars(rng, &fi, k);
            if rng.chance(1, 3) {
                let n = 1 + rng.below(4) as usize;
                used.extend(unmapped(rng, &fi, n));
            }
            shuffle(rng, &mut used);
            push(make_tt(id, &used, false), &format!("{} chars{}", kind, bucket(k)));
        }
        // the ratio threshold: closure size exactly ng/2 and ng/2+1 (when the cmap reaches it)
        if !fi.cff {
            for want in [fi.ng as usize / 2, fi.ng as usize / 2 + 1] {
                if let Some(used) = chars_for_closure(&fi, want, rng) {
                    push(make_tt(id, &used, false), &format!("{} ratio-boundary", kind));
                }
            }
            // glyph-driven API
            let n = if thorough { 6 } else { 2 };
            for _ in 0..n {
                let k = 1 + rng.below(60) as usize;
                let gids: Vec<u16> = (0..k).map(|_| rng.below(fi.ng as u64) as u16).collect();
                push(make_tg(id, &gids), &format!("{} by-gids", kind));
            }
        }
    }
    // ---- generated fonts ----
    let nfonts = if thorough { 700 } else { 110 };
    for _ in 0..nfonts {
        let seed = rng.below(1 << 40);
        let id = if rng.chance(1, 3) { format!("gx-{}", seed) } else { format!("gen-{}", seed) };
        let Some(fi) = info(&id) else { continue };
        let per = 1 + rng.below(3);
        for _ in 0..per {
            let k = match rng.below(8) {
                0 => 0,
                1..=4 => 1 + rng.below(4) as usize,
                5 => 9 + rng.below(3) as usize,
                _ => 1 + rng.below(fi.cmap.len().max(1) as u64) as usize,
            };
            let mut used = pick_chars(rng, &fi, k);
            if rng.chance(1, 4) {
                let n = 1 + rng.below(3) as usize;
                used.extend(unmapped(rng, &fi, n));
            }
            shuffle(rng, &mut used);
            let sz = if fi.size < 100_000 { "lt100k" } else if fi.size == 100_000 { "eq100k" } else { "ge100k" };
            push(make_tt(&id, &used, true), &format!("gen-tt {} chars{}", sz, bucket(k)));
        }
        if rng.chance(1, 2) {
            let k = 1 + rng.below(5) as usize;
            let mut gids: Vec<u16> = (0..k).map(|_| rng.below(fi.ng as u64) as u16).collect();
            if id.starts_with("gx-") && rng.chance(1, 2) {
                // glyph ids the font does not have: numGlyphs, beyond, 0xFFFF
                gids.push(*rng.pick(&[fi.ng, fi.ng + 7, 0xFFFE, 0xFFFF]));
            }
            push(make_tg(&id, &gids), "gen-tt by-gids");
        }
        if id.starts_with("gx-") {
            // every composite of the font through the char-driven API (chains, missing components)
            if let Some(bytes) = font_bytes(&id) {
                if let Ok(s) = Sfnt::parse(&bytes) {
                    let comp: Vec<u32> = fi
                        .cmap
                        .iter()
                        .filter(|p| p.1 >= fi.ng || matches!(s.glyph_desc_lenient(p.1), Some(GlyphDesc::Composite(..))))
                        .map(|p| p.0)
                        .collect();
                    if !comp.is_empty() {
                        let k = 1 + rng.below(comp.len().min(4) as u64) as usize;
                        let mut used: Vec<u32> = (0..k).map(|_| *rng.pick(&comp)).collect();
                        used.sort();
                        used.dedup();
                        push(make_tt(&id, &used, true), "gx-tt composite-boundary");
                    }
                }
            }
        }
        // damaged font (glyf cut short): request a character whose glyph lies beyond the file so
        // that `renumber_and_build` fails and the unfiltered-cmap fallback is taken
        if let Some(bytes) = font_bytes(&id) {
            if let Ok(s) = Sfnt::parse(&bytes) {
                let bad: Vec<u32> = fi
                    .cmap
                    .iter()
                    .filter(|p| s.glyph_bytes_lenient(p.1).is_none())
                    .map(|p| p.0)
                    .collect();
                if !bad.is_empty() {
                    let mut used = vec![*rng.pick(&bad)];
                    used.extend(pick_chars(rng, &fi, 1));
                    used.sort();
                    used.dedup();
                    push(make_tt(&id, &used, true), "gen-tt damaged-glyph");
                }
            }
        }
        if fi.size >= 100_000 && rng.chance(1, 2) {
            for want in [fi.ng as usize / 2, fi.ng as usize / 2 + 1] {
                if let Some(used) = chars_for_closure(&fi, want, rng) {
                    push(make_tt(&id, &used, true), "gen-tt ratio-boundary");
                }
            }
        }
    }
    cases
}

fn bucket(k: usize) -> &'static str {
    match k {
        0 => "0",
        1..=9 => "1-9",
        10..=49 => "10-49",
        50..=499 => "50-499",
        _ => "500+",
    }
}

/// a set of covered chars whose component closure (with .notdef) has exactly `want` glyphs
fn chars_for_closure(fi: &FontInfo, want: usize, rng: &mut Rng) -> Option<Vec<u32>> {
    let bytes = font_bytes(&fi.id)?;
    let s = Sfnt::parse(&bytes).ok()?;
    let mut order: Vec<(u32, u16)> = fi.cmap.clone();
    shuffle(rng, &mut order);
    let mut set: BTreeSet<u16> = BTreeSet::new();
    set.insert(0);
    let mut cl = closure_of(&s, &set);
    let mut used = vec![];
    for (c, g) in order {
        if cl.len() >= want {
            break;
        }
        let mut t = BTreeSet::new();
        t.insert(g);
        let add = closure_of(&s, &t);
        let new: Vec<u16> = add.difference(&cl).cloned().collect();
        if cl.len() + new.len() <= want {
            cl.extend(new);
            used.push(c);
        }
    }
    if cl.len() == want {
        Some(used)
    } else {
        None
    }
}

fn main() {
    let args: Vec<String> = std::env::args().collect();
    if args.get(1).map(|s| s.as_str()) == Some("dump") {
        // debugging aid: `c12 dump <font-id>` prints directory, loca and glyph facts
        let id = &args[2];
        let bytes = font_bytes(id).expect("font");
        let s = Sfnt::parse(&bytes).expect("sfnt");
        println!("len={} lf={:?} ng={:?} nhm={:?}", bytes.len(), s.loca_format(), s.num_glyphs(), s.num_h_metrics());
        for t in &s.tables {
            println!("{} off={} len={}", String::from_utf8_lossy(&t.tag), t.offset, t.length);
        }
        println!("loca={:?}", s.loca());
        for g in 0..s.num_glyphs().unwrap_or(0) {
            println!("{} | {:?} {:?}", fact_line(&s, g), orig_fact_line(&s, g), s.glyph_bytes(g).map(|b| b.len()));
        }
        return;
    }
    harness_main(gen, run, Limits { per_case: std::time::Duration::from_secs(60), ..Limits::default() });
}
