//! C27 — drives the real page-label code (page_labels/{page_label.rs,page_label_tree.rs},
//! Document::{set_page_labels,get_page_label}, the writer's /PageLabels emission) through the
//! public API.
//!
//! Requests (single line, space separated):
//!   fmt <style> <n>                  PageLabelStyle::format(n)
//!   lab <adds> <indices>             PageLabelTree::{add_range*, get_label}
//!   rt  <adds> <indices>             from_dict(to_dict(tree)).get_label
//!   def <adds> <indices>             Document::get_page_label (default `i+1`)
//!   fd  <nums>                       PageLabelTree::from_dict on an arbitrary /Nums value
//!   doc <adds> <indices>             Document written by the real writer; the /PageLabels object
//!                                    is cut out of the bytes (answer = its raw text, hex)
//! <adds>    `_` | add;add;…   add = <start_page>.<style>.<st>.<prefix>   (insertion order)
//! <style>   D R r A a N      <prefix> `~` = None, else hex of the UTF-8 bytes (`-` = empty)
//! <indices> i,i,…
//! Answers: per index `~` (None) | `!` (panic) | `=<enc>`; enc = hex (≤ 48 bytes, `-` empty) or
//! `L<len>.<hex of first 16>.<hex of last 16>`.
use oxiharness::*;
use oxidize_pdf::objects::{Dictionary, Object};
use oxidize_pdf::{Document, Page, PageLabel, PageLabelStyle, PageLabelTree};

fn style_of(s: &str) -> Option<PageLabelStyle> {
    Some(match s {
        "D" => PageLabelStyle::DecimalArabic,
        "R" => PageLabelStyle::UppercaseRoman,
        "r" => PageLabelStyle::LowercaseRoman,
        "A" => PageLabelStyle::UppercaseLetters,
        "a" => PageLabelStyle::LowercaseLetters,
        "N" => PageLabelStyle::None,
        _ => return None,
    })
}

fn enc(bs: &[u8]) -> String {
    if bs.len() <= 48 {
        hex(bs)
    } else {
        format!("L{}.{}.{}", bs.len(), hex(&bs[..16]), hex(&bs[bs.len() - 16..]))
    }
}

struct Add {
    start_page: u32,
    style: PageLabelStyle,
    st: u32,
    prefix: Option<String>,
}

fn parse_adds(s: &str) -> Option<Vec<Add>> {
    if s == "_" {
        return Some(vec![]);
    }
    s.split(';')
        .map(|a| {
            let p: Vec<&str> = a.split('.').collect();
            if p.len() != 4 {
                return None;
            }
            let prefix = if p[3] == "~" { None } else { Some(String::from_utf8(unhex(p[3])?).ok()?) };
            Some(Add { start_page: p[0].parse().ok()?, style: style_of(p[1])?, st: p[2].parse().ok()?, prefix })
        })
        .collect()
}

fn parse_indices(s: &str) -> Option<Vec<u32>> {
    s.split(',').map(|t| t.parse().ok()).collect()
}

fn label_of(a: &Add) -> PageLabel {
    let mut l = PageLabel::new(a.style);
    if let Some(p) = &a.prefix {
        l = l.with_prefix(p.clone());
    }
    l.starting_at(a.st)
}

fn tree_of(adds: &[Add]) -> PageLabelTree {
    let mut t = PageLabelTree::new();
    for a in adds {
        t.add_range(a.start_page, label_of(a));
    }
    t
}

fn answers(idx: &[u32], f: impl Fn(u32) -> Option<String> + std::panic::RefUnwindSafe) -> String {
    idx.iter()
        .map(|&i| match std::panic::catch_unwind(|| f(i)) {
            Ok(Some(s)) => format!("={}", enc(s.as_bytes())),
            Ok(None) => "~".to_string(),
            Err(_) => "!".to_string(),
        })
        .collect::<Vec<_>>()
        .join(",")
}

/// canonical dump of a tree, observed through `to_dict` (the fields are private)
fn dump_tree(t: &PageLabelTree) -> String {
    let d = t.to_dict();
    let Some(Object::Array(nums)) = d.get("Nums") else { return "?nums".into() };
    if nums.is_empty() {
        return "_".into();
    }
    let mut out = vec![];
    for pair in nums.chunks(2) {
        let (Some(Object::Integer(k)), Some(Object::Dictionary(ld))) = (pair.first(), pair.get(1)) else {
            return "?pair".into();
        };
        let s = match ld.get("S") {
            Some(Object::Name(n)) => n.clone(),
            None => "~".into(),
            _ => "?".into(),
        };
        let p = match ld.get("P") {
            Some(Object::String(p)) => hex(p.as_bytes()),
            None => "~".into(),
            _ => "?".into(),
        };
        let st = match ld.get("St") {
            Some(Object::Integer(i)) => i.to_string(),
            None => "~".into(),
            _ => "?".into(),
        };
        let ty = match ld.get("Type") {
            Some(Object::Name(n)) => n.clone(),
            None => "~".into(),
            _ => "?".into(),
        };
        out.push(format!("{}|{}|{}|{}|{}", k, s, p, st, ty));
    }
    out.join(";")
}

fn parse_val(v: &str) -> Option<Object> {
    if v == "x" {
        return Some(Object::Null);
    }
    let (h, r) = v.split_at(1);
    match h {
        "i" => Some(Object::Integer(r.parse().ok()?)),
        "n" => Some(Object::Name(r.to_string())),
        "s" => Some(Object::String(String::from_utf8(unhex(r)?).ok()?)),
        _ => None,
    }
}

fn parse_elem(e: &str) -> Option<Object> {
    if let Some(fields) = e.strip_prefix('d') {
        let mut d = Dictionary::new();
        if !fields.is_empty() {
            for f in fields.split('/') {
                let (k, v) = f.split_once('=')?;
                if !["S", "Type", "P", "St"].contains(&k) {
                    return None;
                }
                d.set(k, parse_val(v)?);
            }
        }
        // a key the code never looks at
        d.set("Extra", Object::Integer(7));
        Some(Object::Dictionary(d))
    } else {
        parse_val(e)
    }
}

/// cut `N 0 obj … endobj` of the object the catalog's /PageLabels points to
fn cut_page_labels(bytes: &[u8]) -> Option<Vec<u8>> {
    let find = |hay: &[u8], needle: &[u8], from: usize| -> Option<usize> {
        if needle.is_empty() || hay.len() < needle.len() {
            return None;
        }
        (from..=hay.len() - needle.len()).find(|&i| &hay[i..i + needle.len()] == needle)
    };
    let p = find(bytes, b"/PageLabels ", 0)?;
    let mut i = p + b"/PageLabels ".len();
    let mut n = 0usize;
    let mut any = false;
    while i < bytes.len() && bytes[i].is_ascii_digit() {
        n = n * 10 + (bytes[i] - b'0') as usize;
        i += 1;
        any = true;
    }
    if !any || !bytes[i..].starts_with(b" 0 R") {
        return None;
    }
    let head = format!("\n{} 0 obj", n);
    let s = find(bytes, head.as_bytes(), 0)? + head.len();
    let e = find(bytes, b"endobj", s)?;
    Some(bytes[s..e].to_vec())
}

fn run(req: &str) -> String {
    let parts: Vec<&str> = req.split(' ').collect();
    match parts.as_slice() {
        ["fmt", style, n] => {
            let (Some(st), Ok(n)) = (style_of(style), n.parse::<u32>()) else { return "bad-request".into() };
            format!("={}", enc(st.format(n).as_bytes()))
        }
        [op @ ("lab" | "rt" | "def"), adds, idx] => {
            let (Some(adds), Some(idx)) = (parse_adds(adds), parse_indices(idx)) else { return "bad-request".into() };
            let tree = tree_of(&adds);
            match *op {
                "lab" => answers(&idx, |i| tree.get_label(i)),
                "rt" => {
                    let Some(t2) = PageLabelTree::from_dict(&tree.to_dict()) else { return "none".into() };
                    answers(&idx, |i| t2.get_label(i))
                }
                _ => {
                    let mut doc = Document::new();
                    doc.set_page_labels(tree);
                    let doc = std::panic::AssertUnwindSafe(doc);
                    answers(&idx, |i| Some(doc.get_page_label(i)))
                }
            }
        }
        ["fd", nums] => {
            let mut d = Dictionary::new();
            match *nums {
                "@missing" => {}
                "@notarray" => d.set("Nums", Object::Integer(3)),
                "_" => d.set("Nums", Object::Array(vec![])),
                s => {
                    let elems: Option<Vec<Object>> = s.split(',').map(parse_elem).collect();
                    let Some(elems) = elems else { return "bad-request".into() };
                    d.set("Nums", Object::Array(elems));
                }
            }
            match PageLabelTree::from_dict(&d) {
                Some(t) => dump_tree(&t),
                None => "none".into(),
            }
        }
        ["td", adds] => {
            let Some(adds) = parse_adds(adds) else { return "bad-request".into() };
            dump_tree(&tree_of(&adds))
        }
        ["doc", adds, _idx] => {
            let Some(adds) = parse_adds(adds) else { return "bad-request".into() };
            let mut doc = Document::new();
            doc.add_page(Page::a4());
            doc.set_page_labels(tree_of(&adds));
            let cfg = oxidize_pdf::writer::WriterConfig {
                compress_streams: false,
                use_xref_streams: false,
                use_object_streams: false,
                ..Default::default()
            };
            let mut out = Vec::new();
            {
                let mut w = oxidize_pdf::writer::PdfWriter::with_config(&mut out, cfg);
                if let Err(e) = w.write_document(&mut doc) {
                    return format!("err:write:{}", e);
                }
            }
            match cut_page_labels(&out) {
                Some(b) => hex(&b),
                None => "err:no-pagelabels-object".into(),
            }
        }
        _ => "bad-request".into(),
    }
}

// ---------------------------------------------------------------------------------------------
// generator

const STYLES: [&str; 6] = ["D", "R", "r", "A", "a", "N"];
const PREFIXES: [&str; 20] = [
    "", "A-", "Chapter ", "p.", "§", "Anexo ñ ", "(x)\\", "第", "i", "\r", "a\rb\r\n", "((", "))", ")(", "\\", "#23 ", "<</P>>", "/N%c\t", "\u{1F600}",
    "A very long prefix that goes on and on, with (nested (parentheses)) and a trailing backslash \\",
];
/// numeric-portion values worth hitting in every style
const NUMS: [u32; 40] = [
    0, 1, 2, 3, 4, 5, 8, 9, 10, 14, 19, 25, 26, 27, 28, 40, 49, 51, 52, 53, 54, 78, 79, 90, 99, 400, 499, 676, 677,
    702, 703, 704, 900, 999, 1000, 1999, 3999, 4000, 18278, 18279,
];

fn show_add(start_page: u32, style: &str, st: u32, prefix: Option<&str>) -> String {
    format!(
        "{}.{}.{}.{}",
        start_page,
        style,
        st,
        match prefix {
            None => "~".to_string(),
            Some(p) => hex(p.as_bytes()),
        }
    )
}

fn pick_style(rng: &mut Rng) -> &'static str {
    // letters and roman get most of the weight
    match rng.below(10) {
        0 => "D",
        1 | 2 => "R",
        3 | 4 => "r",
        5 | 6 => "A",
        7 | 8 => "a",
        _ => "N",
    }
}

fn pick_st(rng: &mut Rng, style: &str) -> u32 {
    let roman = style == "R" || style == "r";
    match rng.below(12) {
        0..=5 => *rng.pick(&NUMS),
        6 | 7 => 1,
        8 => rng.below(3000) as u32,
        9 => {
            if roman {
                rng.below(2_000_000) as u32
            } else {
                rng.next() as u32
            }
        }
        10 => {
            if roman {
                4000 + rng.below(6000) as u32
            } else {
                u32::MAX - rng.below(60) as u32
            }
        }
        _ => {
            if roman {
                3990 + rng.below(20) as u32
            } else {
                (1u32 << 31) - 1 + rng.below(3) as u32
            }
        }
    }
}

fn gen_adds(rng: &mut Rng) -> (String, Vec<(u32, String, u32)>) {
    let n = match rng.below(10) {
        0 => 0,
        1 | 2 => 1,
        3..=5 => 2,
        6 | 7 => 3,
        8 => 4,
        _ => 6,
    };
    let mut adds = vec![];
    let mut shown = vec![];
    let mut page = if rng.chance(3, 4) { 0 } else { rng.below(5) as u32 };
    for _ in 0..n {
        let style = pick_style(rng);
        let st = pick_st(rng, style);
        let prefix = if rng.chance(1, 2) { None } else { Some(*rng.pick(&PREFIXES)) };
        // sometimes re-use an earlier start (insert replaces), sometimes go backwards
        let start_page = if !adds.is_empty() && rng.chance(1, 8) {
            let (p, _, _): &(u32, String, u32) = rng.pick(&adds);
            *p
        } else if rng.chance(1, 10) {
            rng.below(40) as u32
        } else if rng.chance(1, 40) {
            u32::MAX - rng.below(3) as u32
        } else {
            page
        };
        shown.push(show_add(start_page, style, st, prefix));
        adds.push((start_page, style.to_string(), st));
        page = page.saturating_add(match rng.below(6) {
            0 => 1,
            1 => 2,
            2 => 26,
            3 => 30,
            4 => 1 + rng.below(60) as u32,
            _ => 1 + rng.below(800) as u32,
        });
    }
    (if shown.is_empty() { "_".into() } else { shown.join(";") }, adds)
}

/// greatest start ≤ i, later additions win ties (BTreeMap::insert replaces)
fn applicable(adds: &[(u32, String, u32)], i: u32) -> Option<&(u32, String, u32)> {
    let mut best: Option<&(u32, String, u32)> = None;
    for a in adds {
        if a.0 <= i && best.map(|b| b.0 <= a.0).unwrap_or(true) {
            best = Some(a);
        }
    }
    best
}

fn gen_indices(rng: &mut Rng, adds: &[(u32, String, u32)]) -> Vec<u32> {
    let mut idx = vec![];
    let k = 2 + rng.below(6);
    for _ in 0..k {
        let base = if adds.is_empty() { 0 } else { rng.pick(adds).0 };
        let i = match rng.below(12) {
            0 => base.wrapping_sub(1),
            1 => base,
            2 => base.saturating_add(1),
            3 => base.saturating_add(25 + rng.below(4) as u32),
            4 => base.saturating_add(51 + rng.below(4) as u32),
            5 => base.saturating_add(700 + rng.below(5) as u32),
            6 => rng.below(100) as u32,
            7 => rng.below(5000) as u32,
            8 => base.saturating_add(rng.below(30) as u32),
            9 => base.saturating_add(rng.below(1000) as u32),
            10 => 0,
            _ => {
                if rng.chance(1, 4) {
                    u32::MAX - rng.below(2) as u32
                } else {
                    base.saturating_add(rng.below(100) as u32)
                }
            }
        };
        idx.push(i);
    }
    // keep Roman numerals short enough for the model's quadratic `acc ++ s`
    idx.retain(|&i| {
        match applicable(adds, i) {
            // (since repair 707b2902 a sum beyond u32::MAX saturates instead of panicking, so it is a
            // 4.3-million-letter numeral too: saturation is exercised through the other styles)
            Some((s, sty, st)) if sty == "R" || sty == "r" => (*st as u64) + ((i - s) as u64) <= 3_000_000,
            _ => true,
        }
    });
    if idx.is_empty() {
        idx.push(0);
    }
    idx
}

fn tags_lab(kind: &str, adds: &[(u32, String, u32)], idx: &[u32]) -> String {
    // non-trivial: some queried index falls into a range at offset > 0 or there are ≥ 2 ranges
    let mut nt = adds.len() >= 2;
    let mut t = format!("{} ranges{}", kind, adds.len());
    let mut styles = std::collections::BTreeSet::new();
    for &i in idx {
        if let Some((s, sty, st)) = applicable(adds, i) {
            if i > *s {
                nt = true;
            }
            styles.insert(sty.clone());
            let n = (*st as u64) + ((i - s) as u64);
            if (sty == "A" || sty == "a") && n > 27 {
                styles.insert("letters>27".into());
            }
            if n > u32::MAX as u64 {
                styles.insert("overflow".into());
            }
        } else {
            styles.insert("norange".into());
        }
    }
    for s in styles {
        t.push_str(&format!(" style{}", s));
    }
    if nt {
        t.push_str(" nt");
    }
    t
}

fn gen_fd_val(rng: &mut Rng, key: &str) -> String {
    match (key, rng.below(10)) {
        ("S", 0..=6) => format!("n{}", rng.pick(&["D", "R", "r", "A", "a", "d", "X", "PageLabel", "Roman"])),
        ("Type", 0..=6) => format!("n{}", rng.pick(&["PageLabel", "D", "R", "r", "A", "a", "Pagelabel", "Q"])),
        ("P", 0..=6) => format!("s{}", hex(rng.pick(&PREFIXES).as_bytes())),
        ("St", 0..=6) => format!(
            "i{}",
            match rng.below(8) {
                0 => -1,
                1 => 0,
                2 => 1,
                3 => (1i64 << 32) + rng.below(30) as i64,
                4 => i64::MIN + rng.below(3) as i64,
                5 => i64::MAX - rng.below(3) as i64,
                6 => -(rng.below(1 << 33) as i64),
                _ => rng.below(5000) as i64,
            }
        ),
        (_, 7) => "x".into(),
        (_, 8) => format!("i{}", rng.range(-3, 40)),
        _ => format!("n{}", rng.pick(&["D", "a", "Z"])),
    }
}

fn gen_fd(rng: &mut Rng) -> String {
    match rng.below(25) {
        0 => return "@missing".into(),
        1 => return "@notarray".into(),
        2 => return "_".into(),
        _ => {}
    }
    let n = 1 + rng.below(9);
    let mut elems = vec![];
    for j in 0..n {
        let want_key = j % 2 == 0;
        let well_typed = rng.chance(9, 10);
        if want_key == well_typed {
            // an integer key
            let k: i64 = match rng.below(10) {
                0 => -1,
                1 => (1i64 << 32) + rng.below(5) as i64,
                2 => -(rng.below(1 << 34) as i64),
                3 => 0,
                _ => rng.below(50) as i64,
            };
            elems.push(format!("i{}", k));
        } else if rng.chance(1, 12) {
            elems.push(rng.pick(&["x", "nFoo", "s4142"]).to_string());
        } else {
            let mut fs = vec![];
            for key in ["S", "Type", "P", "St"] {
                let p = match key {
                    "S" => 4,
                    "Type" => 3,
                    "P" => 2,
                    _ => 3,
                };
                if rng.chance(p, 5) {
                    fs.push(format!("{}={}", key, gen_fd_val(rng, key)));
                }
            }
            elems.push(format!("d{}", fs.join("/")));
        }
    }
    elems.join(",")
}

fn gen(rng: &mut Rng, tier: Tier) -> Vec<Case> {
    let mut cases = vec![];
    // (1) exhaustive small values per style, then boundaries
    let lim = if tier == Tier::Quick { 2000 } else { 20000 };
    for sty in ["D", "R", "r", "A", "a"] {
        for n in 0..=lim {
            cases.push(Case::new(format!("fmt {} {}", sty, n), format!("fmt style{}{}", sty, if n > 26 { " nt" } else { "" })));
        }
    }
    for n in [0u32, 1, 27, 4000] {
        cases.push(Case::new(format!("fmt N {}", n), "fmt styleN"));
    }
    let mut big: Vec<u32> = vec![
        3999, 4000, 4001, 4999, 9999, 10000, 18278, 18279, 18280, 475254, 475255, 12356630, 12356631, 99999, 100000, 999999,
        1000000, 2999999, 3000000,
    ];
    for _ in 0..(if tier == Tier::Quick { 150 } else { 1500 }) {
        big.push(rng.below(3_000_000) as u32);
    }
    for &n in &big {
        for sty in ["D", "R", "r", "A", "a"] {
            cases.push(Case::new(format!("fmt {} {}", sty, n), format!("fmt-big style{} nt", sty)));
        }
    }
    for _ in 0..(if tier == Tier::Quick { 150 } else { 1500 }) {
        let n = match rng.below(4) {
            0 => u32::MAX - rng.below(40) as u32,
            1 => (1u32 << 31) - 20 + rng.below(40) as u32,
            _ => rng.next() as u32,
        };
        for sty in ["D", "A", "a"] {
            cases.push(Case::new(format!("fmt {} {}", sty, n), format!("fmt-huge style{} nt", sty)));
        }
    }
    // one really long Roman numeral (the model is quadratic there)
    cases.push(Case::new("fmt r 4000000", "fmt-huge styler nt"));
    // (2) trees × indices through get_label, the dictionary round trip, the Document default
    let n_lab = if tier == Tier::Quick { 4000 } else { 60000 };
    for j in 0..n_lab {
        let (adds_s, adds) = gen_adds(rng);
        let idx = gen_indices(rng, &adds);
        let op = match j % 8 {
            0..=3 => "lab",
            4 | 5 => "rt",
            _ => "def",
        };
        let idx_s = idx.iter().map(|i| i.to_string()).collect::<Vec<_>>().join(",");
        cases.push(Case::new(format!("{} {} {}", op, adds_s, idx_s), tags_lab(op, &adds, &idx)));
    }
    // (3) from_dict on arbitrary /Nums values (malformed stream)
    let n_fd = if tier == Tier::Quick { 1500 } else { 20000 };
    for _ in 0..n_fd {
        let s = gen_fd(rng);
        let nt = s.contains('d');
        cases.push(Case::new(format!("fd {}", s), format!("fd{}", if nt { " nt" } else { "" })));
    }
    // (4) to_dict dumps
    for _ in 0..(if tier == Tier::Quick { 300 } else { 3000 }) {
        let (adds_s, adds) = gen_adds(rng);
        cases.push(Case::new(format!("td {}", adds_s), format!("td ranges{}{}", adds.len(), if adds.is_empty() { "" } else { " nt" })));
    }
    // (5) written documents: the /PageLabels object as an independent reader sees it
    let n_doc = if tier == Tier::Quick { 300 } else { 3000 };
    for _ in 0..n_doc {
        let (adds_s, adds) = gen_adds(rng);
        let idx = gen_indices(rng, &adds);
        let idx_s = idx.iter().map(|i| i.to_string()).collect::<Vec<_>>().join(",");
        cases.push(Case::new(format!("doc {} {}", adds_s, idx_s), tags_lab("doc", &adds, &idx)));
    }
    cases
}

fn main() {
    harness_main(gen, run, Limits::default());
}
