//! C14 — drives the real `HybridChunker::{chunk, chunk_with_graph}` (pipeline/hybrid_chunking.rs,
//! pipeline/graph.rs) through the public API, with the crate's word-proxy counter and synthetic
//! `TokenCounter`s injected via `HybridChunker::with_token_counter`.
//!
//! Request (one line, space separated):
//!   `<seq|graph> <max_tokens> <merge 0|1> <propagate 0|1> <policy S|A> <ctx N|H|L|P> <counter> <elements>`
//! counter: `wp` (crate WordProxyCounter) | `nws1`/`nws0` (non-white-space chars, declares additive yes/no)
//!        | `c31`/`c30` (ceil(chars/3), declares additive yes(=lie)/no)
//! elements: `.` (none) or `;`-joined `K,id,page,ph,hp,font,payload`
//!   K  T title, P paragraph, B table, H header, F footer, L list item, I image, C code block, V key-value
//!   id decimal, carried in bbox.x (an exactly representable integer; provenance tag, not a measured float)
//!   ph `~` none | hex(utf-8) (`-` = empty string)          hp `.` empty | hex/hex/…
//!   font `<~|hex name>:<flags>` flags = bold(1)+italic(2)+font_size present(4)
//!   payload  text kinds: hex | image: `~`/hex | key-value: hex=hex | table: `.` no rows, rows `|`-joined,
//!            a row is `_` (no cells) or `:`-joined hex cells
//! Answer: `.` (no chunks) or `#`-joined `<heading ~|hex>!<oversized 0|1>!<token_estimate>!<text() hex>!<elements>`
//!   (elements in the request syntax). `nondeterministic` when two runs of the same call differ
//!   (the second run uses a different `overlap_tokens`, which the chunker must ignore).
use oxidize_pdf::pipeline::{
    ContextFormat, ContextMode, Element, ElementBBox, ElementData, ElementGraph, ElementMetadata,
    HybridChunkConfig, HybridChunker, ImageElementData, KeyValueElementData, MergePolicy,
    TableElementData, TokenCounter, WordProxyCounter,
};
use oxiharness::*;
use std::sync::Arc;

// ---------------------------------------------------------------- synthetic counters
struct Nws(bool);
impl TokenCounter for Nws {
    fn count(&self, t: &str) -> usize {
        t.chars().filter(|c| !c.is_whitespace()).count()
    }
    fn name(&self) -> &'static str {
        "nws"
    }
    fn is_additive_over_whitespace_join(&self) -> bool {
        self.0
    }
}
struct C3(bool);
impl TokenCounter for C3 {
    fn count(&self, t: &str) -> usize {
        (t.chars().count() + 2) / 3
    }
    fn name(&self) -> &'static str {
        "c3"
    }
    fn is_additive_over_whitespace_join(&self) -> bool {
        self.0
    }
}

fn counter(name: &str) -> Option<Arc<dyn TokenCounter>> {
    Some(match name {
        "wp" => Arc::new(WordProxyCounter),
        "nws1" => Arc::new(Nws(true)),
        "nws0" => Arc::new(Nws(false)),
        "c31" => Arc::new(C3(true)),
        "c30" => Arc::new(C3(false)),
        _ => return None,
    })
}

// ---------------------------------------------------------------- element syntax
fn hs(s: &str) -> String {
    hex(s.as_bytes())
}
fn uhs(s: &str) -> Option<String> {
    String::from_utf8(unhex(s)?).ok()
}
fn opt_hs(s: &Option<String>) -> String {
    match s {
        None => "~".into(),
        Some(x) => hs(x),
    }
}
fn opt_uhs(s: &str) -> Option<Option<String>> {
    if s == "~" {
        Some(None)
    } else {
        uhs(s).map(Some)
    }
}

fn parse_elem(s: &str) -> Option<Element> {
    let f: Vec<&str> = s.split(',').collect();
    if f.len() != 7 {
        return None;
    }
    let id: u64 = f[1].parse().ok()?;
    let page: u32 = f[2].parse().ok()?;
    let ph = opt_uhs(f[3])?;
    let hp: Vec<String> = if f[4] == "." {
        vec![]
    } else {
        f[4].split('/').map(uhs).collect::<Option<Vec<_>>>()?
    };
    let (fname, flags) = f[5].split_once(':')?;
    let font_name = opt_uhs(fname)?;
    let flags: u32 = flags.parse().ok()?;
    let metadata = ElementMetadata {
        page,
        bbox: ElementBBox::new(id as f64, 0.0, 0.0, 0.0),
        confidence: 0.5,
        font_name,
        font_size: if flags & 4 != 0 { Some(11.0) } else { None },
        is_bold: flags & 1 != 0,
        is_italic: flags & 2 != 0,
        parent_heading: ph,
        heading_path: hp,
        ..Default::default()
    };
    let p = f[6];
    let data = |text: String| ElementData { text, metadata: metadata.clone() };
    Some(match f[0] {
        "T" => Element::Title(data(uhs(p)?)),
        "P" => Element::Paragraph(data(uhs(p)?)),
        "H" => Element::Header(data(uhs(p)?)),
        "F" => Element::Footer(data(uhs(p)?)),
        "L" => Element::ListItem(data(uhs(p)?)),
        "C" => Element::CodeBlock(data(uhs(p)?)),
        "I" => Element::Image(ImageElementData { alt_text: opt_uhs(p)?, metadata }),
        "V" => {
            let (k, v) = p.split_once('=')?;
            Element::KeyValue(KeyValueElementData { key: uhs(k)?, value: uhs(v)?, metadata })
        }
        "B" => {
            let rows: Vec<Vec<String>> = if p == "." {
                vec![]
            } else {
                p.split('|')
                    .map(|r| {
                        if r == "_" {
                            Some(vec![])
                        } else {
                            r.split(':').map(uhs).collect::<Option<Vec<_>>>()
                        }
                    })
                    .collect::<Option<Vec<_>>>()?
            };
            Element::Table(TableElementData::new(rows, metadata))
        }
        _ => return None,
    })
}

fn show_elem(e: &Element) -> String {
    let m = e.metadata();
    let (k, payload) = match e {
        Element::Title(d) => ("T", hs(&d.text)),
        Element::Paragraph(d) => ("P", hs(&d.text)),
        Element::Header(d) => ("H", hs(&d.text)),
        Element::Footer(d) => ("F", hs(&d.text)),
        Element::ListItem(d) => ("L", hs(&d.text)),
        Element::CodeBlock(d) => ("C", hs(&d.text)),
        Element::Image(i) => ("I", opt_hs(&i.alt_text)),
        Element::KeyValue(kv) => ("V", format!("{}={}", hs(&kv.key), hs(&kv.value))),
        Element::Table(t) => (
            "B",
            if t.rows.is_empty() {
                ".".to_string()
            } else {
                t.rows
                    .iter()
                    .map(|r| {
                        if r.is_empty() {
                            "_".to_string()
                        } else {
                            r.iter().map(|c| hs(c)).collect::<Vec<_>>().join(":")
                        }
                    })
                    .collect::<Vec<_>>()
                    .join("|")
            },
        ),
    };
    let hp = if m.heading_path.is_empty() {
        ".".to_string()
    } else {
        m.heading_path.iter().map(|h| hs(h)).collect::<Vec<_>>().join("/")
    };
    let flags = (m.is_bold as u32) | ((m.is_italic as u32) << 1) | ((m.font_size.is_some() as u32) << 2);
    // bbox.x carries the integer id given in the request
    let id = if m.bbox.x >= 0.0 && m.bbox.x.fract() == 0.0 { m.bbox.x as u64 } else { u64::MAX };
    format!(
        "{},{},{},{},{},{}:{},{}",
        k,
        id,
        m.page,
        opt_hs(&m.parent_heading),
        hp,
        opt_hs(&m.font_name),
        flags,
        payload
    )
}

fn run_once(req: &str, overlap_tokens: usize) -> String {
    let f: Vec<&str> = req.split(' ').collect();
    if f.len() != 8 {
        return "bad-request".into();
    }
    let Ok(max_tokens) = f[1].parse::<usize>() else { return "bad-request".into() };
    let merge_adjacent = f[2] == "1";
    let propagate_headings = f[3] == "1";
    let merge_policy = if f[4] == "S" { MergePolicy::SameTypeOnly } else { MergePolicy::AnyInlineContent };
    let context_mode = match f[5] {
        "N" => ContextMode::None,
        "L" => ContextMode::Contextual(ContextFormat::Labeled),
        "P" => ContextMode::Contextual(ContextFormat::Prose),
        _ => ContextMode::Heading,
    };
    let Some(cnt) = counter(f[6]) else { return "bad-request".into() };
    let elements: Vec<Element> = if f[7] == "." {
        vec![]
    } else {
        match f[7].split(';').map(parse_elem).collect::<Option<Vec<_>>>() {
            Some(e) => e,
            None => return "bad-request".into(),
        }
    };
    let config = HybridChunkConfig {
        max_tokens,
        overlap_tokens,
        merge_adjacent,
        propagate_headings,
        merge_policy,
        context_mode,
    };
    let chunker = HybridChunker::new(config).with_token_counter(cnt);
    let chunks = match f[0] {
        "seq" => chunker.chunk(&elements),
        "graph" => {
            let g = ElementGraph::build(&elements);
            chunker.chunk_with_graph(&elements, &g)
        }
        _ => return "bad-request".into(),
    };
    if chunks.is_empty() {
        return ".".into();
    }
    chunks
        .iter()
        .map(|c| {
            format!(
                "{}!{}!{}!{}!{}",
                opt_hs(&c.heading_context),
                c.is_oversized() as u8,
                c.token_estimate(),
                hs(&c.text()),
                c.elements().iter().map(show_elem).collect::<Vec<_>>().join(";")
            )
        })
        .collect::<Vec<_>>()
        .join("#")
}

fn run(req: &str) -> String {
    // second run: same request, a different `overlap_tokens` (documented as ignored: chunks are
    // element-disjoint) — derived from the request so that 0, small and huge values all occur
    let other = match req.len() % 4 {
        0 => 0,
        1 => 1,
        2 => 7,
        _ => usize::MAX,
    };
    let a = run_once(req, 50);
    let b = run_once(req, other);
    if a != b {
        return "nondeterministic".into();
    }
    a
}

// ---------------------------------------------------------------- generator
const WORDS: &[&str] = &[
    "a", "of", "the", "page", "token", "budget", "e.g.", "v1.2", "Dr.", "wait", "No", "x", "chunk", "caf\u{e9}",
    "\u{4e2d}\u{6587}", "3.14", "end", "URL", "ok", "z",
];
const SEPS: &[&str] = &[
    " ", " ", " ", " ", ". ", ". ", "! ", "? ", "\n", ".", "!", "?  ", ".  ", "\t", "  ", "\u{a0}", "\u{2003}",
    ".\n", "\r\n", "\u{85}", "\u{3000}", ". . ", ".\u{a0}", "\n\n", " .", "?!", "... ",
];
const HEADS: &[&str] = &["H1", "H2", "Intro", "", "Gone", "H1 ", "a b"];

fn gen_text(r: &mut Rng, max_words: u64) -> String {
    let n = r.below(max_words + 1);
    let mut s = String::new();
    if r.chance(1, 10) {
        s.push_str(*r.pick(&[" ", "\n", "\t ", "\u{a0}", ". "]));
    }
    for i in 0..n {
        if i > 0 {
            s.push_str(*r.pick(SEPS));
        }
        s.push_str(*r.pick(WORDS));
    }
    if n > 0 && r.chance(1, 2) {
        s.push_str(*r.pick(&[".", ". ", "!", "?", " ", "\n", ".\n", "\u{2003}"]));
    }
    if r.chance(1, 40) {
        // white space only
        s = (*r.pick(&[" ", "  \n ", "\t", "\u{a0}\u{a0}\u{a0}\u{a0}", "       "])).to_string();
    }
    s
}

fn count_with(name: &str, t: &str) -> usize {
    counter(name).unwrap().count(t)
}

struct GenElem {
    kind: char,
    ph: Option<String>,
    hp: Vec<String>,
    page: u32,
    font: Option<String>,
    flags: u32,
    payload: String,  // request syntax
    display: String,  // display_text, for boundary computation
    text: String,     // text()
}

fn gen_elem(r: &mut Rng, kind: char, long: bool) -> GenElem {
    let mw = if long { 14 } else { 5 };
    let (payload, display, text) = match kind {
        'I' => {
            if r.chance(1, 3) {
                ("~".to_string(), String::new(), String::new())
            } else {
                let t = gen_text(r, mw);
                (hs(&t), t.clone(), t)
            }
        }
        'V' => {
            let k = gen_text(r, 2);
            let v = gen_text(r, mw);
            (format!("{}={}", hs(&k), hs(&v)), format!("{}: {}", k, v), v)
        }
        'B' => {
            let nr = r.below(4);
            let rows: Vec<Vec<String>> = (0..nr)
                .map(|_| {
                    let nc = r.below(4);
                    (0..nc).map(|_| gen_text(r, 2)).collect()
                })
                .collect();
            let p = if rows.is_empty() {
                ".".to_string()
            } else {
                rows.iter()
                    .map(|row| if row.is_empty() { "_".to_string() } else { row.iter().map(|c| hs(c)).collect::<Vec<_>>().join(":") })
                    .collect::<Vec<_>>()
                    .join("|")
            };
            let d = rows.iter().map(|row| row.join(" | ")).collect::<Vec<_>>().join("\n");
            (p, d, String::new())
        }
        'T' => {
            let t = if r.chance(4, 5) { r.pick(HEADS).to_string() } else { gen_text(r, 3) };
            (hs(&t), t.clone(), t)
        }
        _ => {
            let t = gen_text(r, mw);
            (hs(&t), t.clone(), t)
        }
    };
    GenElem {
        kind,
        ph: None,
        hp: vec![],
        page: r.below(4) as u32,
        font: if r.chance(1, 3) { Some((*r.pick(&["Helvetica", "Times", ""])).to_string()) } else { None },
        flags: r.below(8) as u32,
        payload,
        display,
        text,
    }
}

fn show_gen(e: &GenElem, id: usize) -> String {
    let hp = if e.hp.is_empty() { ".".to_string() } else { e.hp.iter().map(|h| hs(h)).collect::<Vec<_>>().join("/") };
    format!("{},{},{},{},{},{}:{},{}", e.kind, id, e.page, opt_hs(&e.ph), hp, opt_hs(&e.font), e.flags, e.payload)
}

/// sectioning style: 0 = well sectioned (ph = most recent title), 1 = stale/random headings,
/// 2 = no headings at all, 3 = well sectioned with a few perturbations,
/// 4 = well sectioned with REPEATED title texts (a "Notes"/"Summary" heading in every chapter),
/// 5 = every body element names the text of some title of the list, earlier OR LATER (forward
///     references, also from the preamble), title texts repeated
fn gen_elems(r: &mut Rng, n: usize, style: u64, kinds: &[char], long: bool) -> Vec<GenElem> {
    let mut out: Vec<GenElem> = vec![];
    let mut cur: Option<String> = None;
    let mut path: Vec<String> = vec![];
    for _ in 0..n {
        let mut k = *r.pick(kinds);
        if style >= 4 && k != 'T' && r.chance(1, 4) {
            k = 'T';
        }
        let mut e = gen_elem(r, k, long);
        if k == 'T' && style >= 4 && r.chance(3, 4) {
            let t = (*r.pick(&["Notes", "Notes", "Summary", "Chapter"])).to_string();
            e.payload = hs(&t);
            e.display = t.clone();
            e.text = t;
        }
        if k == 'T' {
            cur = Some(e.text.clone());
            if r.chance(1, 2) {
                path.clear();
            }
            path.push(e.text.clone());
            e.ph = match r.below(6) {
                0 => None,
                1 => Some(r.pick(HEADS).to_string()),
                _ => cur.clone(),
            };
            if style == 2 {
                e.ph = None;
            }
            e.hp = path.clone();
        } else {
            e.ph = match style {
                0 | 4 | 5 => cur.clone(),
                1 => {
                    if r.chance(1, 4) {
                        None
                    } else {
                        Some(r.pick(HEADS).to_string())
                    }
                }
                2 => None,
                _ => {
                    if r.chance(1, 6) {
                        if r.chance(1, 2) { None } else { Some(r.pick(HEADS).to_string()) }
                    } else {
                        cur.clone()
                    }
                }
            };
            e.hp = if style == 2 { vec![] } else { path.clone() };
        }
        out.push(e);
    }
    if style == 5 {
        let titles: Vec<String> = out.iter().filter(|e| e.kind == 'T').map(|e| e.text.clone()).collect();
        if !titles.is_empty() {
            for e in out.iter_mut() {
                if e.kind != 'T' && r.chance(2, 3) {
                    e.ph = Some(r.pick(&titles).clone());
                }
            }
        }
    }
    out
}

fn well_sectioned(es: &[GenElem]) -> bool {
    let mut cur: Option<String> = None;
    for e in es {
        if e.kind == 'T' {
            cur = Some(e.text.clone());
        } else if cur.is_some() && e.ph != cur {
            return false;
        }
    }
    true
}

fn gen(r: &mut Rng, tier: Tier) -> Vec<Case> {
    let total = if tier == Tier::Quick { 4000 } else { 60000 };
    let mut cases = vec![];
    let all_kinds: Vec<char> = "TPPPPLLVBHFICTPL".chars().collect();
    let inline_kinds: Vec<char> = "PPPLLVT".chars().collect();
    let para_kinds: Vec<char> = "PPPPLT".chars().collect();
    let counters = ["wp", "wp", "nws1", "nws0", "c30", "c30", "c31"];
    for i in 0..total {
        let mode = if r.chance(1, 2) { "seq" } else { "graph" };
        let n = match r.below(10) {
            0 => r.below(2) as usize,
            1..=6 => 2 + r.below(5) as usize,
            _ => 5 + r.below(9) as usize,
        };
        let style = r.below(6);
        let kinds = match r.below(3) {
            0 => &all_kinds,
            1 => &inline_kinds,
            _ => &para_kinds,
        };
        let long = r.chance(1, 3);
        let es = gen_elems(r, n, style, kinds, long);
        let cname = *r.pick(&counters);
        // max_tokens: small table, or a boundary derived from real costs of this very input
        let max = match r.below(4) {
            0 => *r.pick(&[0usize, 1, 2, 3, 4, 5, 8, 13, 40, 1000]),
            _ if !es.is_empty() => {
                let a = r.below(es.len() as u64) as usize;
                let len = 1 + r.below(3.min((es.len() - a) as u64)) as usize;
                let joined = es[a..a + len].iter().map(|e| e.display.as_str()).collect::<Vec<_>>().join("\n");
                let summed: usize = es[a..a + len].iter().map(|e| count_with(cname, &e.display)).sum();
                let base = if r.chance(1, 2) { count_with(cname, &joined) } else { summed };
                let d = r.below(3) as i64 - 1;
                (base as i64 + d).max(0) as usize
            }
            _ => 3,
        };
        let merge = if r.chance(5, 6) { 1 } else { 0 };
        let prop = if r.chance(3, 4) { 1 } else { 0 };
        let policy = if r.chance(1, 3) { "S" } else { "A" };
        let ctx = *r.pick(&["N", "H", "L", "P"]);
        let elems = if es.is_empty() {
            ".".to_string()
        } else {
            es.iter().enumerate().map(|(j, e)| show_gen(e, j + 1)).collect::<Vec<_>>().join(";")
        };
        let req = format!("{} {} {} {} {} {} {} {}", mode, max, merge, prop, policy, ctx, cname, elems);
        // non-trivial: at least one merge opportunity or one over-budget element, i.e. the budget matters
        let costs: Vec<usize> = es.iter().map(|e| count_with(cname, &e.display)).collect();
        let over = costs.iter().any(|&c| c > max);
        let pair = costs.windows(2).any(|w| w[0] + w[1] <= max + 1);
        let nt = es.len() >= 2 && (over || pair);
        let ws = well_sectioned(&es);
        let titles: Vec<(usize, &str)> =
            es.iter().enumerate().filter(|(_, e)| e.kind == 'T').map(|(i, e)| (i, e.text.as_str())).collect();
        let dup_title = titles.iter().any(|(i, t)| titles.iter().any(|(j, u)| j < i && u == t));
        // a body element between two titles of the same text that names that text: the earlier
        // title must get it (`active`, not `latest`, map)
        let between_dups = es.iter().enumerate().any(|(k, e)| {
            e.kind != 'T'
                && e.ph.as_deref().map_or(false, |h| {
                    titles.iter().any(|(i, t)| *i < k && *t == h) && titles.iter().any(|(j, t)| *j > k && *t == h)
                })
        });
        let fwd_ref = es.iter().enumerate().any(|(k, e)| {
            e.kind != 'T'
                && e.ph.as_deref().map_or(false, |h| {
                    !titles.iter().any(|(i, t)| *i < k && *t == h) && titles.iter().any(|(j, t)| *j > k && *t == h)
                })
        });
        let tags = format!(
            "{} cnt-{} n{} {} {}{}{}{}{}{}",
            mode,
            cname,
            if es.len() <= 1 { "0-1" } else if es.len() <= 6 { "2-6" } else { "7+" },
            if ws { "wellsec" } else { "stale" },
            if dup_title { "dup-title " } else { "" },
            if between_dups { "between-dups " } else { "" },
            if fwd_ref { "fwd-ref " } else { "" },
            if over { "over " } else { "" },
            if merge == 0 { "nomerge " } else { "" },
            if nt { "nt" } else { "" }
        );
        let _ = i;
        cases.push(Case::new(req, tags));
    }
    cases
}

fn main() {
    harness_main(gen, run, Limits::default());
}
