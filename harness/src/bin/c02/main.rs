//! C02 — documents written by the library read back with the same content (builder b-c02).
//!
//! Request `rt <cfg> <program>`
//!   cfg     = `c|x|o|xo : z|n : version`            (c03/author.rs `parse_cfg`)
//!   program = authoring DSL of c03/author.rs, restricted by the generator to what C02 models
//!             (pages with size / rotation, path + paint + state + colour ops, text in the 14
//!             standard fonts, raw grey / RGB images, Info strings); `meta!0` = a document
//!             without pages.
//! The document is built through the public API, written by the REAL `PdfWriter::with_config`
//! and then
//!   L: re-opened by the REAL reader (`PdfReader::new` -> `PdfDocument`: page_count, get_page,
//!      get_page_content_streams, `ContentParser::parse_content`, page resources -> XObject
//!      streams -> `decode_stream`, `metadata`),
//!   S: scanned by the independent STRICT scanner `c03/scan.rs` (ISO 32000-1 7.2/7.3/7.5,
//!      flate2 for RFC 1950): every object reachable through the cross-reference data is
//!      reported with the exact bytes of its value (and of its stream data, raw and decoded).
//! IMPL answer = space separated tokens
//!   `L:ok` | `L:err:<class>`   `L:n=<pages>`   `L:p<i>=<mediabox>|<rot>|<ops>|<images>`   `L:info=<..>`
//!   `S:ok,root=<n>,info=<n>` | `S:err:<class>`   `S:o<id>=D:<hex>` | `S:o<id>=S:<dict hex>:<raw hex>:<decoded hex or =>`
//!   | `S:o<id>=M` (the XMP metadata stream: presence only)
//! The Lean driver (Drv/C02.lean) re-derives every token from the request with the model
//! (Model/C02.lean) — the `S:` tokens from the model WRITER alone (object construction +
//! serializer), the `L:` tokens from the model READER applied to the model writer's objects —
//! and evaluates the oracle: the `L:` observation and an independent reading of the `S:` objects
//! must both equal the authored content.
#[path = "../c03/author.rs"]
mod author;
#[path = "../c03/scan.rs"]
mod scan;

use author::*;
use oxidize_pdf::parser::content::{ContentOperation, ContentParser, TextElement};
use oxidize_pdf::parser::objects::{PdfDictionary, PdfObject};
use oxidize_pdf::parser::{PdfDocument, PdfReader};
use oxidize_pdf::Document;
use oxiharness::*;
use std::io::Cursor;

// ------------------------------------------------------------------------------------------
// building

fn build(prog: &str) -> Result<Document, String> {
    let (meta, pages) = prog.split_once('!').ok_or("no-meta")?;
    if pages == "0" {
        // a document without pages (the DSL of author.rs needs at least one `P`): the metadata
        // part is replayed here the way `build_doc` does it
        let mut doc = Document::new();
        let mut dt: i64 = 0;
        let txt = |h: &str| -> Result<String, String> { String::from_utf8(unhex(h).ok_or("bad-hex")?).map_err(|_| "bad-utf8".to_string()) };
        if meta != "-" {
            for item in meta.split(';') {
                let (k, v) = item.split_once('=').ok_or("bad-meta")?;
                match k {
                    "t" => doc.set_title(txt(v)?),
                    "a" => doc.set_author(txt(v)?),
                    "s" => doc.set_subject(txt(v)?),
                    "k" => doc.set_keywords(txt(v)?),
                    "c" => doc.set_creator(txt(v)?),
                    "p" => doc.set_producer(txt(v)?),
                    "dt" => dt = v.parse().map_err(|_| "bad-dt")?,
                    _ => return Err("bad-meta-key".into()),
                }
            }
        }
        doc.set_creation_date(epoch_plus((978307200 + dt) as u64));
        doc.set_modification_date(epoch_plus((978307200 + dt) as u64));
        return Ok(doc);
    }
    Ok(build_doc(prog)?.doc)
}

fn epoch_plus<T: Default + std::ops::Add<std::time::Duration, Output = T>>(secs: u64) -> T {
    T::default() + std::time::Duration::from_secs(secs)
}

// ------------------------------------------------------------------------------------------
// L: the library's own reader

fn f3(v: f32) -> String {
    format!("{:.3}", v)
}

fn hx(b: &[u8]) -> String {
    hex(b)
}

fn show_op(op: &ContentOperation) -> String {
    use ContentOperation::*;
    let nums = |kw: &str, v: &[f32]| {
        let mut s = kw.to_string();
        for x in v {
            s.push(',');
            s.push_str(&f3(*x));
        }
        s
    };
    match op {
        BeginText => "BT".into(),
        EndText => "ET".into(),
        SetCharSpacing(a) => nums("Tc", &[*a]),
        SetWordSpacing(a) => nums("Tw", &[*a]),
        SetHorizontalScaling(a) => nums("Tz", &[*a]),
        SetLeading(a) => nums("TL", &[*a]),
        SetFont(n, s) => format!("Tf,/{},{}", hx(n.as_bytes()), f3(*s)),
        SetTextRenderMode(i) => format!("Tr,i{}", i),
        SetTextRise(a) => nums("Ts", &[*a]),
        MoveText(a, b) => nums("Td", &[*a, *b]),
        MoveTextSetLeading(a, b) => nums("TD", &[*a, *b]),
        SetTextMatrix(a, b, c, d, e, f) => nums("Tm", &[*a, *b, *c, *d, *e, *f]),
        NextLine => "T*".into(),
        ShowText(b) => format!("Tj,s{}", hx(b)),
        ShowTextArray(es) => {
            let mut s = "TJ,[".to_string();
            for (i, e) in es.iter().enumerate() {
                if i > 0 {
                    s.push('_');
                }
                match e {
                    TextElement::Text(b) => s.push_str(&format!("s{}", hx(b))),
                    TextElement::Spacing(v) => s.push_str(&f3(*v)),
                }
            }
            s.push(']');
            s
        }
        NextLineShowText(b) => format!("',s{}", hx(b)),
        SetSpacingNextLineShowText(a, b, t) => format!("\",{},{},s{}", f3(*a), f3(*b), hx(t)),
        SaveGraphicsState => "q".into(),
        RestoreGraphicsState => "Q".into(),
        SetTransformMatrix(a, b, c, d, e, f) => nums("cm", &[*a, *b, *c, *d, *e, *f]),
        SetLineWidth(a) => nums("w", &[*a]),
        SetLineCap(i) => format!("J,i{}", i),
        SetLineJoin(i) => format!("j,i{}", i),
        SetMiterLimit(a) => nums("M", &[*a]),
        SetDashPattern(v, ph) => {
            let mut s = "d,[".to_string();
            for (i, x) in v.iter().enumerate() {
                if i > 0 {
                    s.push('_');
                }
                s.push_str(&f3(*x));
            }
            s.push_str("],");
            s.push_str(&f3(*ph));
            s
        }
        SetIntent(n) => format!("ri,/{}", hx(n.as_bytes())),
        SetFlatness(a) => nums("i", &[*a]),
        SetGraphicsStateParams(n) => format!("gs,/{}", hx(n.as_bytes())),
        MoveTo(a, b) => nums("m", &[*a, *b]),
        LineTo(a, b) => nums("l", &[*a, *b]),
        CurveTo(a, b, c, d, e, f) => nums("c", &[*a, *b, *c, *d, *e, *f]),
        CurveToV(a, b, c, d) => nums("v", &[*a, *b, *c, *d]),
        CurveToY(a, b, c, d) => nums("y", &[*a, *b, *c, *d]),
        ClosePath => "h".into(),
        Rectangle(a, b, c, d) => nums("re", &[*a, *b, *c, *d]),
        Stroke => "S".into(),
        CloseStroke => "s".into(),
        Fill => "f".into(),
        FillEvenOdd => "f*".into(),
        FillStroke => "B".into(),
        FillStrokeEvenOdd => "B*".into(),
        CloseFillStroke => "b".into(),
        CloseFillStrokeEvenOdd => "b*".into(),
        EndPath => "n".into(),
        Clip => "W".into(),
        ClipEvenOdd => "W*".into(),
        SetStrokingGray(a) => nums("G", &[*a]),
        SetNonStrokingGray(a) => nums("g", &[*a]),
        SetStrokingRGB(a, b, c) => nums("RG", &[*a, *b, *c]),
        SetNonStrokingRGB(a, b, c) => nums("rg", &[*a, *b, *c]),
        SetStrokingCMYK(a, b, c, d) => nums("K", &[*a, *b, *c, *d]),
        SetNonStrokingCMYK(a, b, c, d) => nums("k", &[*a, *b, *c, *d]),
        PaintXObject(n) => format!("Do,/{}", hx(n.as_bytes())),
        other => format!("?{}", hx(format!("{:?}", other).as_bytes())),
    }
}

fn err_class<E: std::fmt::Debug>(e: &E) -> String {
    let s = format!("{:?}", e);
    let head: String = s.chars().take_while(|c| c.is_ascii_alphanumeric()).collect();
    if head.is_empty() {
        "other".into()
    } else {
        head
    }
}

fn page_images<R: std::io::Read + std::io::Seek>(doc: &PdfDocument<R>, res: Option<&PdfDictionary>) -> Result<String, String> {
    let Some(res) = res else { return Ok("-".into()) };
    let Some(xo) = res.get("XObject") else { return Ok("-".into()) };
    let xo = doc.resolve(xo).map_err(|e| format!("xobject-resolve-{}", err_class(&e)))?;
    let PdfObject::Dictionary(xd) = xo else { return Err("xobject-not-dict".into()) };
    let mut out: Vec<(Vec<u8>, String)> = vec![];
    for (name, v) in xd.0.iter() {
        let r = doc.resolve(v).map_err(|e| format!("image-resolve-{}", err_class(&e)))?;
        let PdfObject::Stream(st) = r else { return Err("image-not-stream".into()) };
        let gi = |k: &str| st.dict.get(k).and_then(|o| o.as_integer()).map(|i| i.to_string()).unwrap_or_else(|| "?".into());
        let cs = st.dict.get("ColorSpace").and_then(|o| o.as_name()).map(|n| hx(n.0.as_bytes())).unwrap_or_else(|| "?".into());
        let data = doc.decode_stream(&st).map_err(|e| format!("image-decode-{}", err_class(&e)))?;
        out.push((
            name.0.as_bytes().to_vec(),
            format!("{}:{}:{}:{}:{}:{}", hx(name.0.as_bytes()), gi("Width"), gi("Height"), cs, gi("BitsPerComponent"), hx(&data)),
        ));
    }
    out.sort();
    if out.is_empty() {
        return Ok("-".into());
    }
    Ok(out.into_iter().map(|x| x.1).collect::<Vec<_>>().join(";"))
}

fn lib_read(bytes: &[u8]) -> Vec<String> {
    let mut t = vec![];
    let reader = match PdfReader::new(Cursor::new(bytes.to_vec())) {
        Ok(r) => r,
        Err(e) => return vec![format!("L:err:open-{}", err_class(&e))],
    };
    let doc = PdfDocument::new(reader);
    let n = match doc.page_count() {
        Ok(n) => n,
        Err(e) => return vec![format!("L:err:page-count-{}", err_class(&e))],
    };
    t.push("L:ok".to_string());
    t.push(format!("L:n={}", n));
    for i in 0..n {
        let page = match doc.get_page(i) {
            Ok(p) => p,
            Err(e) => {
                t.push(format!("L:p{}=err:get-page-{}", i, err_class(&e)));
                continue;
            }
        };
        let mb = page.media_box.iter().map(|v| format!("{:.3}", v)).collect::<Vec<_>>().join(",");
        let ops = match doc.get_page_content_streams(&page) {
            Err(e) => format!("err:streams-{}", err_class(&e)),
            Ok(streams) => {
                let mut all: Vec<String> = vec![];
                let mut bad = None;
                for s in &streams {
                    match ContentParser::parse_content(s) {
                        Ok(ops) => all.extend(ops.iter().map(show_op)),
                        Err(e) => {
                            bad = Some(format!("err:content-{}", err_class(&e)));
                            break;
                        }
                    }
                }
                match bad {
                    Some(b) => b,
                    None if all.is_empty() => "-".into(),
                    None => all.join(";"),
                }
            }
        };
        let imgs = match page_images(&doc, page.get_resources()) {
            Ok(s) => s,
            Err(e) => format!("err:{}", e),
        };
        t.push(format!("L:p{}={}|{}|{}|{}", i, mb, page.rotation, ops, imgs));
    }
    match doc.metadata() {
        Err(e) => t.push(format!("L:info=err:{}", err_class(&e))),
        Ok(m) => {
            let mut f = vec![];
            for (k, v) in [("T", &m.title), ("A", &m.author), ("S", &m.subject), ("K", &m.keywords), ("C", &m.creator), ("P", &m.producer)] {
                if let Some(v) = v {
                    f.push(format!("{}:{}", k, hx(v.as_bytes())));
                }
            }
            t.push(format!("L:info={}", if f.is_empty() { "-".to_string() } else { f.join(";") }));
        }
    }
    t
}

// ------------------------------------------------------------------------------------------
// S: the independent strict scanner

fn value_end(b: &[u8], start: usize) -> Result<usize, String> {
    let mut p = scan::P::new(b, start);
    p.value()?;
    Ok(p.i)
}

fn is_container(v: &scan::Val) -> bool {
    matches!(v.get("Type").and_then(|t| t.as_name()), Some(b"XRef") | Some(b"ObjStm"))
}

fn scan_tokens(bytes: &[u8]) -> Vec<String> {
    let sc = match scan::scan(bytes) {
        Ok(s) => s,
        Err(e) => return vec![format!("S:err:{}", e.replace(' ', "-"))],
    };
    let refnum = |k: &str| match sc.trailer.get(k) {
        Some(scan::Val::Ref(n, _)) => n.to_string(),
        _ => "-".into(),
    };
    let mut t = vec![format!("S:ok,root={},info={}", refnum("Root"), refnum("Info"))];
    let mut stm_cache: std::collections::BTreeMap<u64, Vec<u8>> = Default::default();
    for (num, ent) in sc.entries.iter() {
        match ent {
            scan::XEntry::Free(_, _) => {}
            scan::XEntry::InUse(off, _) => {
                let Some(o) = sc.objects.iter().find(|o| o.off as u64 == *off) else {
                    t.push(format!("S:o{}=err:entry-does-not-point-at-an-object", num));
                    continue;
                };
                if o.num as u64 != *num {
                    t.push(format!("S:o{}=err:entry-points-at-another-object", num));
                    continue;
                }
                if is_container(&o.val) {
                    continue;
                }
                if o.stream.is_some() && o.val.get("Type").and_then(|t| t.as_name()) == Some(b"Metadata") {
                    // the XMP packet is not part of the property: presence only
                    t.push(format!("S:o{}=M", num));
                    continue;
                }
                let end = match value_end(bytes, o.body_off) {
                    Ok(e) => e,
                    Err(e) => {
                        t.push(format!("S:o{}=err:{}", num, e));
                        continue;
                    }
                };
                let body = &bytes[o.body_off..end];
                match o.stream {
                    None => t.push(format!("S:o{}=D:{}", num, hx(body))),
                    Some((doff, len)) => {
                        let raw = &bytes[doff..doff + len];
                        match scan::stream_data(bytes, o) {
                            Ok(dec) => {
                                let d = if dec == raw { "=".to_string() } else { hx(&dec) };
                                t.push(format!("S:o{}=S:{}:{}:{}", num, hx(body), hx(raw), d));
                            }
                            Err(e) => t.push(format!("S:o{}=err:{}", num, e)),
                        }
                    }
                }
            }
            scan::XEntry::Compressed(stm, idx) => {
                if !stm_cache.contains_key(stm) {
                    let data = sc.stream_of(*stm as u32).ok_or("objstm-missing".to_string()).and_then(|o| scan::stream_data(bytes, o));
                    match data {
                        Ok(d) => {
                            stm_cache.insert(*stm, d);
                        }
                        Err(e) => {
                            t.push(format!("S:o{}=err:{}", num, e));
                            continue;
                        }
                    }
                }
                let data = &stm_cache[stm];
                let Some(s) = sc.objstms.iter().find(|s| s.id as u64 == *stm) else {
                    t.push(format!("S:o{}=err:objstm-missing", num));
                    continue;
                };
                match s.members.get(*idx as usize) {
                    Some((n, off, _)) if *n as u64 == *num => {
                        let start = s.first + off;
                        match value_end(data, start) {
                            Ok(e) => t.push(format!("S:o{}=D:{}", num, hx(&data[start..e]))),
                            Err(e) => t.push(format!("S:o{}=err:{}", num, e)),
                        }
                    }
                    _ => t.push(format!("S:o{}=err:objstm-index-names-another-object", num)),
                }
            }
        }
    }
    t
}

// ------------------------------------------------------------------------------------------

fn run(req: &str) -> String {
    let p: Vec<&str> = req.split(' ').collect();
    if p.len() != 3 || p[0] != "rt" {
        return "err:bad-request".into();
    }
    let Some(cfg) = parse_cfg(p[1]) else { return "err:bad-cfg".into() };
    let mut doc = match build(p[2]) {
        Ok(d) => d,
        Err(e) => return format!("err:build:{}", e.replace(' ', "-")),
    };
    let bytes = match write_doc(&mut doc, &cfg) {
        Ok(b) => b,
        Err(e) => return format!("err:write:{}", e.replace(' ', "-")),
    };
    let mut t = lib_read(&bytes);
    t.extend(scan_tokens(&bytes));
    t.join(" ")
}

// ------------------------------------------------------------------------------------------
// generator

fn numtok(rng: &mut Rng, lo: i64, hi: i64) -> String {
    let v = rng.range(lo * 100, hi * 100);
    let neg = v < 0;
    let a = v.abs();
    let s = match rng.below(4) {
        0 | 1 => format!("{}", a / 100),
        2 => {
            if (a / 10) % 10 == 0 {
                format!("{}", a / 100)
            } else {
                format!("{}.{}", a / 100, (a / 10) % 10)
            }
        }
        _ => {
            if a % 100 == 0 {
                format!("{}", a / 100)
            } else if a % 10 == 0 {
                format!("{}.{}", a / 100, (a / 10) % 10)
            } else {
                format!("{}.{:02}", a / 100, a % 100)
            }
        }
    };
    if neg && s.bytes().any(|b| (b'1'..=b'9').contains(&b)) {
        format!("-{}", s)
    } else {
        s
    }
}

fn unit(rng: &mut Rng) -> String {
    let v = rng.below(101);
    if v == 100 {
        "1".into()
    } else if v == 0 {
        "0".into()
    } else if v % 10 == 0 {
        format!("0.{}", v / 10)
    } else {
        format!("0.{:02}", v)
    }
}

const WORDS: [&str; 14] = [
    "Hello", "World", "(paren)", "back\\slash", "a)b(c", "100%", "<angle>", "[br]", "{cu}", "sl/ash", "x#23y", "two  spaces", "q;Q", "tab\there",
];

fn gen_ascii(rng: &mut Rng) -> String {
    let n = 1 + rng.below(3);
    let mut s = String::new();
    for i in 0..n {
        if i > 0 {
            s.push(' ');
        }
        s.push_str(*rng.pick(&WORDS[..]));
    }
    s
}

fn gen_text(rng: &mut Rng) -> String {
    let mut s = gen_ascii(rng);
    if rng.chance(1, 5) {
        // Latin-1 letters: WinAnsi byte = code point
        s.push_str(" caf\u{e9} \u{a9}\u{ff}");
    }
    s
}

struct Opts {
    min_pages: u64,
    max_pages: u64,
    max_ops: u64,
}

fn gen_page(rng: &mut Rng, o: &Opts) -> String {
    let mut ops: Vec<String> = vec![];
    let (w, h) = match rng.below(6) {
        0 => ("595".to_string(), "842".to_string()),
        1 => ("612".to_string(), "792".to_string()),
        2 => ("842".to_string(), "595".to_string()),
        3 => ("595.28".to_string(), "841.89".to_string()),
        _ => (numtok(rng, 1, 2000), numtok(rng, 1, 2000)),
    };
    ops.push(format!("P,{},{}", w, h));
    if rng.chance(2, 5) {
        ops.push(format!("R,{}", rng.pick(&[0, 90, 180, 270, 360, -90, 44, 45, 134, 135, 224, 225, 315, 316, 450, -1, 720])));
    }
    let nops = rng.below(o.max_ops + 1);
    let mut img_no = 0;
    for _ in 0..nops {
        let k = rng.below(30);
        let op = match k {
            0 => format!("m,{},{}", numtok(rng, -10, 800), numtok(rng, -10, 800)),
            1 => format!("l,{},{}", numtok(rng, -10, 800), numtok(rng, -10, 800)),
            2 => format!(
                "c,{},{},{},{},{},{}",
                numtok(rng, 0, 600),
                numtok(rng, 0, 600),
                numtok(rng, 0, 600),
                numtok(rng, 0, 600),
                numtok(rng, 0, 600),
                numtok(rng, 0, 600)
            ),
            3 => format!("re,{},{},{},{}", numtok(rng, 0, 500), numtok(rng, 0, 500), numtok(rng, 1, 300), numtok(rng, 1, 300)),
            4 => "h".into(),
            5 => "S".into(),
            6 => "f".into(),
            7 => "B".into(),
            8 => "q".into(),
            9 => "Q".into(),
            10 => format!(
                "cm,{},{},{},{},{},{}",
                numtok(rng, -2, 2),
                numtok(rng, -2, 2),
                numtok(rng, -2, 2),
                numtok(rng, -2, 2),
                numtok(rng, -100, 100),
                numtok(rng, -100, 100)
            ),
            11 => format!("w,{}", numtok(rng, 0, 20)),
            12 => format!("J,{}", rng.below(3)),
            13 => format!("j,{}", rng.below(3)),
            14 => format!("M,{}", numtok(rng, 1, 20)),
            15 => format!("d,{},{},{}", numtok(rng, 1, 9), numtok(rng, 1, 9), numtok(rng, 0, 5)),
            16 => format!("rg,{},{},{}", unit(rng), unit(rng), unit(rng)),
            17 => format!("RG,{},{},{}", unit(rng), unit(rng), unit(rng)),
            18 => format!("g,{}", unit(rng)),
            19 => format!("G,{}", unit(rng)),
            20 => format!("k,{},{},{},{}", unit(rng), unit(rng), unit(rng), unit(rng)),
            21 => format!("K,{},{},{},{}", unit(rng), unit(rng), unit(rng), unit(rng)),
            22 | 23 | 24 => format!(
                "T,{},{},{},{},{}",
                rng.below(14),
                numtok(rng, 4, 48),
                numtok(rng, 0, 500),
                numtok(rng, 0, 800),
                hex(gen_text(rng).as_bytes())
            ),
            25 => {
                if rng.chance(1, 2) {
                    "n".into()
                } else {
                    "W".into()
                }
            }
            26 => "ds".into(),
            _ => {
                let cs = if rng.chance(1, 2) { "g" } else { "r" };
                let (iw, ih) = (1 + rng.below(4), 1 + rng.below(4));
                let n = (iw * ih * if cs == "g" { 1 } else { 3 }) as usize;
                img_no += 1;
                // sometimes re-use an earlier name (HashMap insert replaces the image)
                let name_no = if img_no > 1 && rng.chance(1, 5) { 1 + rng.below(img_no - 1) } else { img_no };
                format!(
                    "I,Im{},{},{},{},{},{},{},{},{}",
                    name_no,
                    cs,
                    iw,
                    ih,
                    hex(&rng.bytes(n)),
                    numtok(rng, 0, 400),
                    numtok(rng, 0, 400),
                    numtok(rng, 1, 200),
                    numtok(rng, 1, 200)
                )
            }
        };
        ops.push(op);
    }
    ops.join(";")
}

fn gen_program(rng: &mut Rng, o: &Opts) -> String {
    let mut meta: Vec<String> = vec![];
    for k in ["t", "a", "s", "k", "c", "p"] {
        if rng.chance(1, 3) {
            // Info strings: ASCII with delimiters, sometimes Latin-1 letters (written as UTF-8
            // bytes by the writer, read back byte by byte through WinAnsi: "é" comes back as "Ã©")
            let mut v = gen_ascii(rng);
            if rng.chance(1, 4) {
                v.push_str(" caf\u{e9} \u{a9}\u{ff}\u{a0}");
            }
            meta.push(format!("{}={}", k, hex(v.as_bytes())));
        }
    }
    if rng.chance(1, 4) {
        meta.push(format!("dt={}", rng.below(1_000_000)));
    }
    let npages = o.min_pages + rng.below(o.max_pages - o.min_pages + 1);
    let m = if meta.is_empty() { "-".to_string() } else { meta.join(";") };
    if npages == 0 {
        return format!("{}!0", m);
    }
    let pages: Vec<String> = (0..npages).map(|_| gen_page(rng, o)).collect();
    format!("{}!{}", m, pages.join("|"))
}

fn is_nt(prog: &str) -> bool {
    // non-trivial: some page has an operator besides P / R
    prog.split_once('!').map(|x| x.1).unwrap_or("").split('|').any(|p| p.split(';').any(|o| !o.starts_with("P,") && !o.starts_with("R,") && o != "0"))
}

fn gen(rng: &mut Rng, tier: Tier) -> Vec<Case> {
    let mut cases = vec![];
    let versions = ["1.3", "1.4", "1.5", "1.6", "1.7", "2.0"];
    let (ndocs, nheavy) = match tier {
        Tier::Quick => (45, 1),
        Tier::Thorough => (1500, 40),
    };
    let mut push = |cfg: String, prog: &str, kind: &str| {
        let tags = format!("{} cfg-{} {}", kind, cfg.split(':').take(2).collect::<Vec<_>>().join(""), if is_nt(prog) { "nt" } else { "trivial" });
        cases.push(Case::new(format!("rt {} {}", cfg, prog), tags));
    };
    // boundary documents: no pages, one empty page, many pages
    for (prog, kind) in [
        ("-!0".to_string(), "zero-pages"),
        ("t=4e6f20706167657320286f646429!0".to_string(), "zero-pages"),
        ("-!P,595,842".to_string(), "empty-page"),
        ("-!P,0.01,0.01;R,270".to_string(), "tiny-page"),
        (
            format!(
                "t=63616663c3a9!{}",
                [44, 45, 134, 135, 224, 225, 315, 316, -1, -44, -45, -90, 359, 360, 404, 405, 450, 720, -360]
                    .iter()
                    .map(|r| format!("P,10,20;R,{}", r))
                    .collect::<Vec<_>>()
                    .join("|")
            ),
            "rotation-boundaries",
        ),
        ((0..40).map(|i| format!("P,{},{};m,{},0;l,0,{};S", 100 + i, 200 + i, i, i)).collect::<Vec<_>>().join("|").replacen("P,", "-!P,", 1), "many-pages"),
    ] {
        for cfg in ["c:n:1.4", "c:z:1.7", "x:z:1.5"] {
            push(cfg.to_string(), &prog, kind);
        }
    }
    for i in 0..ndocs {
        let o = match i % 5 {
            0 => Opts { min_pages: 1, max_pages: 1, max_ops: 40 },
            1 => Opts { min_pages: 2, max_pages: 12, max_ops: 6 },
            2 => Opts { min_pages: 0, max_pages: 3, max_ops: 15 },
            _ => Opts { min_pages: 1, max_pages: 5, max_ops: 20 },
        };
        let prog = gen_program(rng, &o);
        let v = *rng.pick(&versions[..]);
        // every document under the three light configurations that are expected to work …
        for c in ["c:z", "c:n", "x:z"] {
            push(format!("{}:{}", c, v), &prog, "doc");
        }
        // `use_object_streams` without an xref stream: objects are written uncompressed
        // (since /repo 4d9cdfbe; before, they were unreachable)
        if i % 4 == 1 {
            push(format!("{}:{}", if i % 8 == 1 { "o:z" } else { "o:n" }, v), &prog, "doc");
        }
        // … and under the configuration with the raw cross-reference stream (unreadable for a strict
        // reader until /repo 67304722)
        if i % 4 == 0 {
            push(format!("x:n:{}", v), &prog, "doc");
        }
    }
    // `xo` (object streams + xref stream) writes 10^6 free entries (stream ids start at
    // 1 000 000): heavy — one document in the quick tier (plus one in the corpus), the rest in
    // the thorough tier
    for i in 0..nheavy {
        let o = Opts { min_pages: 1, max_pages: 3, max_ops: 10 };
        let prog = gen_program(rng, &o);
        let v = *rng.pick(&versions[2..]);
        push(format!("xo:z:{}", v), &prog, "doc-objstm");
        if i % 3 == 1 {
            push(format!("xo:n:{}", v), &prog, "doc-objstm");
        }
    }
    cases
}

fn main() {
    harness_main(gen, run, Limits { per_case: std::time::Duration::from_secs(60), rlimit_as: 6 << 30, stack: 8 << 20 });
}
