//! C23 — drives the real cryptographic building blocks (encryption/{rc4,aes,standard_security,
//! permissions}.rs and the unlock paths of parser/encryption_handler.rs) function by function.
//!
//! Request = `op field…` (space separated, bytes in hex, `-` = empty, `none` = absent).
#![allow(deprecated)]
use oxidize_pdf::encryption::{
    compute_hash_r6_algorithm_2b, Aes, AesError, AesKey, EncryptionKey, OwnerPassword,
    PermissionFlags, Permissions, Rc4, Rc4Key, SecurityHandlerRevision, StandardSecurityHandler,
    UserPassword,
};
use oxidize_pdf::objects::ObjectId;
use oxidize_pdf::parser::encryption_handler::EncryptionHandler;
use oxidize_pdf::parser::{PdfDictionary, PdfName, PdfObject, PdfString};
use oxiharness::*;

fn pw(h: &str) -> Option<String> {
    String::from_utf8(unhex(h)?).ok()
}

fn handler(rev: &str, n: &str) -> Option<StandardSecurityHandler> {
    let revision = match rev {
        "2" => SecurityHandlerRevision::R2,
        "3" => SecurityHandlerRevision::R3,
        "4" => SecurityHandlerRevision::R4,
        "5" => SecurityHandlerRevision::R5,
        "6" => SecurityHandlerRevision::R6,
        _ => return None,
    };
    Some(StandardSecurityHandler { revision, key_length: n.parse().ok()? })
}

fn opt_id(s: &str) -> Option<Option<Vec<u8>>> {
    if s == "none" {
        Some(None)
    } else {
        unhex(s).map(Some)
    }
}

fn aes_err(e: AesError) -> String {
    match e {
        AesError::InvalidKeyLength { .. } => "err:keylen".into(),
        AesError::InvalidIvLength { .. } => "err:ivlen".into(),
        AesError::EncryptionFailed(_) => "err:enc".into(),
        AesError::DecryptionFailed(_) => "err:dec".into(),
        AesError::PaddingError(_) => "err:pad".into(),
    }
}

fn okhex<E>(r: Result<Vec<u8>, E>) -> String {
    match r {
        Ok(v) => format!("ok:{}", hex(&v)),
        Err(_) => "err".into(),
    }
}

fn okbool<E>(r: Result<bool, E>) -> String {
    match r {
        Ok(v) => format!("{}", v),
        Err(_) => "err".into(),
    }
}

fn run_inner(req: &str) -> Option<String> {
    let f: Vec<&str> = req.split(' ').collect();
    Some(match f[0] {
        "rc4" => {
            let key = Rc4Key::new(unhex(f.get(1)?)?);
            let d1 = unhex(f.get(2)?)?;
            let d2 = unhex(f.get(3)?)?;
            let mut c = Rc4::new(&key);
            let mut out = c.process(&d1);
            out.extend(c.process(&d2));
            // the in-place variant must agree with `process`
            let mut c2 = Rc4::new(&key);
            let mut all = d1.clone();
            all.extend_from_slice(&d2);
            c2.process_in_place(&mut all);
            if all != out {
                return Some(format!("inplace-differs:{}", hex(&all)));
            }
            hex(&out)
        }
        "aes" => {
            let key = unhex(f.get(2)?)?;
            let iv = unhex(f.get(3)?)?;
            let data = unhex(f.get(4)?)?;
            let k = match key.len() {
                16 => AesKey::new_128(key),
                32 => AesKey::new_256(key),
                // the constructors check the length; try the one the caller would pick
                n if n < 24 => AesKey::new_128(key),
                _ => AesKey::new_256(key),
            };
            let k = match k {
                Ok(k) => k,
                Err(e) => return Some(aes_err(e)),
            };
            let a = Aes::new(k);
            let r = match f[1] {
                "cbce" => a.encrypt_cbc(&data, &iv),
                "cbcd" => a.decrypt_cbc(&data, &iv),
                "ecbe" => a.encrypt_ecb(&data),
                "ecbd" => a.decrypt_ecb(&data),
                "rawe" => a.encrypt_cbc_raw(&data, &iv),
                "rawd" => a.decrypt_cbc_raw(&data, &iv),
                _ => return None,
            };
            match r {
                Ok(v) => format!("ok:{}", hex(&v)),
                Err(e) => aes_err(e),
            }
        }
        "ohash" => {
            let h = handler(f.get(1)?, f.get(2)?)?;
            hex(&h.compute_owner_hash(&OwnerPassword(pw(f.get(3)?)?), &UserPassword(pw(f.get(4)?)?)))
        }
        "uhash" | "ekey" | "aeskey" => {
            let h = handler(f.get(1)?, f.get(2)?)?;
            let up = UserPassword(pw(f.get(3)?)?);
            let o = unhex(f.get(4)?)?;
            let p = Permissions::from_bits(f.get(5)?.parse().ok()?);
            let id = opt_id(f.get(6)?)?;
            match f[0] {
                "uhash" => okhex(h.compute_user_hash(&up, &o, p, id.as_deref())),
                "ekey" => okhex(h.compute_encryption_key(&up, &o, p, id.as_deref()).map(|k| k.key.clone())),
                _ => okhex(h.compute_aes_encryption_key(&up, &o, p, id.as_deref()).map(|k| k.key.clone())),
            }
        }
        "vuser" => {
            let h = handler(f.get(1)?, f.get(2)?)?;
            let up = UserPassword(pw(f.get(3)?)?);
            let u = unhex(f.get(4)?)?;
            let o = unhex(f.get(5)?)?;
            let p = Permissions::from_bits(f.get(6)?.parse().ok()?);
            let id = opt_id(f.get(7)?)?;
            okbool(h.validate_user_password(&up, &u, &o, p, id.as_deref()))
        }
        "vowner" => {
            let h = handler(f.get(1)?, f.get(2)?)?;
            let op = OwnerPassword(pw(f.get(3)?)?);
            let o = unhex(f.get(4)?)?;
            let p = Permissions::from_bits(f.get(5)?.parse().ok()?);
            let id = opt_id(f.get(6)?)?;
            let u = opt_id(f.get(7)?)?;
            okbool(h.validate_owner_password(&op, &o, &UserPassword(String::new()), p, id.as_deref(), u.as_deref()))
        }
        "objkey" => {
            let h = handler(f.get(1)?, f.get(2)?)?;
            let key = EncryptionKey::new(unhex(f.get(3)?)?);
            let id = ObjectId::new(f.get(4)?.parse().ok()?, f.get(5)?.parse().ok()?);
            hex(&h.compute_object_key(&key, &id))
        }
        "encstr" | "decstr" | "encaes" | "decaes" => {
            let h = handler(f.get(1)?, f.get(2)?)?;
            let key = EncryptionKey::new(unhex(f.get(3)?)?);
            let id = ObjectId::new(f.get(4)?.parse().ok()?, f.get(5)?.parse().ok()?);
            let data = unhex(f.get(6)?)?;
            match f[0] {
                // lenient variants: a failure is an empty vector
                "encstr" => {
                    let a = h.encrypt_string(&data, &key, &id);
                    let b = h.encrypt_stream(&data, &key, &id);
                    if a.len() != b.len() {
                        return Some("string-stream-differ".into());
                    }
                    format!("ok:{}", hex(&a))
                }
                "decstr" => {
                    let a = h.decrypt_string(&data, &key, &id);
                    let b = h.decrypt_stream(&data, &key, &id);
                    if a != b {
                        return Some("string-stream-differ".into());
                    }
                    format!("ok:{}", hex(&a))
                }
                "encaes" => okhex(h.encrypt_aes(&data, &key, &id)),
                _ => okhex(h.decrypt_aes(&data, &key, &id)),
            }
        }
        // the digest crates the library calls (md5::compute, sha2::Sha256/384/512::digest), directly
        "hash" => {
            use sha2::Digest;
            let d = unhex(f.get(2)?)?;
            match *f.get(1)? {
                "md5" => hex(&md5::compute(&d).0),
                "sha256" => hex(&sha2::Sha256::digest(&d)),
                "sha384" => hex(&sha2::Sha384::digest(&d)),
                "sha512" => hex(&sha2::Sha512::digest(&d)),
                _ => return None,
            }
        }
        "h2b" => okhex(compute_hash_r6_algorithm_2b(&unhex(f.get(1)?)?, &unhex(f.get(2)?)?, &unhex(f.get(3)?)?)),
        "uent" => {
            // U entry with random salts
            let h = handler(f.get(1)?, "32")?;
            let up = UserPassword(pw(f.get(2)?)?);
            okhex(if f[1] == "5" { h.compute_r5_user_hash(&up) } else { h.compute_r6_user_hash(&up) })
        }
        "oent" => {
            let h = handler(f.get(1)?, "32")?;
            let op = OwnerPassword(pw(f.get(2)?)?);
            let u = unhex(f.get(3)?)?;
            okhex(if f[1] == "5" { h.compute_r5_owner_hash(&op, &u) } else { h.compute_r6_owner_hash(&op, &u) })
        }
        "ue" => {
            let h = handler(f.get(1)?, "32")?;
            let up = UserPassword(pw(f.get(2)?)?);
            let u = unhex(f.get(3)?)?;
            let key = EncryptionKey::new(unhex(f.get(4)?)?);
            okhex(if f[1] == "5" { h.compute_r5_ue_entry(&up, &u, &key) } else { h.compute_r6_ue_entry(&up, &u, &key) })
        }
        "oe" => {
            let h = handler(f.get(1)?, "32")?;
            let op = OwnerPassword(pw(f.get(2)?)?);
            let o = unhex(f.get(3)?)?;
            let u = unhex(f.get(4)?)?;
            let key = unhex(f.get(5)?)?;
            okhex(if f[1] == "5" { h.compute_r5_oe_entry(&op, &o, &u, &key) } else { h.compute_r6_oe_entry(&op, &o, &u, &key) })
        }
        "recu" => {
            let h = handler(f.get(1)?, "32")?;
            let up = UserPassword(pw(f.get(2)?)?);
            let u = unhex(f.get(3)?)?;
            let ue = unhex(f.get(4)?)?;
            okhex(if f[1] == "5" { h.recover_r5_encryption_key(&up, &u, &ue) } else { h.recover_r6_encryption_key(&up, &u, &ue) }
                .map(|k| k.key.clone()))
        }
        "reco" => {
            let h = handler(f.get(1)?, "32")?;
            let op = OwnerPassword(pw(f.get(2)?)?);
            let o = unhex(f.get(3)?)?;
            let u = unhex(f.get(4)?)?;
            let oe = unhex(f.get(5)?)?;
            okhex(if f[1] == "5" { h.recover_r5_owner_encryption_key(&op, &o, &u, &oe) } else { h.recover_r6_owner_encryption_key(&op, &o, &u, &oe) })
        }
        "valu" => {
            let h = handler(f.get(1)?, "32")?;
            let up = UserPassword(pw(f.get(2)?)?);
            let u = unhex(f.get(3)?)?;
            okbool(if f[1] == "5" { h.validate_r5_user_password(&up, &u) } else { h.validate_r6_user_password(&up, &u) })
        }
        "valo" => {
            let h = handler(f.get(1)?, "32")?;
            let op = OwnerPassword(pw(f.get(2)?)?);
            let o = unhex(f.get(3)?)?;
            let u = unhex(f.get(4)?)?;
            okbool(if f[1] == "5" { h.validate_r5_owner_password(&op, &o, &u) } else { h.validate_r6_owner_password(&op, &o, &u) })
        }
        "perms" => {
            let h = handler(f.get(1)?, "32")?;
            let p = Permissions::from_bits(f.get(2)?.parse().ok()?);
            let key = EncryptionKey::new(unhex(f.get(3)?)?);
            let em = *f.get(4)? == "1";
            let a = h.compute_perms_entry(p, &key, em);
            // the deprecated alias must behave the same (same error / same length)
            let b = h.compute_r6_perms_entry(p, &key, em);
            if a.is_ok() != b.is_ok() {
                return Some("alias-differs".into());
            }
            okhex(a)
        }
        "vperms" => {
            let h = handler(f.get(1)?, "32")?;
            let key = EncryptionKey::new(unhex(f.get(2)?)?);
            let perms = unhex(f.get(3)?)?;
            let p = Permissions::from_bits(f.get(4)?.parse().ok()?);
            let v = okbool(h.validate_r6_perms(&perms, &key, p));
            let m = match h.extract_r6_encrypt_metadata(&perms, &key) {
                Ok(Some(true)) => "T",
                Ok(Some(false)) => "F",
                Ok(None) => "none",
                Err(_) => "err",
            };
            format!("{} {}", v, m)
        }
        "pflags" => {
            // eight 0/1 characters: print modify copy annot forms access assemble hq
            let b: Vec<bool> = f.get(1)?.chars().map(|c| c == '1').collect();
            if b.len() != 8 {
                return None;
            }
            let fl = PermissionFlags {
                print: b[0],
                modify_contents: b[1],
                copy: b[2],
                modify_annotations: b[3],
                fill_forms: b[4],
                accessibility: b[5],
                assemble: b[6],
                print_high_quality: b[7],
            };
            let p = Permissions::from_flags(fl);
            let back = p.flags();
            let s: String = [
                back.print,
                back.modify_contents,
                back.copy,
                back.modify_annotations,
                back.fill_forms,
                back.accessibility,
                back.assemble,
                back.print_high_quality,
            ]
            .iter()
            .map(|&x| if x { '1' } else { '0' })
            .collect();
            format!("{} {}", p.bits(), s)
        }
        "pbits" => {
            let bits: u32 = f.get(1)?.parse().ok()?;
            let other: u32 = f.get(2)?.parse().ok()?;
            let p = Permissions::from_bits(bits);
            let fl = p.flags();
            let s: String = [
                fl.print,
                fl.modify_contents,
                fl.copy,
                fl.modify_annotations,
                fl.fill_forms,
                fl.accessibility,
                fl.assemble,
                fl.print_high_quality,
            ]
            .iter()
            .map(|&x| if x { '1' } else { '0' })
            .collect();
            // setters: clear then set every flag → must reach new() / all()
            let mut q = p;
            q.set_print(false).set_modify_contents(false).set_copy(false).set_modify_annotations(false);
            q.set_fill_forms(false).set_accessibility(false).set_assemble(false).set_print_high_quality(false);
            let cleared = q.bits();
            q.set_print(true).set_modify_contents(true).set_copy(true).set_modify_annotations(true);
            q.set_fill_forms(true).set_accessibility(true).set_assemble(true).set_print_high_quality(true);
            format!(
                "{} {} {} {} {} {} {}",
                p.bits(),
                s,
                p.contains(Permissions::from_bits(other)),
                cleared,
                q.bits(),
                Permissions::new().bits(),
                Permissions::all().bits()
            )
        }
        "unlock" => {
            // unlock who R V LEN CFM EM O U P ID UE OE PW
            let who = *f.get(1)?;
            let mut d = PdfDictionary::new();
            d.insert("Filter".into(), PdfObject::Name(PdfName("Standard".into())));
            d.insert("R".into(), PdfObject::Integer(f.get(2)?.parse().ok()?));
            let v: i64 = f.get(3)?.parse().ok()?;
            d.insert("V".into(), PdfObject::Integer(v));
            if *f.get(4)? != "none" {
                d.insert("Length".into(), PdfObject::Integer(f.get(4)?.parse().ok()?));
            }
            let cfm = *f.get(5)?;
            if cfm != "none" {
                let mut std = PdfDictionary::new();
                std.insert("CFM".into(), PdfObject::Name(PdfName(cfm.into())));
                let mut cf = PdfDictionary::new();
                cf.insert("StdCF".into(), PdfObject::Dictionary(std));
                d.insert("CF".into(), PdfObject::Dictionary(cf));
                d.insert("StmF".into(), PdfObject::Name(PdfName("StdCF".into())));
                d.insert("StrF".into(), PdfObject::Name(PdfName("StdCF".into())));
            }
            match *f.get(6)? {
                "1" => d.insert("EncryptMetadata".into(), PdfObject::Boolean(true)),
                "0" => d.insert("EncryptMetadata".into(), PdfObject::Boolean(false)),
                _ => {}
            }
            d.insert("O".into(), PdfObject::String(PdfString(unhex(f.get(7)?)?)));
            d.insert("U".into(), PdfObject::String(PdfString(unhex(f.get(8)?)?)));
            let p: i64 = f.get(9)?.parse().ok()?;
            d.insert("P".into(), PdfObject::Integer(p));
            let id = opt_id(f.get(10)?)?;
            if *f.get(11)? != "none" {
                d.insert("UE".into(), PdfObject::String(PdfString(unhex(f.get(11)?)?)));
            }
            if *f.get(12)? != "none" {
                d.insert("OE".into(), PdfObject::String(PdfString(unhex(f.get(12)?)?)));
            }
            let pass = pw(f.get(13)?)?;
            let mut h = match EncryptionHandler::new(&d, id) {
                Ok(h) => h,
                Err(_) => return Some("err:new".into()),
            };
            let r = if who == "user" { h.unlock_with_user_password(&pass) } else { h.unlock_with_owner_password(&pass) };
            match r {
                Ok(true) => format!("true:{}", hex(h.encryption_key().map(|k| k.key.as_slice()).unwrap_or(&[]))),
                Ok(false) => "false".into(),
                Err(_) => "err".into(),
            }
        }
        _ => return None,
    })
}

fn run(req: &str) -> String {
    run_inner(req).unwrap_or_else(|| "bad-request".into())
}

// ------------------------------------------------------------------------------------------
// generator

fn rand_len(rng: &mut Rng, tier: Tier) -> usize {
    // length classes: 0, <16, multiples of 16, 16k±1, large
    match rng.below(10) {
        0 => 0,
        1 | 2 => rng.range(1, 15) as usize,
        3 => 16,
        4 => 16 * rng.range(1, 8) as usize,
        5 => 16 * rng.range(1, 8) as usize + 1,
        6 => 16 * rng.range(1, 8) as usize - 1,
        7 => rng.range(17, 200) as usize,
        8 => rng.range(200, 600) as usize,
        _ => {
            if tier == Tier::Thorough {
                rng.range(600, 5000) as usize
            } else {
                rng.range(600, 1500) as usize
            }
        }
    }
}

const NON_ASCII: &[&str] = &["é", "ñ", "ü", "ß", "€", "ж", "日本", "✓", "😀", "Å", "¡", "ÿ", "•", "ł"];

/// password of 128..=200 UTF-8 bytes: ASCII, or with a 2-/3-/4-byte character lying across
/// byte 127 (the truncation point of Algorithm 2.A cuts it), or 128 exactly
fn long_pw(rng: &mut Rng) -> String {
    let mut s = String::new();
    let cut = rng.below(3);
    let head = if cut == 0 { 127 } else { 127 - rng.range(1, 3) as usize };
    while s.len() < head {
        s.push((0x21 + rng.below(0x5E) as u8) as char);
    }
    if cut != 0 {
        s.push_str(*rng.pick(&["é", "€", "😀", "ж", "日"]));
    }
    let total = if rng.chance(1, 4) { 128 } else { rng.range(128, 200) as usize };
    while s.len() < total {
        s.push((0x21 + rng.below(0x5E) as u8) as char);
    }
    s
}

/// password of `target` UTF-8 bytes (approximately for non-ASCII), class by `kind`
fn rand_pw(rng: &mut Rng) -> String {
    let kind = rng.below(10);
    let target = match rng.below(12) {
        0 => 0,
        1 => 1,
        2 => 31,
        3 => 32,
        4 => 33,
        5 => 127,
        6 => rng.range(100, 127) as usize,
        7 => rng.range(34, 64) as usize,
        _ => rng.range(2, 30) as usize,
    };
    let mut s = String::new();
    while s.len() < target {
        if kind < 4 && rng.chance(1, 3) {
            let t = *rng.pick(NON_ASCII);
            if s.len() + t.len() <= target {
                s.push_str(t);
                continue;
            }
        }
        // printable ASCII incl. '(' (0x28 = first padding byte), '\\', space
        let c = match rng.below(12) {
            0 => '(',
            1 => ')',
            2 => '\\',
            3 => ' ',
            _ => (0x21 + rng.below(94) as u8) as char,
        };
        s.push(c);
    }
    s
}

fn hx(s: &str) -> String {
    hex(s.as_bytes())
}

fn rand_perm(rng: &mut Rng) -> u32 {
    match rng.below(6) {
        0 => 0xFFFFF0C0,
        1 => 0xFFFFFFFC,
        2 => Permissions::all().bits(),
        3 => rng.next() as u32,
        4 => 0,
        _ => 0xFFFFF0C0 | ((rng.next() as u32) & 0x0F3C),
    }
}

fn rand_id(rng: &mut Rng) -> Option<Vec<u8>> {
    match rng.below(8) {
        0 => None,
        1 => Some(vec![]),
        2 => {
            let n = rng.range(1, 40) as usize;
            Some(rng.bytes(n))
        }
        _ => Some(rng.bytes(16)),
    }
}

fn id_field(id: &Option<Vec<u8>>) -> String {
    match id {
        None => "none".into(),
        Some(v) => hex(v),
    }
}

fn is_ascii(s: &str) -> bool {
    s.is_ascii()
}

fn gen(rng: &mut Rng, tier: Tier) -> Vec<Case> {
    let mut out = Vec::new();
    let scale = if tier == Tier::Thorough { 6 } else { 1 };

    // ---- RC4: published vectors + random -------------------------------------------------
    for (k, d) in [("Key", "Plaintext"), ("Wiki", "pedia"), ("Secret", "Attack at dawn")] {
        out.push(Case::new(format!("rc4 {} {} -", hx(k), hx(d)), "rc4 vector nt"));
    }
    for _ in 0..60 * scale {
        let klen = match rng.below(8) {
            0 => 1,
            1 => 5,
            2 => 16,
            3 => 256,
            4 => rng.range(200, 255) as usize,
            _ => rng.range(2, 40) as usize,
        };
        let key = rng.bytes(klen);
        let n = rand_len(rng, tier);
        let d = rng.bytes(n);
        let cut = if n == 0 { 0 } else { rng.below(n as u64 + 1) as usize };
        let nt = if n > 0 { " nt" } else { "" };
        out.push(Case::new(
            format!("rc4 {} {} {}", hex(&key), hex(&d[..cut]), hex(&d[cut..])),
            format!("rc4 klen{} dlen-class{}{}", klen.min(17), n.min(600) / 100, nt),
        ));
    }

    // ---- AES wrappers ----------------------------------------------------------------------
    // FIPS-197 / SP 800-38A vectors
    out.push(Case::new("aes ecbe 000102030405060708090a0b0c0d0e0f - 00112233445566778899aabbccddeeff", "aes vector nt"));
    out.push(Case::new("aes ecbe 000102030405060708090a0b0c0d0e0f101112131415161718191a1b1c1d1e1f - 00112233445566778899aabbccddeeff", "aes vector nt"));
    out.push(Case::new("aes rawe 2b7e151628aed2a6abf7158809cf4f3c 000102030405060708090a0b0c0d0e0f 6bc1bee22e409f96e93d7e117393172aae2d8a571e03ac9c9eb76fac45af8e51", "aes vector nt"));
    for _ in 0..120 * scale {
        let mode = *rng.pick(&["cbce", "cbcd", "ecbe", "ecbd", "rawe", "rawd", "cbce", "cbcd"]);
        let klen = match rng.below(12) {
            0 => *rng.pick(&[0usize, 15, 17, 24, 31, 33]),
            x if x < 6 => 16,
            _ => 32,
        };
        let key = rng.bytes(klen);
        let ivlen = if rng.chance(1, 12) { *rng.pick(&[0usize, 15, 17, 32]) } else { 16 };
        let iv = rng.bytes(ivlen);
        let mut n = rand_len(rng, tier);
        if mode != "cbce" && rng.chance(4, 5) {
            n = n / 16 * 16;
        }
        let mut data = rng.bytes(n);
        let mut tag = format!("aes {} klen{} ivlen{} dlen-class{}", mode, klen, ivlen, n.min(600) / 100);
        if mode == "cbcd" && klen % 16 == 0 && klen > 0 && ivlen == 16 && rng.chance(3, 4) {
            // a genuine ciphertext (possibly damaged in the last block)
            let k = if klen == 16 { AesKey::new_128(key.clone()) } else { AesKey::new_256(key.clone()) }.unwrap();
            let pl = rand_len(rng, tier);
            let plain = rng.bytes(pl);
            data = Aes::new(k).encrypt_cbc(&plain, &iv).unwrap();
            tag.push_str(" genuine");
            if rng.chance(1, 5) {
                let l = data.len();
                data[l - 1 - rng.below(16) as usize] ^= 1 << rng.below(8);
                tag.push_str(" damaged");
            }
        }
        if n > 0 {
            tag.push_str(" nt");
        }
        out.push(Case::new(format!("aes {} {} {} {}", mode, hex(&key), hex(&iv), hex(&data)), tag));
    }

    // ---- Algorithms 2–7 (R2–R4) -----------------------------------------------------------
    for _ in 0..50 * scale {
        let (rev, n) = match rng.below(6) {
            0 | 1 => (2, 5),
            2 => (3, 16),
            3 => (4, 16),
            _ => (*rng.pick(&[3, 4]), rng.range(5, 16) as usize),
        };
        let opw = rand_pw(rng);
        let upw = rand_pw(rng);
        let p = rand_perm(rng);
        let id = rand_id(rng);
        let h = StandardSecurityHandler {
            revision: match rev {
                2 => SecurityHandlerRevision::R2,
                3 => SecurityHandlerRevision::R3,
                _ => SecurityHandlerRevision::R4,
            },
            key_length: n,
        };
        let o = h.compute_owner_hash(&OwnerPassword(opw.clone()), &UserPassword(upw.clone()));
        let u = h.compute_user_hash(&UserPassword(upw.clone()), &o, Permissions::from_bits(p), id.as_deref()).unwrap();
        let asc = if is_ascii(&opw) && is_ascii(&upw) { "ascii" } else { "nonascii" };
        let tag = format!("r{} keylen{} {} ulen-class{} olen-class{} nt", rev, n, asc, upw.len().min(40) / 8, opw.len().min(40) / 8);
        let idf = id_field(&id);
        out.push(Case::new(format!("ohash {} {} {} {}", rev, n, hx(&opw), hx(&upw)), format!("ohash {}", tag)));
        out.push(Case::new(format!("ekey {} {} {} {} {} {}", rev, n, hx(&upw), hex(&o), p, idf), format!("ekey {}", tag)));
        out.push(Case::new(format!("uhash {} {} {} {} {} {}", rev, n, hx(&upw), hex(&o), p, idf), format!("uhash {}", tag)));
        // validation: right password, wrong password, damaged U
        out.push(Case::new(format!("vuser {} {} {} {} {} {} {}", rev, n, hx(&upw), hex(&u), hex(&o), p, idf), format!("vuser right {}", tag)));
        let wrong = format!("x{}", upw);
        out.push(Case::new(format!("vuser {} {} {} {} {} {} {}", rev, n, hx(&wrong), hex(&u), hex(&o), p, idf), format!("vuser wrong {}", tag)));
        let mut u2 = u.clone();
        let i = rng.below(32) as usize;
        u2[i] ^= 0x40;
        out.push(Case::new(format!("vuser {} {} {} {} {} {} {}", rev, n, hx(&upw), hex(&u2), hex(&o), p, idf), format!("vuser damaged{} {}", if i < 16 { "-lo" } else { "-hi" }, tag)));
        // (with the U entry the function runs Algorithm 7 on the recovered 32 bytes)
        let shape = if upw.is_empty() { "uempty" } else if upw.contains('(') { "uparen" } else if upw.len() >= 32 { "ulong" } else { "uplain" };
        out.push(Case::new(format!("vowner {} {} {} {} {} {} {}", rev, n, hx(&opw), hex(&o), p, idf, hex(&u)), format!("vowner right {} {}", shape, tag)));
        out.push(Case::new(format!("vowner {} {} {} {} {} {} {}", rev, n, hx(&wrong), hex(&o), p, idf, hex(&u)), format!("vowner wrong {} {}", shape, tag)));
        // without /U the function can only check plausibility (oracle: na; model compared)
        out.push(Case::new(format!("vowner {} {} {} {} {} {} none", rev, n, hx(&opw), hex(&o), p, idf), format!("vowner right no-u {} {}", shape, tag)));
        out.push(Case::new(format!("vowner {} {} {} {} {} {} none", rev, n, hx(&wrong), hex(&o), p, idf), format!("vowner wrong no-u {} {}", shape, tag)));
        // a damaged /U must be refused (first 16 bytes for R3/R4, any of the 32 for R2)
        let mut u3 = u.clone();
        let j = if rev == 2 { rng.below(32) as usize } else { rng.below(16) as usize };
        u3[j] ^= 1 << rng.below(8);
        out.push(Case::new(format!("vowner {} {} {} {} {} {} {}", rev, n, hx(&opw), hex(&o), p, idf, hex(&u3)), format!("vowner right damaged-u {} {}", shape, tag)));
        if rev >= 3 {
            // bytes 16..32 of /U are arbitrary for R3/R4: a change there must not matter
            let mut u4 = u.clone();
            u4[16 + rng.below(16) as usize] ^= 0x55;
            out.push(Case::new(format!("vowner {} {} {} {} {} {} {}", rev, n, hx(&opw), hex(&o), p, idf, hex(&u4)), format!("vowner right arbitrary-u-tail {} {}", shape, tag)));
            out.push(Case::new(format!("vowner {} {} {} {} {} {} {}", rev, n, hx(&opw), hex(&o), p, idf, hex(&u[..16])), format!("vowner right u16 {} {}", shape, tag)));
        }
        out.push(Case::new(format!("vowner {} {} {} {} {} {} {}", rev, n, hx(&opw), hex(&o), p, idf, hex(&u[..15])), format!("vowner right u15 {} {}", shape, tag)));
        // the reader's unlock paths on the same dictionary (document revision = rev; for
        // rev 4 both the RC4 (/V2) and the AES (/AESV2) crypt filter; EncryptMetadata both ways)
        let (v, cfm) = match rev {
            2 => (1, "none"),
            3 => (2, "none"),
            _ => (4, *rng.pick(&["AESV2", "V2", "AESV2"])),
        };
        if n == 16 || rev == 2 {
            let len = if rng.chance(1, 4) { "none".to_string() } else { format!("{}", n * 8) };
            for em in ["none", "1"] {
                for (who, pass, kind) in [("user", &upw, "right"), ("owner", &opw, "right"), ("user", &wrong, "wrong"), ("owner", &wrong, "wrong")] {
                    out.push(Case::new(
                        format!("unlock {} {} {} {} {} {} {} {} {} {} none none {}", who, rev, v, len, cfm, em, hex(&o), hex(&u), p as i32, idf, hx(pass)),
                        format!("unlock {} {} cfm-{} em-{} {}", who, kind, cfm, em, tag),
                    ));
                }
                if !rng.chance(1, 3) {
                    break;
                }
            }
        }
    }

    // ---- per-object keys, string/stream encryption --------------------------------------------
    for _ in 0..60 * scale {
        let (rev, n) = *rng.pick(&[(2, 5), (3, 16), (4, 16), (5, 32), (6, 32), (3, 16), (4, 16)]);
        let klen = if rng.chance(1, 6) && rev <= 3 { rng.range(5, 16) as usize } else { n };
        let key = rng.bytes(klen);
        let num = match rng.below(5) {
            0 => 0,
            1 => 0xFFFFFF,
            2 => 0x01000000 + rng.below(1000) as u32,
            3 => 1_000_000 + rng.below(100) as u32,
            _ => rng.below(5000) as u32,
        };
        let g = match rng.below(4) {
            0 => 65535,
            1 => rng.below(65536) as u32,
            _ => 0,
        };
        let dlen = rand_len(rng, tier);
        let data = rng.bytes(dlen);
        let tag = format!("r{} klen{} dlen-class{} nt", rev, klen, dlen.min(600) / 100);
        out.push(Case::new(format!("objkey {} {} {} {} {}", rev, n, hex(&key), num, g), format!("objkey {}", tag)));
        out.push(Case::new(format!("encstr {} {} {} {} {} {}", rev, n, hex(&key), num, g, hex(&data)), format!("encstr {}", tag)));
        if rev >= 4 {
            out.push(Case::new(format!("encaes {} {} {} {} {} {}", rev, n, hex(&key), num, g, hex(&data)), format!("encaes {}", tag)));
            // decrypt a genuine ciphertext, a damaged one, and raw noise
            let h = handler(&rev.to_string(), &n.to_string()).unwrap();
            let ct = h.encrypt_aes(&data, &EncryptionKey::new(key.clone()), &ObjectId::new(num, g as u16)).unwrap_or_default();
            out.push(Case::new(format!("decaes {} {} {} {} {} {}", rev, n, hex(&key), num, g, hex(&ct)), format!("decaes genuine {}", tag)));
            out.push(Case::new(format!("decstr {} {} {} {} {} {}", rev, n, hex(&key), num, g, hex(&ct)), format!("decstr genuine {}", tag)));
            let mut bad = ct.clone();
            if !bad.is_empty() {
                let l = bad.len();
                bad[l - 1] ^= 0x10;
            }
            out.push(Case::new(format!("decstr {} {} {} {} {} {}", rev, n, hex(&key), num, g, hex(&bad)), format!("decstr damaged {}", tag)));
            out.push(Case::new(format!("decaes {} {} {} {} {} {}", rev, n, hex(&key), num, g, hex(&data)), format!("decaes noise {}", tag)));
        } else {
            out.push(Case::new(format!("decstr {} {} {} {} {} {}", rev, n, hex(&key), num, g, hex(&data)), format!("decstr {}", tag)));
            out.push(Case::new(format!("encaes {} {} {} {} {} {}", rev, n, hex(&key), num, g, hex(&data)), format!("encaes wrong-rev {}", tag)));
        }
    }

    // ---- hash functions at their padding boundaries (block 64: 55/56/63/64; block 128: 111/112/127/128)
    for alg in ["md5", "sha256", "sha384", "sha512"] {
        let mut lens: Vec<usize> = vec![0, 1, 3, 54, 55, 56, 57, 63, 64, 65, 110, 111, 112, 113, 119, 120, 127, 128, 129, 183, 184, 239, 240, 256];
        for _ in 0..2 * scale {
            lens.push(rng.range(2, 700) as usize);
        }
        for n in lens {
            let d = rng.bytes(n);
            out.push(Case::new(format!("hash {} {}", alg, hex(&d)), format!("hash {} len-class{}{}", alg, n.min(300) / 32, if n > 0 { " nt" } else { "" })));
        }
    }

    // ---- Algorithm 2.B -------------------------------------------------------------------------
    for i in 0..10 * scale {
        let plen = match i % 5 {
            0 => 0,
            1 => 127,
            2 => 128,
            _ => rng.range(1, 60) as usize,
        };
        let p = if rng.chance(1, 2) { rand_pw(rng).into_bytes() } else { rng.bytes(plen) };
        let p = if i % 5 == 2 { rng.bytes(128) } else { p };
        let sl = *rng.pick(&[8usize, 8, 8, 0, 16]);
        let salt = rng.bytes(sl);
        let ul = *rng.pick(&[0usize, 48, 48, 20, 127]);
        let u = rng.bytes(ul);
        out.push(Case::new(format!("h2b {} {} {}", hex(&p), hex(&salt), hex(&u)), format!("h2b plen-class{} ulen{} nt", p.len().min(128) / 32, u.len())));
    }

    // ---- R5 / R6 entries ---------------------------------------------------------------------
    for i in 0..12 * scale {
        let rev = if i % 2 == 0 { 5 } else { 6 };
        let h = handler(&rev.to_string(), "32").unwrap();
        // every third round: passwords above 127 bytes (Algorithm 2.A (a) truncates them)
        let long = i % 3 == 2;
        let upw = if long && i % 6 != 5 { long_pw(rng) } else { rand_pw(rng) };
        let opw = if long && i % 12 != 2 { long_pw(rng) } else { rand_pw(rng) };
        let key = rng.bytes(32);
        let p = rand_perm(rng);
        let asc = if is_ascii(&opw) && is_ascii(&upw) { "ascii" } else { "nonascii" };
        let tag = format!("r{} {}{} nt", rev, asc, if long { " pw-over-127" } else { "" });
        let (up, op) = (UserPassword(upw.clone()), OwnerPassword(opw.clone()));
        let u = if rev == 5 { h.compute_r5_user_hash(&up) } else { h.compute_r6_user_hash(&up) }.unwrap();
        let o = if rev == 5 { h.compute_r5_owner_hash(&op, &u) } else { h.compute_r6_owner_hash(&op, &u) }.unwrap();
        let ek = EncryptionKey::new(key.clone());
        let ue = if rev == 5 { h.compute_r5_ue_entry(&up, &u, &ek) } else { h.compute_r6_ue_entry(&up, &u, &ek) }.unwrap();
        let oe = if rev == 5 { h.compute_r5_oe_entry(&op, &o, &u, &key) } else { h.compute_r6_oe_entry(&op, &o, &u, &key) }.unwrap();
        let perms = h.compute_perms_entry(Permissions::from_bits(p), &ek, true).unwrap();
        let wrong = format!("x{}", upw);
        out.push(Case::new(format!("uent {} {}", rev, hx(&upw)), format!("uent {}", tag)));
        out.push(Case::new(format!("oent {} {} {}", rev, hx(&opw), hex(&u)), format!("oent {}", tag)));
        out.push(Case::new(format!("ue {} {} {} {}", rev, hx(&upw), hex(&u), hex(&key)), format!("ue {}", tag)));
        out.push(Case::new(format!("oe {} {} {} {} {}", rev, hx(&opw), hex(&o), hex(&u), hex(&key)), format!("oe {}", tag)));
        out.push(Case::new(format!("valu {} {} {}", rev, hx(&upw), hex(&u)), format!("valu right {}", tag)));
        out.push(Case::new(format!("valu {} {} {}", rev, hx(&wrong), hex(&u)), format!("valu wrong {}", tag)));
        if upw.len() > 127 {
            // only the first 127 bytes take part: a password differing after them is the same password
            out.push(Case::new(format!("valu {} {} {}", rev, hx(&format!("{}Zz", upw)), hex(&u)), format!("valu right tail-differs {}", tag)));
            out.push(Case::new(format!("recu {} {} {} {}", rev, hx(&format!("{}Zz", upw)), hex(&u), hex(&ue)), format!("recu tail-differs {}", tag)));
        }
        if opw.len() > 127 {
            out.push(Case::new(format!("valo {} {} {} {}", rev, hx(&format!("{}Zz", opw)), hex(&o), hex(&u)), format!("valo right tail-differs {}", tag)));
        }
        out.push(Case::new(format!("valo {} {} {} {}", rev, hx(&opw), hex(&o), hex(&u)), format!("valo right {}", tag)));
        out.push(Case::new(format!("valo {} {} {} {}", rev, hx(&wrong), hex(&o), hex(&u)), format!("valo wrong {}", tag)));
        out.push(Case::new(format!("recu {} {} {} {}", rev, hx(&upw), hex(&u), hex(&ue)), format!("recu {}", tag)));
        out.push(Case::new(format!("reco {} {} {} {} {}", rev, hx(&opw), hex(&o), hex(&u), hex(&oe)), format!("reco {}", tag)));
        let em = rng.chance(1, 2);
        out.push(Case::new(format!("perms {} {} {} {}", rev, p, hex(&key), em as u8), format!("perms {}", tag)));
        out.push(Case::new(format!("vperms {} {} {} {}", rev, hex(&key), hex(&perms), p), format!("vperms right {}", tag)));
        out.push(Case::new(format!("vperms {} {} {} {}", rev, hex(&key), hex(&perms), p ^ 4), format!("vperms wrong-p {}", tag)));
        out.push(Case::new(format!("vperms {} {} {} {}", rev, hex(&rng.bytes(32)), hex(&perms), p), format!("vperms wrong-key {}", tag)));
        // Acrobat-style 127-byte U/O (zero padded)
        let mut u127 = u.clone();
        u127.resize(127, 0);
        let mut o127 = o.clone();
        o127.resize(127, 0);
        out.push(Case::new(format!("valu {} {} {}", rev, hx(&upw), hex(&u127)), format!("valu right u127 {}", tag)));
        out.push(Case::new(format!("valu {} {} {}", rev, hx(&upw), hex(&u[..40])), format!("valu short {}", tag)));
        // reader unlock with the full dictionary
        for (who, pass, kind) in [("user", &upw, "right"), ("owner", &opw, "right"), ("user", &wrong, "wrong"), ("owner", &wrong, "wrong")] {
            let (uu, oo) = if rng.chance(1, 3) { (&u127, &o127) } else { (&u, &o) };
            out.push(Case::new(
                format!("unlock {} {} 5 256 AESV3 none {} {} {} none {} {} {}", who, rev, hex(oo), hex(uu), p as i32, hex(&ue), hex(&oe), hx(pass)),
                format!("unlock {} {} {}", who, kind, tag),
            ));
        }
        // nonstandard public helpers (modelled, no reference definition)
        out.push(Case::new(format!("aeskey {} 32 {} {} {} {}", rev, hx(&upw), hex(&o), p, id_field(&rand_id(rng))), format!("aeskey {}", tag)));
        out.push(Case::new(format!("uhash {} 32 {} {} {} none", rev, hx(&upw), hex(&o), p), format!("uhash {}", tag)));
        out.push(Case::new(format!("vuser {} 32 {} {} {} {} none", rev, hx(&upw), hex(&u), hex(&o), p), format!("vuser {}", tag)));
        out.push(Case::new(format!("vowner {} 32 {} {} {} none {}", rev, hx(&opw), hex(&o), p, hex(&u)), format!("vowner right {}", tag)));
    }

    // ---- Permissions ---------------------------------------------------------------------------
    for i in 0..256u32 {
        if tier == Tier::Thorough || i % 5 == 0 || i == 255 {
            let s: String = (0..8).map(|b| if i >> b & 1 == 1 { '1' } else { '0' }).collect();
            out.push(Case::new(format!("pflags {}", s), if i != 0 { "pflags nt" } else { "pflags" }));
        }
    }
    for _ in 0..40 * scale {
        out.push(Case::new(format!("pbits {} {}", rand_perm(rng), rand_perm(rng)), "pbits nt"));
    }
    out
}

fn main() {
    harness_main(gen, run, Limits::default());
}
