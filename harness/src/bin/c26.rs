//! C26 — drives the real CMap parser / lookup / ToUnicode builder (text/cmap.rs).
//!
//! Requests:
//!   `cmap <text-hex> <struct|-> <codes>`
//!        text   : the CMap text (bytes, hex)
//!        struct : what the generator MEANT the text to define (read only by the spec-side oracle):
//!                 `cs:lo-hi,..|bc:src=dst,..|br:lo-hi=dst,..|ba:lo-hi=d.d.d,..` (`_` = empty bytes),
//!                 `-` for free-form / damaged texts (oracle: na)
//!        codes  : `,`-separated hex codes (`_` = empty code)
//!   `build <code_length> <adds|-> <codes>`   adds: `code=cp.cp;code=cp` in call order (`_` = empty)
//! Answer of `cmap`: `N=..;W=..;I=..;CS=..;M=..;Q=..` (parsed structure, then per code
//! `mapped/valid/unicode`), of `build`: `T=<text hex>;Q=..`.
use oxiharness::*;
use oxidize_pdf::text::cmap::{CMap, CMapEntry, ToUnicodeCMapBuilder};

fn hb(bs: &[u8]) -> String {
    if bs.is_empty() {
        "_".into()
    } else {
        bs.iter().map(|b| format!("{:02x}", b)).collect()
    }
}

fn unhb(s: &str) -> Option<Vec<u8>> {
    if s == "_" {
        Some(vec![])
    } else {
        unhex(s)
    }
}

fn query(cmap: &CMap, codes: &[Vec<u8>]) -> String {
    let mut out = Vec::new();
    for c in codes {
        let m = cmap.map(c);
        let v = if cmap.is_valid_code(c) { "v" } else { "i" };
        let (ms, us) = match &m {
            None => ("~".to_string(), "~".to_string()),
            Some(bytes) => (
                hb(bytes),
                match cmap.to_unicode(bytes) {
                    None => "~".to_string(),
                    Some(s) if s.is_empty() => "_".to_string(),
                    Some(s) => s.chars().map(|c| format!("{:x}", c as u32)).collect::<Vec<_>>().join("."),
                },
            ),
        };
        out.push(format!("{}/{}/{}", ms, v, us));
    }
    if out.is_empty() {
        ".".into()
    } else {
        out.join(",")
    }
}

fn parse_codes(s: &str) -> Option<Vec<Vec<u8>>> {
    if s == "." {
        return Some(vec![]);
    }
    s.split(',').map(unhb).collect()
}

fn dump(cmap: &CMap) -> String {
    // names are built from the text's BYTES, one char per byte (chars 0..255): dump the char codes
    let l1 = |n: &String| hb(&n.chars().map(|c| c as u32 as u8).collect::<Vec<u8>>());
    let name = cmap.name.as_ref().map(l1).unwrap_or("~".into());
    let inh = cmap.inherited_predefined.as_ref().map(l1).unwrap_or("~".into());
    let cs: Vec<String> = cmap.codespace_ranges.iter().map(|r| format!("{}-{}", hb(&r.start), hb(&r.end))).collect();
    let ms: Vec<String> = cmap
        .mappings
        .iter()
        .map(|e| match e {
            CMapEntry::Single { src, dst } => format!("s:{}={}", hb(src), hb(dst)),
            CMapEntry::Range { src_start, src_end, dst_start } => {
                format!("r:{}-{}={}", hb(src_start), hb(src_end), hb(dst_start))
            }
        })
        .collect();
    let j = |v: Vec<String>| if v.is_empty() { ".".to_string() } else { v.join(",") };
    format!("N={};W={};I={};CS={};M={}", name, cmap.wmode, inh, j(cs), j(ms))
}

fn run(req: &str) -> String {
    let p: Vec<&str> = req.split(' ').collect();
    match p.as_slice() {
        ["cmap", text, _st, codes] => {
            let (Some(text), Some(codes)) = (unhex(text), parse_codes(codes)) else { return "bad-request".into() };
            match CMap::parse(&text) {
                Ok(c) => format!("{};Q={}", dump(&c), query(&c, &codes)),
                Err(_) => "err:parse".into(),
            }
        }
        ["build", len, adds, codes] => {
            let (Ok(len), Some(codes)) = (len.parse::<usize>(), parse_codes(codes)) else { return "bad-request".into() };
            let mut b = ToUnicodeCMapBuilder::new(len);
            if *adds != "-" {
                for a in adds.split(';') {
                    let Some((c, u)) = a.split_once('=') else { return "bad-request".into() };
                    let Some(c) = unhb(c) else { return "bad-request".into() };
                    let s: Option<String> = if u == "_" {
                        Some(String::new())
                    } else {
                        u.split('.').map(|t| u32::from_str_radix(t, 16).ok().and_then(char::from_u32)).collect()
                    };
                    let Some(s) = s else { return "bad-request".into() };
                    b.add_mapping(c, &s);
                }
            }
            let text = b.build();
            match CMap::parse(&text) {
                Ok(c) => format!("T={};Q={}", hex(&text), query(&c, &codes)),
                Err(_) => format!("T={};err:parse", hex(&text)),
            }
        }
        _ => "bad-request".into(),
    }
}

// ------------------------------------------------------------------------------------------------

fn be(bs: &[u8]) -> u64 {
    bs.iter().fold(0u64, |a, b| a * 256 + *b as u64)
}

fn to_be(v: u64, n: usize) -> Vec<u8> {
    (0..n).map(|i| ((v >> (8 * (n - 1 - i))) & 0xFF) as u8).collect()
}

#[derive(Clone)]
enum Ent {
    Char(Vec<u8>, Vec<u8>),
    Range(Vec<u8>, Vec<u8>, Vec<u8>),
    Arr(Vec<u8>, Vec<u8>, Vec<Vec<u8>>),
}

fn rand_dst(rng: &mut Rng) -> Vec<u8> {
    match rng.below(10) {
        0..=4 => loop {
            let v = rng.range(0x20, 0xFFFF) as u64;
            if !(0xD800..=0xDFFF).contains(&v) {
                break to_be(v, 2);
            }
        },
        5 => {
            // near a byte-carry boundary of the destination
            let hi = rng.range(0x00, 0xD6) as u8;
            vec![hi, *rng.pick(&[0xF0u8, 0xFE, 0xFF, 0xFD])]
        }
        6 | 7 => {
            // surrogate pair
            let cp = rng.range(0x10000, 0x10FFFF) as u32;
            let v = cp - 0x10000;
            let (h, l) = (0xD800 + (v >> 10), 0xDC00 + (v & 0x3FF));
            let low_byte = if rng.chance(1, 3) { 0xFF } else { (l & 0xFF) as u8 };
            vec![(h >> 8) as u8, (h & 0xFF) as u8, (l >> 8) as u8, low_byte]
        }
        8 => {
            // multi-character destination (ligature)
            let n = rng.range(2, 3) as usize;
            (0..n).flat_map(|_| vec![0x00, rng.range(0x61, 0x7A) as u8]).collect()
        }
        _ => {
            if rng.chance(1, 2) {
                vec![]
            } else {
                vec![rng.range(0x41, 0x5A) as u8] // odd length: UTF-8 path of to_unicode
            }
        }
    }
}

fn rand_code(rng: &mut Rng, n: usize) -> Vec<u8> {
    let mut c = rng.bytes(n);
    if rng.chance(1, 3) && n > 0 {
        c[n - 1] = *rng.pick(&[0x00u8, 0x01, 0x7F, 0x80, 0xFE, 0xFF]);
    }
    if rng.chance(1, 4) && n > 1 {
        c[0] = 0;
    }
    c
}

struct Gen {
    cs: Vec<(Vec<u8>, Vec<u8>)>,
    ents: Vec<Ent>,
}

fn gen_struct(rng: &mut Rng) -> Gen {
    let n = *rng.pick(&[1usize, 2, 2, 2, 3, 4]);
    let mut cs = Vec::new();
    match rng.below(6) {
        0 | 1 | 2 => cs.push((vec![0u8; n], vec![0xFFu8; n])),
        3 => {
            // rectangular sub-space (CJK style)
            let lo: Vec<u8> = (0..n).map(|_| rng.range(0x00, 0x81) as u8).collect();
            let hi: Vec<u8> = lo.iter().map(|l| rng.range(*l as i64, 0xFF) as u8).collect();
            cs.push((lo, hi));
        }
        4 => {
            cs.push((vec![0x00], vec![0x80]));
            if n > 1 {
                let mut lo = vec![0x40u8; n];
                lo[0] = 0x81;
                let mut hi = vec![0xFCu8; n];
                hi[0] = 0x9F;
                cs.push((lo, hi));
            }
        }
        _ => {
            cs.push((vec![0u8; n], vec![0xFFu8; n]));
            if n > 1 {
                cs.push((vec![0u8; n - 1], vec![0xFFu8; n - 1]));
            }
        }
    }
    let mut ents = Vec::new();
    let k = rng.below(7);
    for _ in 0..k {
        // code length: usually n, now and then another one (the #302 situation: 1-byte bfchar under
        // a 2-byte code space)
        let m = if rng.chance(1, 8) { *rng.pick(&[1usize, 2, 3]) } else { n };
        match rng.below(4) {
            0 | 1 => ents.push(Ent::Char(rand_code(rng, m), rand_dst(rng))),
            2 => {
                let lo = rand_code(rng, m);
                let span = *rng.pick(&[0u64, 1, 2, 5, 0x20, 0xFF, 0x100, 0x1FF]);
                let max = if m >= 8 { u64::MAX } else { (1u64 << (8 * m)) - 1 };
                let hi_v = (be(&lo) + span).min(max);
                let mut hi = to_be(hi_v, m);
                if rng.chance(1, 25) {
                    // inverted range
                    hi = to_be(be(&lo).saturating_sub(1), m);
                }
                ents.push(Ent::Range(lo, hi, rand_dst(rng)));
            }
            _ => {
                let lo = rand_code(rng, m);
                let span = *rng.pick(&[0u64, 1, 2, 3, 4]);
                let max = (1u64 << (8 * m)) - 1;
                let hi = to_be((be(&lo) + span).min(max), m);
                let cnt = (span as i64 + 1 + rng.range(-1, 1)).max(0) as usize;
                let ds: Vec<Vec<u8>> = (0..cnt).map(|_| rand_dst(rng)).collect();
                ents.push(Ent::Arr(lo, hi, ds));
            }
        }
    }
    Gen { cs, ents }
}

fn h(bs: &[u8], upper: bool) -> String {
    bs.iter().map(|b| if upper { format!("{:02X}", b) } else { format!("{:02x}", b) }).collect()
}

/// render the structure as CMap text in one of several layouts
fn render(g: &Gen, rng: &mut Rng) -> String {
    let layout = rng.below(4); // 0 canonical multi-line, 1 one line per section, 2 minified, 3 spaced/commented
    let upper = rng.chance(1, 2);
    let nl = |s: &mut String, layout: u64| s.push_str(if layout == 0 || layout == 3 { "\n" } else { " " });
    let mut s = String::new();
    if rng.chance(2, 3) {
        s.push_str("/CIDInit /ProcSet findresource begin\n12 dict begin\nbegincmap\n/CIDSystemInfo << /Registry (Adobe) /Ordering (UCS) /Supplement 0 >> def\n/CMapName /Adobe-Identity-UCS def\n/CMapType 2 def\n");
    }
    if layout == 3 {
        s.push_str("% generated <00> <41> beginbfchar\n");
    }
    let hx = |b: &[u8], rng: &mut Rng| {
        if layout == 3 && rng.chance(1, 4) && !b.is_empty() {
            // white space inside the angle brackets
            let t = h(b, upper);
            format!("< {} {} >", &t[..2], &t[2..])
        } else {
            format!("<{}>", h(b, upper))
        }
    };
    let sep = if layout == 2 { "" } else { " " };
    s.push_str(&format!("{} begincodespacerange", g.cs.len()));
    nl(&mut s, layout);
    for (lo, hi) in &g.cs {
        s.push_str(&format!("{}{}{}", hx(lo, rng), sep, hx(hi, rng)));
        nl(&mut s, layout);
    }
    s.push_str("endcodespacerange");
    nl(&mut s, layout);
    // group consecutive entries of the same kind into sections
    let mut i = 0;
    while i < g.ents.len() {
        let is_char = matches!(g.ents[i], Ent::Char(..));
        let mut j = i;
        while j < g.ents.len() && matches!(g.ents[j], Ent::Char(..)) == is_char {
            j += 1;
        }
        let count = if rng.chance(1, 10) { 100 } else { j - i }; // the operand count is ignored anyway
        s.push_str(&format!("{} {}", count, if is_char { "beginbfchar" } else { "beginbfrange" }));
        nl(&mut s, layout);
        for e in &g.ents[i..j] {
            match e {
                Ent::Char(a, b) => s.push_str(&format!("{}{}{}", hx(a, rng), sep, hx(b, rng))),
                Ent::Range(a, b, d) => s.push_str(&format!("{}{}{}{}{}", hx(a, rng), sep, hx(b, rng), sep, hx(d, rng))),
                Ent::Arr(a, b, ds) => {
                    let inner: Vec<String> = ds.iter().map(|d| hx(d, rng)).collect();
                    let arr = if layout == 2 { format!("[{}]", inner.join("")) } else { format!("[ {} ]", inner.join(" ")) };
                    s.push_str(&format!("{}{}{}{}{}", hx(a, rng), sep, hx(b, rng), sep, arr));
                }
            }
            nl(&mut s, layout);
        }
        s.push_str(if is_char { "endbfchar" } else { "endbfrange" });
        nl(&mut s, layout);
        i = j;
    }
    if rng.chance(2, 3) {
        s.push_str("endcmap\nCMapName currentdict /CMap defineresource pop\nend\nend\n");
    }
    s
}

fn struct_str(g: &Gen) -> String {
    let cs: Vec<String> = g.cs.iter().map(|(a, b)| format!("{}-{}", hb(a), hb(b))).collect();
    let mut bc = vec![];
    let mut br = vec![];
    let mut ba = vec![];
    for e in &g.ents {
        match e {
            Ent::Char(a, b) => bc.push(format!("{}={}", hb(a), hb(b))),
            Ent::Range(a, b, d) => br.push(format!("{}-{}={}", hb(a), hb(b), hb(d))),
            Ent::Arr(a, b, ds) => ba.push(format!(
                "{}-{}={}",
                hb(a),
                hb(b),
                if ds.is_empty() { "!".to_string() } else { ds.iter().map(|d| hb(d)).collect::<Vec<_>>().join(".") }
            )),
        }
    }
    let j = |v: Vec<String>| if v.is_empty() { "!".to_string() } else { v.join(",") };
    format!("cs:{}|bc:{}|br:{}|ba:{}", j(cs), j(bc), j(br), j(ba))
}

fn probe_codes(g: &Gen, rng: &mut Rng) -> Vec<Vec<u8>> {
    let mut v: Vec<Vec<u8>> = vec![];
    let around = |c: &[u8], v: &mut Vec<Vec<u8>>| {
        let n = c.len();
        if n == 0 || n > 7 {
            v.push(c.to_vec());
            return;
        }
        let x = be(c);
        let max = (1u64 << (8 * n)) - 1;
        v.push(c.to_vec());
        if x > 0 {
            v.push(to_be(x - 1, n));
        }
        if x < max {
            v.push(to_be(x + 1, n));
        }
    };
    for e in &g.ents {
        match e {
            Ent::Char(a, _) => around(a, &mut v),
            Ent::Range(a, b, _) | Ent::Arr(a, b, _) => {
                around(a, &mut v);
                around(b, &mut v);
                if a.len() == b.len() && a.len() <= 7 && be(a) < be(b) {
                    let mid = be(a) + rng.below(be(b) - be(a) + 1);
                    v.push(to_be(mid, a.len()));
                    // the first code whose low byte wraps
                    let wrap = (be(a) | 0xFF) + 1;
                    if wrap <= be(b) {
                        v.push(to_be(wrap, a.len()));
                        v.push(to_be(wrap - 1, a.len()));
                    }
                }
            }
        }
    }
    for (lo, hi) in &g.cs {
        around(lo, &mut v);
        around(hi, &mut v);
        // inside the lexicographic interval but outside the byte-wise rectangle
        if lo.len() >= 2 && lo.len() == hi.len() && lo[0] < hi[0] {
            let mut c = lo.clone();
            c[0] += 1;
            for b in c.iter_mut().skip(1) {
                *b = 0;
            }
            v.push(c);
        }
    }
    let n = g.cs[0].0.len();
    for _ in 0..4 {
        v.push(rand_code(rng, n));
    }
    v.push(vec![]);
    v.push(rand_code(rng, n + 1));
    if n > 1 {
        v.push(rand_code(rng, n - 1));
    }
    v.sort();
    v.dedup();
    v.truncate(60);
    v
}

fn codes_str(cs: &[Vec<u8>]) -> String {
    if cs.is_empty() {
        ".".into()
    } else {
        cs.iter().map(|c| hb(c)).collect::<Vec<_>>().join(",")
    }
}

fn damage(text: &str, rng: &mut Rng) -> Vec<u8> {
    let mut b = text.as_bytes().to_vec();
    let alphabet = b"<>[]()/%-+ \n\t0123456789abcdefABCDEFxyz\\";
    for _ in 0..rng.range(1, 4) {
        if b.is_empty() {
            break;
        }
        let at = rng.below(b.len() as u64) as usize;
        match rng.below(4) {
            0 => b[at] = *rng.pick(alphabet),
            1 => {
                b.remove(at);
            }
            2 => b.insert(at, *rng.pick(alphabet)),
            _ => b.truncate(at),
        }
    }
    b
}

/// non-ASCII damage: whole UTF-8 characters (the text stays UTF-8; the tokenizer then sees their
/// bytes one by one: `é` = C3 A9, NBSP = C2 A0 and NEL = C2 85 contain a Latin-1 white-space char,
/// `€` = E2 82 AC) inserted at random places or right inside a hex string, at odd and even offsets;
/// now and then a lone byte >= 0x80 (not UTF-8: `CMap::parse` must answer `Err`).
fn damage_nonascii(text: &str, rng: &mut Rng) -> Vec<u8> {
    let mut b = text.as_bytes().to_vec();
    let chars: [&[u8]; 7] = [b"\xC3\xA9", b"\xC2\xA0", b"\xC2\x85", b"\xE2\x82\xAC", b"\xC3\xBF", b"\xF0\x9F\x98\x80", b"\xC2\x80"];
    for _ in 0..rng.range(1, 3) {
        if b.is_empty() {
            break;
        }
        // positions just after a `<` or one/two digits into a hex string are the interesting ones
        let lts: Vec<usize> = b.iter().enumerate().filter(|(_, c)| **c == b'<').map(|(i, _)| i).collect();
        let at = if !lts.is_empty() && rng.chance(2, 3) {
            (*rng.pick(&lts) + 1 + rng.below(4) as usize).min(b.len())
        } else {
            rng.below(b.len() as u64 + 1) as usize
        };
        // never split an earlier insertion
        if at < b.len() && (b[at] & 0xC0) == 0x80 {
            continue;
        }
        let ins: Vec<u8> = if rng.chance(1, 12) { vec![*rng.pick(&[0x80u8, 0xA9, 0xC3, 0xFF])] } else { rng.pick(&chars).to_vec() };
        for (k, x) in ins.iter().enumerate() {
            b.insert(at + k, *x);
        }
    }
    b
}

const FREEFORM: &[&str] = &[
    "/Identity-H usecmap\n1 begincodespacerange <0000> <FFFF> endcodespacerange\n1 beginbfchar <0041> <0061> endbfchar",
    "/Identity-V usecmap 1 beginbfchar <0041> <0061> endbfchar",
    "/Adobe-Japan1-UCS2 usecmap\n/WMode 1 def /CMapName /Foo-H def\n1 begincodespacerange <00> <FF> endcodespacerange",
    "/WMode -1 def /WMode 257 def /CMapName 5 /CMapName /X def usecmap",
    "1 begincodespacerange <00> <FF> endcodespacerange 1 beginbfrange <41> <43> [<0061> <0062>] <44> <44> endbfrange",
    "1 beginbfrange <FFFE> <FFFF> [<0061> <0062> <0063>] endbfrange 1 begincodespacerange <0000> <FFFF> endcodespacerange",
    "1 beginbfchar <41> <0061> <42> endbfchar 1 beginbfrange <50> <51> endbfrange <60> <61> <0070>",
    "1 beginbfchar <4 1> <00 61> < 42 > <0062> <+f> <0063> <4> <0064> <zz> <0065> endbfchar",
    "(lit (nested) \\) <41>) 1 beginbfchar <41> <0061> endbfchar % <42> <0062>\n<43> <0063>",
    "1 begincodespacerange <00> <FF> endcodespacerange 1 beginbfchar <41> <0061> 1 beginbfchar <42> <0062> endbfchar endbfchar",
    "<< /A <41> >> ] ) > 12abc -5 -x 99999999999999999999 /N1/N2 [ <41> <42 ] 1 beginbfchar <41> <0061> endbfchar",
    "1 beginbfrange <0000> <FFFF> <0000> endbfrange 1 begincodespacerange <0000> <FFFF> endcodespacerange",
    "1 beginbfrange <00> <FF> <00FF> <0100> <01FF> <D7FF> endbfrange",
    // non-ASCII characters: inside hex strings at odd / even offsets, as white space (NBSP, NEL), in names
    "1 beginbfchar <4\u{e9}4> <0041> <41> <0061> <\u{e9}> <0062> <42\u{e9}> <0063> <4\u{a0}2> <0064> <\u{85}43> <0065> endbfchar",
    "/CMapName /N\u{e9}\u{20ac} def /Identit\u{e9} usecmap 1 beginbfrange <41> <42> [<00\u{e9}61> <0062>] <4\u{20ac}> <44> <0070> endbfrange",
    "1 begincodespacerange <00> <\u{ff}F> <00> <FF> endcodespacerange kw\u{e9} 1 beginbfchar <41> <0061> endbfchar",
];

fn gen(rng: &mut Rng, tier: Tier) -> Vec<Case> {
    let mut v = Vec::new();
    let n = if tier == Tier::Thorough { 6000 } else { 700 };
    for f in FREEFORM {
        let codes = "41,42,43,44,0041,0042,fffe,ffff,0000,50,51,60,0f,_,00,ff,0100,0180,414141";
        v.push(Case::new(format!("cmap {} - {}", hex(f.as_bytes()), codes), "cmap freeform nt"));
    }
    for i in 0..n {
        match i % 10 {
            0..=6 => {
                let g = gen_struct(rng);
                let text = render(&g, rng);
                let codes = probe_codes(&g, rng);
                let nt = if g.ents.is_empty() { "" } else { " nt" };
                let kinds = format!(
                    "{}{}{}",
                    if g.ents.iter().any(|e| matches!(e, Ent::Char(..))) { " bfchar" } else { "" },
                    if g.ents.iter().any(|e| matches!(e, Ent::Range(..))) { " bfrange" } else { "" },
                    if g.ents.iter().any(|e| matches!(e, Ent::Arr(..))) { " bfarray" } else { "" }
                );
                v.push(Case::new(
                    format!("cmap {} {} {}", hex(text.as_bytes()), struct_str(&g), codes_str(&codes)),
                    format!("cmap structured len{}{}{}", g.cs[0].0.len(), kinds, nt),
                ));
            }
            7 => {
                let g = gen_struct(rng);
                let text = render(&g, rng);
                let codes = probe_codes(&g, rng);
                if rng.chance(1, 3) {
                    let d = damage_nonascii(&text, rng);
                    v.push(Case::new(format!("cmap {} - {}", hex(&d), codes_str(&codes)), "cmap damaged nonascii nt"));
                } else {
                    let d = damage(&text, rng);
                    v.push(Case::new(format!("cmap {} - {}", hex(&d), codes_str(&codes)), "cmap damaged nt"));
                }
            }
            _ => {
                let len = *rng.pick(&[1usize, 1, 2, 2, 2, 3, 4]);
                let k = if rng.chance(1, 12) { rng.range(95, 230) } else { rng.range(0, 12) } as usize;
                let mut adds = vec![];
                let mut codes: Vec<Vec<u8>> = vec![];
                for _ in 0..k {
                    let code = if rng.chance(1, 15) { rand_code(rng, len + 1) } else if !codes.is_empty() && rng.chance(1, 10) { rng.pick(&codes).clone() } else { rand_code(rng, len) };
                    let slen = *rng.pick(&[0usize, 1, 1, 1, 1, 2, 3]);
                    let s: Vec<u32> = (0..slen)
                        .map(|_| loop {
                            let c = match rng.below(4) {
                                0 => rng.range(0x20, 0x7E),
                                1 => rng.range(0xA0, 0x2FFF),
                                2 => *rng.pick(&[0xD7FFi64, 0xE000, 0xFFFD, 0xFFFF, 0x10000, 0x10FFFF, 0xFB01]),
                                _ => rng.range(0x10000, 0x10FFFF),
                            } as u32;
                            if char::from_u32(c).is_some() {
                                break c;
                            }
                        })
                        .collect();
                    adds.push(format!(
                        "{}={}",
                        hb(&code),
                        if s.is_empty() { "_".to_string() } else { s.iter().map(|c| format!("{:x}", c)).collect::<Vec<_>>().join(".") }
                    ));
                    codes.push(code);
                }
                let mut probes = codes.clone();
                for _ in 0..3 {
                    probes.push(rand_code(rng, len));
                }
                probes.push(vec![]);
                probes.sort();
                probes.dedup();
                probes.truncate(40);
                v.push(Case::new(
                    format!("build {} {} {}", len, if adds.is_empty() { "-".to_string() } else { adds.join(";") }, codes_str(&probes)),
                    format!("build len{}{}", len, if k > 0 { " nt" } else { "" }),
                ));
            }
        }
    }
    v
}

fn main() {
    harness_main(gen, run, Limits::default());
}
