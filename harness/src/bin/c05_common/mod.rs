//! Shared by c05.rs and c06.rs: build a document through the public API, write it with a
//! configuration, read a file back (optionally unlocking) into a canonical summary.
#![allow(dead_code)]
use oxidize_pdf::annotations::{Annotation, AnnotationType};
use oxidize_pdf::document::{DocumentEncryption, EncryptionStrength};
use oxidize_pdf::encryption::Permissions;
use oxidize_pdf::geometry::Rectangle;
use oxidize_pdf::objects::Object;
use oxidize_pdf::parser::{PdfDocument, PdfObject, PdfReader};
use oxidize_pdf::writer::WriterConfig;
use oxidize_pdf::{Document, Font, Page, Point};
use oxiharness::hex;
use std::io::Cursor;

pub struct DocSpec {
    pub title: String,
    pub author: String,
    pub texts: Vec<String>, // one per page
    /// extra string entries of one text annotation on page 0: (key, value)
    pub annot: Vec<(String, String)>,
}

pub fn build(spec: &DocSpec) -> Document {
    let mut doc = Document::new();
    doc.set_title(&spec.title);
    doc.set_author(&spec.author);
    for (i, t) in spec.texts.iter().enumerate() {
        let mut page = Page::a4();
        let _ = page.text().set_font(Font::Helvetica, 12.0).at(50.0, 700.0).write(t);
        if i == 0 && !spec.annot.is_empty() {
            let mut a = Annotation::new(
                AnnotationType::Text,
                Rectangle::new(Point::new(10.0, 10.0), Point::new(30.0, 30.0)),
            );
            for (k, v) in &spec.annot {
                a.properties.set(k.as_str(), Object::String(v.clone()));
            }
            page.add_annotation(a);
        }
        doc.add_page(page);
    }
    doc
}

pub fn strength_of(s: &str) -> Option<EncryptionStrength> {
    Some(match s {
        "rc4_40" => EncryptionStrength::Rc4_40bit,
        "rc4_128" => EncryptionStrength::Rc4_128bit,
        "aes_128" => EncryptionStrength::Aes128,
        "aes_256" => EncryptionStrength::Aes256,
        _ => return None,
    })
}

/// cfg = three characters: x (xref stream) o (object streams) c (compress), `-` = off
pub fn config_of(cfg: &str) -> WriterConfig {
    let mut c = WriterConfig::default();
    c.use_xref_streams = cfg.contains('x');
    c.use_object_streams = cfg.contains('o');
    c.compress_streams = cfg.contains('c');
    if c.use_xref_streams || c.use_object_streams {
        c.pdf_version = "1.5".to_string();
    }
    c
}

pub fn write(spec: &DocSpec, cfg: &str, enc: Option<(&str, &str, &str, u32)>) -> Result<Vec<u8>, String> {
    let mut doc = build(spec);
    if let Some((strength, user, owner, perm)) = enc {
        let st = strength_of(strength).ok_or("strength")?;
        doc.set_encryption(DocumentEncryption::new(user, owner, Permissions::from_bits(perm), st));
    }
    doc.to_bytes_with_config(config_of(cfg)).map_err(|e| format!("write:{e}"))
}

#[derive(Default, Clone, PartialEq, Debug)]
pub struct Summary {
    pub encrypted: bool,
    pub unlock: String, // ok | refused | err
    pub pages: String,
    pub title: String,
    pub author: String,
    pub streams: String,
    pub annots: String,
    pub perms: String,
}

impl Summary {
    pub fn content(&self) -> String {
        format!("p={} t={} a={} s={} n={}", self.pages, self.title, self.author, self.streams, self.annots)
    }
}

fn annot_strings(d: &oxidize_pdf::parser::PdfDictionary) -> String {
    let mut v: Vec<String> = d
        .0
        .iter()
        .filter_map(|(k, o)| match o {
            PdfObject::String(s) => Some(format!("{}:{}", k.0, hex(s.as_bytes()))),
            _ => None,
        })
        .collect();
    v.sort();
    v.join(",")
}

/// Read `bytes`; `password = None` means "do not call unlock at all".
pub fn read(bytes: &[u8], password: Option<&str>) -> Summary {
    let mut s = Summary::default();
    let mut reader = match PdfReader::new(Cursor::new(bytes.to_vec())) {
        Ok(r) => r,
        Err(_) => {
            s.unlock = "err:open".into();
            return s;
        }
    };
    s.encrypted = reader.is_encrypted();
    s.unlock = match password {
        None => "none".into(),
        Some(p) => match reader.unlock_with_password(p) {
            Ok(true) => "ok".into(),
            Ok(false) => "refused".into(),
            Err(_) => "err".into(),
        },
    };
    s.perms = reader.encryption_handler().map(|h| format!("{}", h.permissions().bits())).unwrap_or_else(|| "-".into());
    if s.unlock == "refused" || s.unlock == "err" {
        return s;
    }
    let doc = PdfDocument::new(reader);
    s.pages = doc.page_count().map(|n| n.to_string()).unwrap_or_else(|_| "err".into());
    match doc.metadata() {
        Ok(m) => {
            s.title = m.title.map(|t| hex(t.as_bytes())).unwrap_or_else(|| "none".into());
            s.author = m.author.map(|t| hex(t.as_bytes())).unwrap_or_else(|| "none".into());
        }
        Err(_) => {
            s.title = "err".into();
            s.author = "err".into();
        }
    }
    let n: u32 = s.pages.parse().unwrap_or(0);
    let mut st = Vec::new();
    let mut an = Vec::new();
    for i in 0..n.min(8) {
        match doc.get_page(i) {
            Ok(p) => match doc.get_page_content_streams(&p) {
                Ok(v) => st.push(v.iter().map(|b| format!("{:x}", md5::compute(b))).collect::<Vec<_>>().join("+")),
                Err(_) => st.push("err".into()),
            },
            Err(_) => st.push("err".into()),
        }
        match doc.get_page_annotations(i) {
            Ok(v) => an.push(v.iter().map(annot_strings).collect::<Vec<_>>().join(";")),
            Err(_) => an.push("err".into()),
        }
    }
    s.streams = st.join("/");
    s.annots = an.join("/");
    s
}

/// does the file's last trailer dictionary (classic `trailer << >>` or the xref stream's
/// dictionary) contain the given key?  Textual scan of the tail, independent of the reader.
pub fn trailer_has(bytes: &[u8], key: &str) -> bool {
    // find the dictionary that precedes the last `startxref`
    let hay = bytes;
    let pos = find_last(hay, b"startxref").unwrap_or(hay.len());
    let head = &hay[..pos];
    let start = match find_last(head, b"trailer") {
        Some(t) => t,
        None => {
            // xref stream: the object starting at the startxref offset
            let tail = String::from_utf8_lossy(&hay[pos..]).to_string();
            let off: usize = tail.split_whitespace().nth(1).and_then(|x| x.parse().ok()).unwrap_or(0);
            off.min(head.len())
        }
    };
    let seg = &head[start..];
    let end = find_first(seg, b"stream").unwrap_or(seg.len());
    let seg = &seg[..end];
    let needle = format!("/{}", key);
    let mut i = 0;
    while let Some(p) = find_first(&seg[i..], needle.as_bytes()) {
        let after = seg.get(i + p + needle.len()).copied().unwrap_or(b' ');
        if !(after.is_ascii_alphanumeric()) {
            return true;
        }
        i += p + 1;
    }
    false
}

pub fn find_first(h: &[u8], n: &[u8]) -> Option<usize> {
    if n.is_empty() || h.len() < n.len() {
        return None;
    }
    (0..=h.len() - n.len()).find(|&i| &h[i..i + n.len()] == n)
}

pub fn find_last(h: &[u8], n: &[u8]) -> Option<usize> {
    if n.is_empty() || h.len() < n.len() {
        return None;
    }
    (0..=h.len() - n.len()).rev().find(|&i| &h[i..i + n.len()] == n)
}
