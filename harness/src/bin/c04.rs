//! C04 — the newest revision of an object always wins.
//!
//! Request (one line, no TAB):
//!   `h <mode> <damage> <rev;rev;…> <num.gen,num.gen,…>`
//!     mode   = strict | default          (ParseOptions::strict() / PdfReader::new)
//!     damage = none | nosx | badsx       (every `startxref` keyword destroyed / last startxref -> 0)
//!     rev    = <xk>:<obj+obj+…|.>:<ent+ent+…|.>
//!     xk     = c | s<num> | z<num> | h<num> | y<num>   classic table / xref stream (raw) / xref stream
//!              (Flate) / hybrid-reference: classic table + /XRefStm stream object <num> (raw / Flate);
//!              optional suffix `@<k>`: /Prev names the section of revision k (0-based; k >= own index
//!              makes a loop), `@-`: no /Prev at all.  Default: /Prev = the previous revision.
//!              For h/y the entries are `<table entries>/<XRefStm entries>`.
//!     obj    = <num>.<gen>v<val> | <num>.<gen>o<n~v_n~v…> | <num>.<gen>z<n~v_…>   (o/z = object stream raw/Flate)
//!     ent    = <num>f<next>.<gen> | <num>n<physidx>.<gen> | <num>c<stm>.<idx>
//! The file is produced by the reference writer (shared_b0417/reffile.rs), opened with the REAL
//! reader and every queried object is fetched with `PdfReader::get_object`.
//! Answer: `v<val>` | `null` | `stm` | `other` | `err:<class>` per query, comma separated;
//! `open-err:<class>` when the file does not open.  The queries are asked in five orders (as given,
//! reversed, ascending, descending, rotated), each order on one reader, and one by one on fresh
//! readers; when an order answers differently from the given one, `!<order>:<its answers>` follows.
use oxiharness::*;
#[path = "../shared_b0417/reffile.rs"]
mod reffile;
use oxidize_pdf::parser::{ParseOptions, PdfObject, PdfReader};
use reffile::*;
use std::io::Cursor;

struct Req {
    mode: String,
    damage: String,
    revs: Vec<Rev>,
    opts: Vec<RevOpt>,
    queries: Vec<(u32, u16)>,
}

fn parse_items(s: &str) -> Option<Vec<(u32, i64)>> {
    if s.is_empty() {
        return Some(vec![]);
    }
    s.split('_')
        .map(|t| {
            let (a, b) = t.split_once('~')?;
            Some((a.parse().ok()?, b.parse().ok()?))
        })
        .collect()
}

fn parse_obj(s: &str) -> Option<Phys> {
    let (num, rest) = s.split_once('.')?;
    let pos = rest.find(|c: char| c == 'v' || c == 'o' || c == 'z')?;
    let gen: u16 = rest[..pos].parse().ok()?;
    let num: u32 = num.parse().ok()?;
    let tail = &rest[pos + 1..];
    let body = match rest.as_bytes()[pos] {
        b'v' => Body::Val(tail.parse().ok()?),
        b'o' => Body::ObjStm { items: parse_items(tail)?, flate: false },
        _ => Body::ObjStm { items: parse_items(tail)?, flate: true },
    };
    Some(Phys { num, gen, body })
}

fn parse_ent(s: &str) -> Option<(u32, Ent)> {
    let pos = s.find(|c: char| c == 'f' || c == 'n' || c == 'c')?;
    let num: u32 = s[..pos].parse().ok()?;
    let (a, b) = s[pos + 1..].split_once('.')?;
    let e = match s.as_bytes()[pos] {
        b'f' => Ent::Free { next: a.parse().ok()?, gen: b.parse().ok()? },
        b'n' => Ent::At { phys: a.parse().ok()?, gen: b.parse().ok()? },
        _ => Ent::Comp { stm: a.parse().ok()?, idx: b.parse().ok()? },
    };
    Some((num, e))
}

fn parse_list<T>(s: &str, sep: char, f: fn(&str) -> Option<T>) -> Option<Vec<T>> {
    if s == "." || s.is_empty() {
        return Some(vec![]);
    }
    s.split(sep).map(f).collect()
}

fn parse_rev(s: &str) -> Option<(Rev, RevOpt)> {
    let parts: Vec<&str> = s.split(':').collect();
    if parts.len() != 3 {
        return None;
    }
    let mut opt = RevOpt::default();
    let (xks, prev) = match parts[0].split_once('@') {
        Some((a, b)) => (a, Some(b)),
        None => (parts[0], None),
    };
    if let Some(p) = prev {
        opt.prev = Some(if p == "-" { None } else { Some(p.parse().ok()?) });
    }
    let mut hybrid: Option<(u32, bool)> = None;
    let xk = if xks == "c" {
        XKind::Classic
    } else if let Some(n) = xks.strip_prefix('s') {
        XKind::Stream { num: n.parse().ok()?, flate: false }
    } else if let Some(n) = xks.strip_prefix('z') {
        XKind::Stream { num: n.parse().ok()?, flate: true }
    } else if let Some(n) = xks.strip_prefix('h') {
        hybrid = Some((n.parse().ok()?, false));
        XKind::Classic
    } else if let Some(n) = xks.strip_prefix('y') {
        hybrid = Some((n.parse().ok()?, true));
        XKind::Classic
    } else {
        return None;
    };
    let objs = parse_list(parts[1], '+', parse_obj)?;
    let (tab, stm) = match (hybrid, parts[2].split_once('/')) {
        (Some(_), Some((a, b))) => (a, Some(b)),
        (None, None) => (parts[2], None),
        _ => return None,
    };
    let ents = parse_list(tab, '+', parse_ent)?;
    if matches!(xk, XKind::Classic) && ents.iter().any(|(_, e)| matches!(e, Ent::Comp { .. })) {
        return None; // a classic table cannot hold a compressed entry
    }
    if let (Some((num, flate)), Some(st)) = (hybrid, stm) {
        opt.hybrid = Some((num, flate, parse_list(st, '+', parse_ent)?));
    }
    Some((Rev { objs, xk, ents, root: 1, trailer_extra: String::new(), size_override: None }, opt))
}

fn parse_req(req: &str) -> Option<Req> {
    let p: Vec<&str> = req.split(' ').collect();
    if p.len() != 5 || p[0] != "h" {
        return None;
    }
    let both = parse_list(p[3], ';', parse_rev)?;
    if both.iter().any(|(_, o)| matches!(o.prev, Some(Some(k)) if k >= both.len())) {
        return None;
    }
    let (revs, opts): (Vec<Rev>, Vec<RevOpt>) = both.into_iter().unzip();
    let queries = parse_list(p[4], ',', |t| {
        let (a, b) = t.split_once('.')?;
        Some((a.parse().ok()?, b.parse().ok()?))
    })?;
    if !matches!(p[1], "strict" | "default") || !matches!(p[2], "none" | "nosx" | "badsx") {
        return None;
    }
    Some(Req { mode: p[1].into(), damage: p[2].into(), revs, opts, queries })
}

fn show_obj(o: &PdfObject) -> String {
    match o {
        PdfObject::Null => "null".into(),
        PdfObject::Dictionary(d) => match d.get("V") {
            Some(PdfObject::Integer(v)) => format!("v{}", v),
            _ => "other".into(),
        },
        PdfObject::Stream(_) => "stm".into(),
        _ => "other".into(),
    }
}

fn open(bytes: &[u8], mode: &str) -> Result<PdfReader<Cursor<Vec<u8>>>, String> {
    let r = if mode == "strict" {
        PdfReader::new_with_options(Cursor::new(bytes.to_vec()), ParseOptions::strict())
    } else {
        PdfReader::new(Cursor::new(bytes.to_vec()))
    };
    r.map_err(|e| format!("open-err:{}", err_class(&e)))
}

fn damage(built: &Built, kind: &str) -> Vec<u8> {
    let mut bytes = built.bytes.clone();
    match kind {
        "nosx" => {
            for &p in &built.startxref_pos {
                bytes[p + 5] = b'X'; // startXref
            }
        }
        "badsx" => {
            if let Some(&p) = built.startxref_pos.last() {
                bytes.truncate(p);
                bytes.extend_from_slice(b"startxref\n0\n%%EOF\n");
                // older startxref keywords stay intact: the newest one (last in the tail) is used
            }
        }
        _ => {}
    }
    bytes
}

fn run(req: &str) -> String {
    let Some(r) = parse_req(req) else { return "bad-request".into() };
    let built = build_with(&r.revs, &r.opts);
    let bytes = damage(&built, &r.damage);
    if let Ok(dir) = std::env::var("C04_DUMP") {
        let _ = std::fs::write(dir, &bytes);
    }
    if let Err(e) = open(&bytes, &r.mode) {
        return e;
    }
    let ask = |rd: &mut PdfReader<Cursor<Vec<u8>>>, n: u32, g: u16| -> String {
        match rd.get_object(n, g) {
            Ok(o) => show_obj(o),
            Err(e) => format!("err:{}", err_class(&e)),
        }
    };
    // The same questions in several ORDERS, each order on ONE reader (a reader keeps caches:
    // object_cache, object_stream_cache), plus every question to a reader that has answered
    // nothing else.  The answers are reported in the order of the request.
    let nq = r.queries.len();
    let mut orders: Vec<(String, Vec<usize>)> = vec![];
    let ident: Vec<usize> = (0..nq).collect();
    let mut rev = ident.clone();
    rev.reverse();
    let mut asc = ident.clone();
    asc.sort_by_key(|&i| r.queries[i]);
    let mut desc = asc.clone();
    desc.reverse();
    // streams (objects that answer `stm`) last / first is covered by asc/desc in most plans; one
    // rotation moves the middle of the list to the front
    let mut rot = ident.clone();
    if nq > 2 {
        rot.rotate_left(nq / 2);
    }
    for (name, o) in [("given", ident), ("rev", rev), ("asc", asc), ("desc", desc), ("rot", rot)] {
        if !orders.iter().any(|(_, x)| *x == o) {
            orders.push((name.to_string(), o));
        }
    }
    let mut lists: Vec<(String, Vec<String>)> = vec![];
    for (name, o) in &orders {
        let mut rd = match open(&bytes, &r.mode) {
            Ok(x) => x,
            Err(e) => return e,
        };
        let mut ans = vec![String::new(); nq];
        for &i in o {
            ans[i] = ask(&mut rd, r.queries[i].0, r.queries[i].1);
        }
        lists.push((name.clone(), ans));
    }
    let mut fresh = vec![];
    for (n, g) in &r.queries {
        fresh.push(match open(&bytes, &r.mode) {
            Ok(mut fr) => ask(&mut fr, *n, *g),
            Err(e) => e,
        });
    }
    lists.push(("fresh".to_string(), fresh));
    let show = |v: &Vec<String>| if v.is_empty() { ".".to_string() } else { v.join(",") };
    let mut s = show(&lists[0].1);
    for (name, l) in &lists[1..] {
        if *l != lists[0].1 {
            // order-dependent answers: the deviating order's full answer list follows
            s.push_str(&format!("!{}:{}", name, show(l)));
        }
    }
    s
}

// ---------------------------------------------------------------- generator

#[derive(Clone, Copy, PartialEq)]
enum St {
    Live { gen: u16, comp: bool },
    Free { gen: u16 },
}

struct Hist {
    revs: Vec<String>,
    phys_count: usize,
    state: std::collections::BTreeMap<u32, St>,
    stream_nums: Vec<u32>,
    next_val: i64,
    next_num: u32,
    flip: bool,
    multi: bool,
    recomp: bool,
    hybrid: bool,
    mentioned: std::collections::BTreeSet<u32>,
}

fn fresh_num(h: &mut Hist, rng: &mut Rng) -> u32 {
    // mostly dense small numbers, sometimes beyond the reader's hard-wired 1..111 list
    if rng.chance(1, 5) {
        let n = 112 + rng.below(40) as u32;
        if !h.state.contains_key(&n) && !h.stream_nums.contains(&n) && !h.mentioned.contains(&n) {
            return n;
        }
    }
    while h.next_num <= 2
        || h.state.contains_key(&h.next_num)
        || h.stream_nums.contains(&h.next_num)
        || h.mentioned.contains(&h.next_num)
    {
        h.next_num += 1;
    }
    let n = h.next_num;
    h.next_num += 1;
    n
}

/// an entry of a hybrid revision may be hidden from the classic table: it goes to the /XRefStm
/// stream and the table either does not list the number or lists it as free
fn place(
    rng: &mut Rng,
    hybrid: bool,
    tab: &mut Vec<(u32, String)>,
    stm: &mut Vec<(u32, String)>,
    num: u32,
    ent: String,
    must_hide: bool,
) {
    if hybrid && (must_hide || rng.chance(1, 3)) {
        stm.push((num, ent));
        if rng.chance(1, 2) {
            tab.push((num, format!("{}f0.65535", num)));
        }
    } else {
        tab.push((num, ent));
    }
}

#[derive(Clone, Copy, PartialEq)]
enum RK {
    Classic,
    Stream(bool),
    /// hybrid-reference: classic table + /XRefStm stream (Flate?)
    Hybrid(bool),
}

/// one revision: `ops` = (num, what) with what: 0 define/redefine uncompressed, 1 define compressed, 2 free
fn emit_rev(h: &mut Hist, rng: &mut Rng, kind: RK, ops: &[(u32, u8)], first: bool) {
    let hybrid = matches!(kind, RK::Hybrid(_));
    let mut objs: Vec<String> = vec![];
    // entries of the section proper / of the /XRefStm stream of a hybrid revision
    let mut tab: Vec<(u32, String)> = vec![];
    let mut stm: Vec<(u32, String)> = vec![];
    if first {
        tab.push((0, "0f0.65535".to_string()));
    }
    // compressed ones are grouped into 1..2 object streams
    let comp: Vec<u32> = ops.iter().filter(|o| o.1 == 1).map(|o| o.0).collect();
    let mut groups: Vec<Vec<u32>> = vec![];
    if !comp.is_empty() {
        if comp.len() > 2 && rng.chance(1, 2) {
            let k = 1 + rng.below(comp.len() as u64 - 1) as usize;
            groups.push(comp[..k].to_vec());
            groups.push(comp[k..].to_vec());
        } else {
            groups.push(comp.clone());
        }
    }
    for (num, _) in ops {
        if h.mentioned.contains(num) {
            h.multi = true;
        }
    }
    for (num, _) in ops {
        h.mentioned.insert(*num);
    }
    for (num, what) in ops {
        match what {
            0 => {
                let gen = match h.state.get(num) {
                    Some(St::Live { gen, comp: false }) => *gen,
                    Some(St::Live { comp: true, .. }) => {
                        h.flip = true;
                        0
                    }
                    Some(St::Free { gen }) => *gen,
                    None => 0,
                };
                let v = h.next_val;
                h.next_val += 1;
                objs.push(format!("{}.{}v{}", num, gen, v));
                place(rng, hybrid, &mut tab, &mut stm, *num, format!("{}n{}.{}", num, h.phys_count, gen), false);
                h.phys_count += 1;
                h.state.insert(*num, St::Live { gen, comp: false });
            }
            2 => {
                let gen = match h.state.get(num) {
                    Some(St::Live { gen, comp }) => {
                        if *comp {
                            h.flip = true;
                        }
                        gen.saturating_add(1)
                    }
                    Some(St::Free { gen }) => *gen,
                    None => 0,
                };
                // the free list: `next` names another (any) object number; readers do not follow it
                let next = if rng.chance(1, 2) { 0 } else { rng.below(12) };
                // a free entry stays in the classic table (in the stream it would be shadowed by
                // nothing and mean the same; half of the time put it there)
                if hybrid && rng.chance(1, 3) {
                    stm.push((*num, format!("{}f{}.{}", num, next, gen)));
                } else {
                    tab.push((*num, format!("{}f{}.{}", num, next, gen)));
                }
                h.state.insert(*num, St::Free { gen });
            }
            _ => {}
        }
    }
    for g in groups {
        let snum = fresh_num(h, rng);
        h.stream_nums.push(snum);
        let mut items = vec![];
        for (i, num) in g.iter().enumerate() {
            let v = h.next_val;
            h.next_val += 1;
            items.push(format!("{}~{}", num, v));
            if matches!(h.state.get(num), Some(St::Live { comp: true, .. })) {
                h.recomp = true;
            }
            place(rng, hybrid, &mut tab, &mut stm, *num, format!("{}c{}.{}", num, snum, i), true);
            h.state.insert(*num, St::Live { gen: 0, comp: true });
        }
        let z = if rng.chance(1, 2) { 'z' } else { 'o' };
        objs.push(format!("{}.0{}{}", snum, z, items.join("_")));
        place(rng, hybrid, &mut tab, &mut stm, snum, format!("{}n{}.0", snum, h.phys_count), false);
        h.phys_count += 1;
    }
    let xk = match kind {
        RK::Classic => "c".to_string(),
        RK::Stream(fl) => {
            let xnum = fresh_num(h, rng);
            h.stream_nums.push(xnum);
            tab.push((xnum, format!("{}n{}.0", xnum, h.phys_count)));
            h.phys_count += 1;
            format!("{}{}", if fl { 'z' } else { 's' }, xnum)
        }
        RK::Hybrid(fl) => {
            let xnum = fresh_num(h, rng);
            h.stream_nums.push(xnum);
            tab.push((xnum, format!("{}n{}.0", xnum, h.phys_count)));
            h.phys_count += 1;
            h.hybrid = true;
            format!("{}{}", if fl { 'y' } else { 'h' }, xnum)
        }
    };
    tab.sort_by_key(|e| e.0);
    stm.sort_by_key(|e| e.0);
    let show = |v: Vec<String>| if v.is_empty() { ".".to_string() } else { v.join("+") };
    let ents = if hybrid {
        format!(
            "{}/{}",
            show(tab.into_iter().map(|e| e.1).collect()),
            show(stm.into_iter().map(|e| e.1).collect())
        )
    } else {
        show(tab.into_iter().map(|e| e.1).collect())
    };
    h.revs.push(format!("{}:{}:{}", xk, show(objs), ents));
}

/// force: 0 nothing, 1 a compressed->plain redefinition is likely, 2 the first appended revision
/// re-defines a compressed object (that has siblings in its object stream) inside a NEW object stream
fn gen_history(rng: &mut Rng, max_revs: u64, force: u8) -> (Hist, Vec<(u32, u16)>) {
    let mut h = Hist {
        revs: vec![],
        phys_count: 0,
        state: Default::default(),
        stream_nums: vec![],
        next_val: 100 + rng.below(50) as i64,
        next_num: 1,
        flip: false,
        multi: false,
        recomp: false,
        hybrid: false,
        mentioned: Default::default(),
    };
    // base
    let base_kind = if force != 0 || rng.chance(5, 8) {
        RK::Stream(rng.chance(1, 2))
    } else if rng.chance(1, 3) {
        RK::Hybrid(rng.chance(1, 2))
    } else {
        RK::Classic
    };
    let with_objstm = base_kind != RK::Classic && (force != 0 || rng.chance(2, 3));
    let n_objs = (if force == 2 { 4 } else { 2 }) + rng.below(7) as usize;
    let mut ops = vec![];
    for i in 0..n_objs {
        let num = if i < 2 { i as u32 + 1 } else { fresh_num_peek(&mut h, rng, &ops) };
        let comp = with_objstm && (rng.chance(2, 3) || (force == 2 && (i == 2 || i == 3)));
        ops.push((num, if comp { 1 } else { 0 }));
    }
    emit_rev(&mut h, rng, base_kind, &ops, true);
    let k = if force == 2 { 1 + rng.below(max_revs) } else { rng.below(max_revs + 1) };
    for r in 0..k {
        let kind = match rng.below(20) {
            0..=7 => RK::Classic,
            8..=16 => RK::Stream(rng.chance(1, 2)),
            _ => RK::Hybrid(rng.chance(1, 2)),
        };
        let kind = if force == 2 && r == 0 && kind == RK::Classic { RK::Stream(rng.chance(1, 2)) } else { kind };
        let n_ops = 1 + rng.below(4) as usize;
        let mut ops: Vec<(u32, u8)> = vec![];
        let known: Vec<u32> = h.state.keys().copied().collect();
        if force == 2 && r == 0 {
            let comps: Vec<u32> = h
                .state
                .iter()
                .filter(|(_, st)| matches!(st, St::Live { comp: true, .. }))
                .map(|(n, _)| *n)
                .collect();
            if !comps.is_empty() {
                ops.push((*rng.pick(&comps), 1));
            }
        }
        for _ in 0..n_ops {
            let num = if rng.chance(1, 6) { fresh_num_peek(&mut h, rng, &ops) } else { *rng.pick(&known) };
            if ops.iter().any(|o| o.0 == num) {
                continue;
            }
            let what = match rng.below(10) {
                0..=4 => 0,
                5..=6 => 2,
                _ => {
                    if kind != RK::Classic {
                        1
                    } else {
                        0
                    }
                }
            };
            // a freed object can only come back with its new generation as a plain object
            let what = if what == 1 && matches!(h.state.get(&num), Some(St::Free { gen }) if *gen != 0) { 0 } else { what };
            ops.push((num, what));
        }
        emit_rev(&mut h, rng, kind, &ops, false);
    }
    // queries: everything known, with its current generation; plus stream objects and absent numbers
    let mut q: Vec<(u32, u16)> = vec![];
    for (n, st) in &h.state {
        let g = match st {
            St::Live { gen, .. } => *gen,
            St::Free { gen } => *gen,
        };
        q.push((*n, g));
    }
    for s in &h.stream_nums {
        q.push((*s, 0));
    }
    // an absent number inside and one outside the reader's hard-wired reconstruction list
    let mut a = 60 + rng.below(40) as u32;
    while h.state.contains_key(&a) || h.stream_nums.contains(&a) {
        a += 1;
    }
    q.push((a, 0));
    let mut a = 160 + rng.below(40) as u32;
    while h.state.contains_key(&a) || h.stream_nums.contains(&a) {
        a += 1;
    }
    q.push((a, 0));
    if rng.chance(1, 4) {
        // stale generation
        let n = *rng.pick(&h.state.keys().copied().collect::<Vec<_>>());
        q.push((n, 7));
    }
    // shuffle a little so that object streams are not always loaded in the same order
    for i in (1..q.len()).rev() {
        let j = rng.below(i as u64 + 1) as usize;
        q.swap(i, j);
    }
    (h, q)
}

fn fresh_num_peek(h: &mut Hist, rng: &mut Rng, ops: &[(u32, u8)]) -> u32 {
    loop {
        let n = fresh_num(h, rng);
        if !ops.iter().any(|o| o.0 == n) {
            return n;
        }
    }
}

fn show_q(q: &[(u32, u16)]) -> String {
    q.iter().map(|(n, g)| format!("{}.{}", n, g)).collect::<Vec<_>>().join(",")
}

/// malformed variations of a valid history (the property does not speak about them; they tie the
/// model's insertion / dispatch order to the code)
fn mutate(rng: &mut Rng, revs: &[String]) -> Vec<String> {
    let mut revs = revs.to_vec();
    let i = rng.below(revs.len() as u64) as usize;
    let parts: Vec<String> = revs[i].split(':').map(|s| s.to_string()).collect();
    let mut ents: Vec<String> = if parts[2] == "." { vec![] } else { parts[2].split('+').map(|s| s.to_string()).collect() };
    if ents.is_empty() || parts[0].starts_with('h') || parts[0].starts_with('y') {
        return revs;
    }
    match rng.below(4) {
        0 => {
            // duplicate an entry's number with a different kind later in the same section
            let e = rng.pick(&ents).clone();
            if let Some((num, _)) = parse_ent(&e) {
                let dup = if rng.chance(1, 2) || parts[0].starts_with('c') {
                    format!("{}f0.{}", num, rng.below(3))
                } else {
                    format!("{}c{}.0", num, 1 + rng.below(6))
                };
                if rng.chance(1, 2) {
                    ents.push(dup);
                } else {
                    ents.insert(0, dup);
                }
            }
        }
        1 => {
            // point an in-use entry at another physical object
            let k = rng.below(ents.len() as u64) as usize;
            let avail: usize = revs[..=i]
                .iter()
                .map(|r| {
                    let p: Vec<&str> = r.split(':').collect();
                    if p[1] == "." { 0 } else { p[1].split('+').count() }
                })
                .sum::<usize>()
                + revs[..i].iter().filter(|r| !r.starts_with('c')).count();
            if let Some((num, Ent::At { gen, .. })) = parse_ent(&ents[k]) {
                if avail > 0 {
                    ents[k] = format!("{}n{}.{}", num, rng.below(avail as u64), gen);
                }
            }
        }
        2 => {
            // drop an entry
            // (only numbers outside the reader's hard-wired 1..111 reconstruction list: an unlisted
            // but physically present object of that list is looked up by a whole-file text search)
            let k = rng.below(ents.len() as u64) as usize;
            if let Some((num, _)) = parse_ent(&ents[k]) {
                if num > 114 {
                    ents.remove(k);
                }
            }
        }
        _ => {
            // change a generation
            let k = rng.below(ents.len() as u64) as usize;
            if let Some((num, Ent::At { phys, .. })) = parse_ent(&ents[k]) {
                ents[k] = format!("{}n{}.{}", num, phys, 1 + rng.below(3));
            }
        }
    }
    let original = revs.clone();
    revs[i] = format!("{}:{}:{}", parts[0], parts[1], if ents.is_empty() { ".".into() } else { ents.join("+") });
    // an object stream (transitively) stored inside itself makes the real reader's answers depend
    // on the order of the questions (the cycle breaker caches Null); keep such plans out
    let mut edges: Vec<(u32, u32)> = vec![];
    for r in &revs {
        let p: Vec<&str> = r.split(':').collect();
        if p[2] != "." {
            for e in p[2].split('+') {
                if let Some((n, Ent::Comp { stm, .. })) = parse_ent(e) {
                    edges.push((n, stm));
                }
            }
        }
    }
    for &(start, _) in &edges {
        let mut frontier = vec![start];
        for _ in 0..edges.len() + 1 {
            let next: Vec<u32> =
                edges.iter().filter(|(a, _)| frontier.contains(a)).map(|(_, b)| *b).collect();
            if next.contains(&start) {
                return original;
            }
            frontier = next;
        }
    }
    revs
}

fn gen(rng: &mut Rng, tier: Tier) -> Vec<Case> {
    let mut cases = vec![];
    let n = if tier == Tier::Quick { 700 } else { 12000 };
    for i in 0..n {
        let force = if i % 5 == 0 {
            1
        } else if i % 7 == 0 {
            2
        } else {
            0
        };
        let (mut h, q) = gen_history(rng, if tier == Tier::Quick { 4 } else { 7 }, force);
        let mode = if rng.chance(1, 4) { "strict" } else { "default" };
        let dmg = match rng.below(6) {
            0 => "nosx",
            1 => "badsx",
            _ => "none",
        };
        // /Prev of one appended revision redirected: an older section skipped, no /Prev at all, or a
        // loop (itself / a later section)
        let mut prevov = false;
        if dmg == "none" && h.revs.len() >= 2 && rng.chance(1, 6) {
            let i = 1 + rng.below(h.revs.len() as u64 - 1) as usize;
            let target = if rng.chance(1, 4) { "-".to_string() } else { rng.below(h.revs.len() as u64).to_string() };
            let (xk, rest) = h.revs[i].split_once(':').unwrap();
            h.revs[i] = format!("{}@{}:{}", xk, target, rest);
            prevov = true;
        }
        let base = &h.revs[0];
        let tags = format!(
            "valid base-{} revs{} {}{}{}{}{}{}{}",
            &base[..1],
            h.revs.len() - 1,
            mode,
            if dmg == "none" { "".to_string() } else { format!(" dmg-{}", dmg) },
            if h.flip { " kindflip" } else { "" },
            if h.recomp { " recompressed" } else { "" },
            if h.hybrid { " hybrid" } else { "" },
            if prevov { " prev-redirected" } else { "" },
            if h.multi { " nt" } else { "" }
        );
        cases.push(Case::new(format!("h {} {} {} {}", mode, dmg, h.revs.join(";"), show_q(&q)), tags));
        if rng.chance(1, 5) {
            let revs = mutate(rng, &h.revs);
            // physically present but unlisted objects make the answer depend on a whole-file text
            // search (manual reconstruction); keep the malformed stream to listed objects
            cases.push(Case::new(
                format!("h {} none {} {}", mode, revs.join(";"), show_q(&q)),
                format!("malformed {}", mode),
            ));
        }
    }
    cases
}

fn main() {
    harness_main(gen, run, Limits::default());
}
