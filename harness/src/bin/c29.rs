//! C29 — drives the real `LruCache` / `ObjectCache` (memory/cache.rs).
use oxiharness::*;
use oxidize_pdf::memory::{LruCache, MemoryManager, ObjectCache};
use oxidize_pdf::MemoryOptions;
use oxidize_pdf::objects::ObjectId;
use oxidize_pdf::parser::PdfObject;
use std::sync::Arc;

#[derive(Clone)]
enum Op {
    Get(u32),
    Put(u32, i64),
    Clear,
    Len,
    /// `LruCache::is_empty`
    IsEmpty,
    /// `ObjectCache::stats`
    Stats,
}

fn parse_ops(s: &str) -> Option<Vec<Op>> {
    if s == "." || s.is_empty() {
        return Some(vec![]);
    }
    s.split(',')
        .map(|t| {
            if t == "c" {
                Some(Op::Clear)
            } else if t == "l" {
                Some(Op::Len)
            } else if t == "e" {
                Some(Op::IsEmpty)
            } else if t == "t" {
                Some(Op::Stats)
            } else if let Some(r) = t.strip_prefix('g') {
                r.parse().ok().map(Op::Get)
            } else if let Some(r) = t.strip_prefix('p') {
                let (a, b) = r.split_once(':')?;
                Some(Op::Put(a.parse().ok()?, b.parse().ok()?))
            } else {
                None
            }
        })
        .collect()
}

fn show_ops(ops: &[Op]) -> String {
    if ops.is_empty() {
        return ".".into();
    }
    ops.iter()
        .map(|o| match o {
            Op::Get(k) => format!("g{}", k),
            Op::Put(k, v) => format!("p{}:{}", k, v),
            Op::Clear => "c".into(),
            Op::Len => "l".into(),
            Op::IsEmpty => "e".into(),
            Op::Stats => "t".into(),
        })
        .collect::<Vec<_>>()
        .join(",")
}

fn join_outs(o: Vec<String>) -> String {
    if o.is_empty() {
        ".".into()
    } else {
        o.join(",")
    }
}

fn run_seq(cap: usize, ops: &[Op]) -> String {
    let mut c: LruCache<u32, i64> = LruCache::new(cap);
    let mut outs = vec![];
    for op in ops {
        outs.push(match op {
            Op::Get(k) => match c.get(k) {
                Some(v) => format!("v{}", v),
                None => "-".into(),
            },
            Op::Put(k, v) => {
                c.put(*k, *v);
                "u".into()
            }
            Op::Clear => {
                c.clear();
                "u".into()
            }
            Op::Len => format!("s{}", c.len()),
            Op::IsEmpty => format!("b{}", c.is_empty() as u8),
            Op::Stats => return "bad-request".into(), // no such method on LruCache
        });
    }
    join_outs(outs)
}

fn oc_apply(c: &ObjectCache, op: &Op) -> String {
    match op {
        Op::Get(k) => match c.get(&ObjectId::new(*k, 0)) {
            Some(v) => match &*v {
                PdfObject::Integer(i) => format!("v{}", i),
                _ => "v?".into(),
            },
            None => "-".into(),
        },
        Op::Put(k, v) => {
            c.put(ObjectId::new(*k, 0), Arc::new(PdfObject::Integer(*v)));
            "u".into()
        }
        Op::Clear => {
            c.clear();
            "u".into()
        }
        Op::Len => format!("s{}", c.stats().size),
        Op::Stats => {
            let st = c.stats();
            format!("t{}:{}", st.size, st.capacity)
        }
        Op::IsEmpty => "bad-op".into(), // no such method on ObjectCache
    }
}

/// one thread, the lock-guarded cache
fn run_oseq(cache: &ObjectCache, ops: &[Op]) -> String {
    if ops.iter().any(|o| matches!(o, Op::IsEmpty)) {
        return "bad-request".into();
    }
    join_outs(ops.iter().map(|op| oc_apply(cache, op)).collect())
}

fn run_conc(cap: usize, threads: Vec<Vec<Op>>, probe: &[Op]) -> String {
    let cache = Arc::new(ObjectCache::new(cap));
    let barrier = Arc::new(std::sync::Barrier::new(threads.len()));
    let hs: Vec<_> = threads
        .into_iter()
        .map(|ops| {
            let c = cache.clone();
            let b = barrier.clone();
            std::thread::spawn(move || {
                b.wait();
                let mut outs = vec![];
                for op in &ops {
                    outs.push(oc_apply(&c, op));
                    std::thread::yield_now();
                }
                join_outs(outs)
            })
        })
        .collect();
    let per: Vec<String> = hs.into_iter().map(|h| h.join().unwrap_or_else(|_| "panic".into())).collect();
    let p: Vec<String> = probe.iter().map(|op| oc_apply(&cache, op)).collect();
    format!("{}#{}", per.join("|"), join_outs(p))
}

fn run(req: &str) -> String {
    let parts: Vec<&str> = req.split(' ').collect();
    match parts.as_slice() {
        ["seq", cap, ops] => {
            let (Ok(cap), Some(ops)) = (cap.parse::<usize>(), parse_ops(ops)) else { return "bad-request".into() };
            run_seq(cap, &ops)
        }
        ["oseq", cap, ops] => {
            let (Ok(cap), Some(ops)) = (cap.parse::<usize>(), parse_ops(ops)) else { return "bad-request".into() };
            run_oseq(&ObjectCache::new(cap), &ops)
        }
        ["mm", n, ops] => {
            let (Ok(n), Some(ops)) = (n.parse::<usize>(), parse_ops(ops)) else { return "bad-request".into() };
            let mm = MemoryManager::new(MemoryOptions::default().with_cache_size(n));
            match mm.cache() {
                None => "nocache".into(),
                Some(c) => run_oseq(c, &ops),
            }
        }
        ["conc", cap, ths, "#", probe] => {
            let Ok(cap) = cap.parse::<usize>() else { return "bad-request".into() };
            let ths: Option<Vec<Vec<Op>>> = ths.split('|').map(parse_ops).collect();
            let (Some(ths), Some(probe)) = (ths, parse_ops(probe)) else { return "bad-request".into() };
            run_conc(cap, ths, &probe)
        }
        _ => "bad-request".into(),
    }
}

/// `extra`: the read-only operation the cache under test has besides `len`
fn random_op_x(rng: &mut Rng, keys: u64, extra: Op) -> Op {
    match rng.below(22) {
        20 | 21 => extra,
        _ => random_op(rng, keys),
    }
}

fn random_op(rng: &mut Rng, keys: u64) -> Op {
    match rng.below(20) {
        0 => Op::Clear,
        1 | 2 => Op::Len,
        3..=10 => Op::Get(rng.below(keys) as u32),
        _ => Op::Put(rng.below(keys) as u32, rng.below(1000) as i64),
    }
}

fn tags_for(cap: usize, ops: &[Op], kind: &str) -> String {
    let puts = ops.iter().filter(|o| matches!(o, Op::Put(..))).count();
    let distinct: std::collections::BTreeSet<u32> =
        ops.iter().filter_map(|o| if let Op::Put(k, _) = o { Some(*k) } else { None }).collect();
    // non-trivial: an eviction must have been possible (more distinct keys put than capacity)
    // or capacity 0 with at least one put
    let nt = distinct.len() > cap && puts > 0;
    format!("{} cap{} len{}{}", kind, cap.min(9), (ops.len() / 4) * 4, if nt { " nt" } else { "" })
}

fn gen(rng: &mut Rng, tier: Tier) -> Vec<Case> {
    let mut cases = vec![];
    // (1) exhaustive short histories over 3 keys (values = step index so that stale reads show)
    let l = if tier == Tier::Quick { 5 } else { 6 };
    let alphabet: Vec<Op> = vec![Op::Get(0), Op::Get(1), Op::Get(2), Op::Put(0, 0), Op::Put(1, 0), Op::Put(2, 0), Op::Clear, Op::Len];
    for cap in 0..=3usize {
        let n = alphabet.len();
        let total = n.pow(l as u32);
        for code in 0..total {
            let mut c = code;
            let mut ops = vec![];
            for i in 0..l {
                let mut op = alphabet[c % n].clone();
                if let Op::Put(k, _) = op {
                    op = Op::Put(k, i as i64 + 1);
                }
                ops.push(op);
                c /= n;
            }
            cases.push(Case::new(format!("seq {} {}", cap, show_ops(&ops)), tags_for(cap, &ops, "exh")));
        }
    }
    // (2) random long histories
    let n_rand = if tier == Tier::Quick { 2000 } else { 40000 };
    for _ in 0..n_rand {
        let cap = rng.below(7) as usize;
        let keys = 1 + rng.below(10);
        let len = rng.below(60) as usize;
        let ops: Vec<Op> = (0..len).map(|_| random_op_x(rng, keys, Op::IsEmpty)).collect();
        cases.push(Case::new(format!("seq {} {}", cap, show_ops(&ops)), tags_for(cap, &ops, "rand")));
    }
    // (2b) recency-order probes (deterministic, every capacity 2..=6): fill the cache, touch one or
    // two entries (by `get` or by re-`put`), overflow it with k fresh keys, then look every
    // original key up — the set that is gone is the k least recently used, so the k = 1..cap-1
    // requests of one touch pattern together pin the whole recency order.
    for cap in 2..=6usize {
        let mut patterns: Vec<Vec<(usize, bool)>> = vec![vec![]];
        for a in 0..cap {
            for how in [false, true] {
                patterns.push(vec![(a, how)]);
                for b in 0..cap {
                    if b != a && (cap <= 4 || tier == Tier::Thorough || (a + 2 * b + how as usize) % 3 == 0) {
                        patterns.push(vec![(a, how), (b, !how)]);
                        patterns.push(vec![(a, how), (b, how)]);
                    }
                }
            }
        }
        for pat in &patterns {
            for k in 1..cap {
                let mut ops: Vec<Op> = (0..cap).map(|i| Op::Put(i as u32, 100 + i as i64)).collect();
                for (j, (key, by_put)) in pat.iter().enumerate() {
                    ops.push(if *by_put { Op::Put(*key as u32, 200 + j as i64) } else { Op::Get(*key as u32) });
                }
                for f in 0..k {
                    ops.push(Op::Put(50 + f as u32, 300 + f as i64));
                }
                ops.push(Op::Len);
                for i in 0..cap {
                    ops.push(Op::Get(i as u32));
                }
                cases.push(Case::new(format!("seq {} {}", cap, show_ops(&ops)), tags_for(cap, &ops, "order")));
            }
        }
    }
    // (2c) the lock-guarded cache, single-threaded, with `stats`; and the cache the memory manager
    // builds (none for cache_size 0)
    let n_oseq = if tier == Tier::Quick { 600 } else { 10000 };
    for i in 0..n_oseq {
        let cap = rng.below(6) as usize;
        let keys = 1 + rng.below(8);
        let len = rng.below(40) as usize;
        let ops: Vec<Op> = (0..len).map(|_| random_op_x(rng, keys, Op::Stats)).collect();
        if i % 4 == 3 {
            cases.push(Case::new(format!("mm {} {}", cap, show_ops(&ops)), tags_for(cap, &ops, "mm")));
        } else {
            cases.push(Case::new(format!("oseq {} {}", cap, show_ops(&ops)), tags_for(cap, &ops, "oseq")));
        }
    }
    // (3) concurrent histories on ObjectCache
    let n_conc = if tier == Tier::Quick { 400 } else { 6000 };
    for _ in 0..n_conc {
        let cap = rng.below(4) as usize;
        let nth = 2 + rng.below(2) as usize;
        // one key only every fifth time: every thread hits the same entry
        let keys = if rng.chance(1, 5) { 1 } else { 2 + rng.below(3) };
        let ths: Vec<Vec<Op>> = (0..nth)
            .map(|_| {
                let len = 1 + rng.below(4) as usize;
                (0..len).map(|_| random_op_x(rng, keys, Op::Stats)).collect()
            })
            .collect();
        let mut probe = vec![Op::Stats];
        for k in 0..keys {
            probe.push(Op::Get(k as u32));
        }
        let all: Vec<Op> = ths.iter().flatten().cloned().collect();
        let req = format!(
            "conc {} {} # {}",
            cap,
            ths.iter().map(|t| show_ops(t)).collect::<Vec<_>>().join("|"),
            show_ops(&probe)
        );
        cases.push(Case::new(req, tags_for(cap, &all, &format!("conc{}", nth))));
    }
    cases
}

fn main() {
    harness_main(gen, run, Limits::default());
}
