//! C18 — page-tree navigation: drives the real `PdfDocument::{page_count,get_page}` and
//! `PdfReader::page_count` on page trees written by the independent reference writer.
//!
//! Request:  `pt <catalog-id> <root-id> | <id> <KIND> <fields…> | …`
//!   KIND D  dictionary; fields (all optional, any order):
//!           T=P|S|X|I          /Type /Page | /Pages | /Foo | 5
//!           K=e,e,…|-|@n|j      /Kids [..] (e: `12` = `12 0 R`, `x` = integer 7, `n` = null) | [] | n 0 R | /Junk
//!           C=i|@n|j            /Count
//!           P=n                 /Parent n 0 R
//!           M=a:b:c:d|@n|j      /MediaBox [numbers, `x` = /X] | n 0 R | /Junk      (B= same for /CropBox)
//!           R=i|r<i>|@n         /Rotate i | i.0 (a real) | n 0 R
//!           Z=k+k|-|@n|j        /Resources << /k 1 … >> | << >> | n 0 R | /Junk
//!           O=n                 /Contents n 0 R
//!   KIND A  array object, one field: elements as for K (`-` = empty)
//!   KIND I  integer object;  N  null object;  S  stream object (hex data);
//!   KIND Y  dictionary object with the given keys (`k+k` | `-`), used as /Resources target
//!   KIND B  array-of-numbers object (`a:b:c:d`), used as box target
//!
//! Answer:   `rc=<n|E> dc=<n|E> | <objnum> m=a,b,c,d c=a,b,c,d|- r=<i> z=<k+k|-|none> | … | oob=<E|ok>`
//!   numbers are printed ×2 (generated coordinates are multiples of 0.5), resource keys sorted.
#[path = "../shared_b1618/refpdf.rs"]
mod refpdf;
#[path = "../shared_b1618/ptdesc.rs"]
mod ptdesc;

use oxidize_pdf::parser::{PdfDocument, PdfReader};
use oxiharness::*;
use ptdesc::{build_pdf, parse_req, show_req, Ob, D};
use std::collections::BTreeMap;
use std::io::Cursor;

fn num2(x: f64) -> String {
    let y = x * 2.0;
    if y.is_finite() && y.fract() == 0.0 && y.abs() < 9.0e15 {
        format!("{}", y as i64)
    } else {
        "nan".into()
    }
}

fn box2(b: &[f64; 4]) -> String {
    b.iter().map(|x| num2(*x)).collect::<Vec<_>>().join(",")
}

/// `big <n> <fan>`: a regular two-level tree with `n` leaves, `fan` per inner node; catalog 1,
/// root 2 (MediaBox [0 0 612 792], /Count n), inner node j = object 3+j (/Rotate (j mod 4)·90),
/// leaf i = object 3 + #inner + i.  Probed: page_count, get_page at 0, fan-1, fan, dc-1, dc.
fn build_big(n: u32, fan: u32) -> Vec<u8> {
    let mut w = refpdf::RefPdf::new();
    let ninner = (n + fan - 1) / fan;
    w.add(1, "<< /Type /Catalog /Pages 2 0 R >>");
    let kids: Vec<String> = (0..ninner).map(|j| format!("{} 0 R", 3 + j)).collect();
    w.add(2, format!("<< /Type /Pages /Kids [{}] /Count {} /MediaBox [0 0 612 792] >>", kids.join(" "), n));
    for j in 0..ninner {
        let lo = j * fan;
        let hi = ((j + 1) * fan).min(n);
        let kids: Vec<String> = (lo..hi).map(|i| format!("{} 0 R", 3 + ninner + i)).collect();
        w.add(3 + j, format!("<< /Type /Pages /Parent 2 0 R /Kids [{}] /Count {} /Rotate {} >>", kids.join(" "), hi - lo, (j % 4) * 90));
    }
    for i in 0..n {
        w.add(3 + ninner + i, format!("<< /Type /Page /Parent {} 0 R >>", 3 + i / fan));
    }
    w.finish(1)
}

fn run_big(n: u32, fan: u32) -> String {
    let bytes = build_big(n, fan);
    let rc = match PdfReader::new(Cursor::new(bytes.clone())) {
        Ok(mut r) => r.page_count().map(|n| n.to_string()).unwrap_or_else(|_| "E".into()),
        Err(_) => return "open-error".into(),
    };
    let doc = match PdfReader::new(Cursor::new(bytes)) {
        Ok(r) => PdfDocument::new(r),
        Err(_) => return "open-error".into(),
    };
    let dc = match doc.page_count() {
        Ok(n) => n,
        Err(_) => return format!("rc={} dc=E", rc),
    };
    let mut out = format!("rc={} dc={}", rc, dc);
    let mut probes = vec![0u32, fan - 1, fan, dc.saturating_sub(1)];
    probes.retain(|i| *i < dc);
    probes.dedup();
    for i in probes {
        match doc.get_page(i) {
            Ok(p) => out += &format!(" | {}:{} m={} c={} r={} z={}", i, p.obj_ref.0, box2(&p.media_box), if p.crop_box.is_some() { "some" } else { "-" }, p.rotation, if p.get_resources().is_some() { "some" } else { "none" }),
            Err(_) => out += &format!(" | {}:E", i),
        }
    }
    if dc > 0 {
        out += &format!(" | oob={}", if doc.get_page(dc).is_err() { "E" } else { "ok" });
    }
    out
}

fn run(req: &str) -> String {
    if let Some(rest) = req.strip_prefix("big ") {
        let mut it = rest.split(' ');
        let (Some(n), Some(fan)) = (it.next().and_then(|s| s.parse::<u32>().ok()), it.next().and_then(|s| s.parse::<u32>().ok())) else { return "bad-request".into() };
        if fan == 0 || n > 400_000 {
            return "bad-request".into();
        }
        return run_big(n, fan);
    }
    let Some((cat, root, objs)) = parse_req(req) else { return "bad-request".into() };
    let bytes = build_pdf(cat, root, &objs);
    if std::env::var("C18_DUMP").is_ok() {
        let _ = std::fs::write("/tmp/b1618/c18_dump.pdf", &bytes);
    }
    // PdfReader::page_count on its own reader
    let rc = match PdfReader::new(Cursor::new(bytes.clone())) {
        Ok(mut r) => match r.page_count() {
            Ok(n) => n.to_string(),
            Err(_) => "E".into(),
        },
        Err(_) => return "open-error".into(),
    };
    let doc = match PdfReader::new(Cursor::new(bytes)) {
        Ok(r) => PdfDocument::new(r),
        Err(_) => return "open-error".into(),
    };
    let mut out = format!("rc={}", rc);
    let dc = match doc.page_count() {
        Ok(n) => n,
        Err(_) => return out + " dc=E",
    };
    out += &format!(" dc={}", dc);
    for i in 0..dc {
        out += " | ";
        match doc.get_page(i) {
            Ok(p) => {
                let z = match p.get_resources() {
                    None => "none".to_string(),
                    Some(d) => {
                        let mut ks: Vec<String> = d.0.keys().map(|k| k.0.clone()).collect();
                        ks.sort();
                        if ks.is_empty() {
                            "-".into()
                        } else {
                            ks.join("+")
                        }
                    }
                };
                let c = match &p.crop_box {
                    Some(b) => box2(b),
                    None => "-".into(),
                };
                out += &format!("{} m={} c={} r={} z={}", p.obj_ref.0, box2(&p.media_box), c, p.rotation, z);
            }
            Err(_) => out += "E",
        }
    }
    if dc > 0 {
        // with a non-empty flat index an out-of-range index must be an error
        out += &format!(" | oob={}", if doc.get_page(dc).is_err() { "E" } else { "ok" });
    }
    out
}

// ------------------------------------------------------------------------------------------
// generator
// ------------------------------------------------------------------------------------------

struct G<'a> {
    rng: &'a mut Rng,
    ids: Vec<u32>,
    objs: BTreeMap<u32, Ob>,
    order: Vec<u32>,
    pages: Vec<u32>,
    inners: Vec<u32>,
}

impl<'a> G<'a> {
    fn fresh(&mut self) -> u32 {
        let id = self.ids.pop().expect("id pool");
        self.order.push(id);
        id
    }
    fn num(&mut self) -> String {
        let v = match self.rng.below(10) {
            0 => 0,
            1 => self.rng.range(-50, 50),
            _ => self.rng.range(0, 1200),
        };
        if self.rng.chance(1, 6) {
            // half-integers only (exact in f64, ×2 is an integer)
            if v < 0 {
                format!("{}.5", v)
            } else {
                format!("{}.5", v)
            }
        } else {
            v.to_string()
        }
    }
    fn boxs(&mut self) -> String {
        (0..4).map(|_| self.num()).collect::<Vec<_>>().join(":")
    }
    fn rot(&mut self) -> String {
        (*self.rng.pick(&[0i64, 90, 180, 270, 270, 90, -90, 360, 450, 45, -450, 810])).to_string()
    }
    fn keys(&mut self) -> String {
        let n = self.rng.below(4);
        if n == 0 {
            return "-".into();
        }
        let pool = ["Font", "XObject", "ExtGState", "ColorSpace", "Pattern", "ProcSet", "Shading", "A", "b"];
        let mut ks: Vec<&str> = vec![];
        for _ in 0..n {
            let k = *self.rng.pick(&pool);
            if !ks.contains(&k) {
                ks.push(k);
            }
        }
        ks.join("+")
    }
    fn maybe_indirect(&mut self, v: String, is_box: bool) -> String {
        if !self.rng.chance(1, 5) {
            return v;
        }
        let i = self.fresh();
        if is_box {
            self.objs.insert(i, Ob::B(v));
        } else {
            self.objs.insert(i, Ob::I(v.parse().unwrap_or(0)));
        }
        format!("@{}", i)
    }
    /// inheritable attributes with probability num/den each
    fn attrs(&mut self, d: &mut D, num: u64, den: u64) {
        // a fifth of the values is given as an indirect reference to a number-array / integer
        // object (ISO 32000-1 §7.3.10: legal for any value)
        if self.rng.chance(num, den) {
            let b = self.boxs();
            d.m = Some(self.maybe_indirect(b, true));
        }
        if self.rng.chance(num, den * 2) {
            let b = self.boxs();
            d.b = Some(self.maybe_indirect(b, true));
        }
        if self.rng.chance(num, den) {
            let r = self.rot();
            d.r = Some(self.maybe_indirect(r, false));
        }
        if self.rng.chance(num, den) {
            if self.rng.chance(1, 4) {
                let y = self.fresh();
                let k = self.keys();
                self.objs.insert(y, Ob::Y(k));
                d.z = Some(format!("@{}", y));
            } else {
                d.z = Some(self.keys());
            }
        }
    }
    /// returns (id, number of leaves)
    fn node(&mut self, parent: u32, depth: u32, maxw: u64, budget: &mut i64) -> (u32, i64) {
        let id = self.fresh();
        let leaf = depth == 0 || *budget <= 0 || self.rng.chance(1, 3);
        if leaf {
            *budget -= 1;
            let mut d = D { t: Some("P".into()), p: Some(parent), ..D::default() };
            self.attrs(&mut d, 1, 4);
            if self.rng.chance(1, 3) {
                let s = self.fresh();
                let n = self.rng.below(6) as usize;
                let data = self.rng.bytes(n);
                self.objs.insert(s, Ob::S(data));
                d.o = Some(s);
            }
            self.objs.insert(id, Ob::D(d));
            self.pages.push(id);
            (id, 1)
        } else {
            let mut d = D { t: Some("S".into()), p: Some(parent), ..D::default() };
            self.attrs(&mut d, 1, 3);
            let (kids, n) = self.kids_of(id, depth - 1, maxw, budget);
            self.set_kids(&mut d, &kids);
            d.c = Some(n.to_string());
            self.objs.insert(id, Ob::D(d));
            self.inners.push(id);
            (id, n)
        }
    }
    fn kids_of(&mut self, id: u32, depth: u32, maxw: u64, budget: &mut i64) -> (Vec<u32>, i64) {
        let w = if self.rng.chance(1, 12) { 0 } else { 1 + self.rng.below(maxw) };
        let mut kids = vec![];
        let mut n = 0;
        for _ in 0..w {
            let (k, c) = self.node(id, depth, maxw, budget);
            kids.push(k);
            n += c;
        }
        (kids, n)
    }
    fn set_kids(&mut self, d: &mut D, kids: &[u32]) {
        let e = if kids.is_empty() { "-".to_string() } else { kids.iter().map(|k| k.to_string()).collect::<Vec<_>>().join(",") };
        if self.rng.chance(1, 5) {
            let a = self.fresh();
            self.objs.insert(a, Ob::A(e));
            d.k = Some(format!("@{}", a));
        } else {
            d.k = Some(e);
        }
    }
    fn dict_mut(&mut self, id: u32) -> Option<&mut D> {
        match self.objs.get_mut(&id) {
            Some(Ob::D(d)) => Some(d),
            _ => None,
        }
    }
    /// the element list of a node's /Kids (direct or via its array object)
    fn kids_elems(&self, id: u32) -> Option<(Option<u32>, Vec<String>)> {
        let Some(Ob::D(d)) = self.objs.get(&id) else { return None };
        let k = d.k.as_ref()?;
        let (holder, e) = if let Some(n) = k.strip_prefix('@') {
            let n: u32 = n.parse().ok()?;
            match self.objs.get(&n) {
                Some(Ob::A(e)) => (Some(n), e.clone()),
                _ => return None,
            }
        } else {
            (None, k.clone())
        };
        if e == "j" {
            return None;
        }
        let v = if e == "-" { vec![] } else { e.split(',').map(|s| s.to_string()).collect() };
        Some((holder, v))
    }
    fn put_kids_elems(&mut self, id: u32, holder: Option<u32>, v: Vec<String>) {
        let e = if v.is_empty() { "-".to_string() } else { v.join(",") };
        match holder {
            Some(h) => {
                self.objs.insert(h, Ob::A(e));
            }
            None => {
                if let Some(d) = self.dict_mut(id) {
                    d.k = Some(e);
                }
            }
        }
    }
}

fn wrong_count(rng: &mut Rng, right: i64) -> String {
    match rng.below(12) {
        0 => (right + 1).to_string(),
        1 => (right - 1).to_string(),
        2 => "0".into(),
        3 => "-1".into(),
        4 => "100000".into(),
        5 => "100001".into(),
        6 => "4294967297".into(),
        7 => "j".into(),
        8 => (right + rng.range(2, 40)).to_string(),
        9 => "9999999999".into(),
        10 => (right * 2 + 3).to_string(),
        _ => rng.range(0, 30).to_string(),
    }
}

fn gen_tree(rng: &mut Rng, depth: u32, maxw: u64, budget: i64, mode: u32) -> Case {
    // id pool: shuffled so that object numbers are unrelated to document order
    let _ = budget;
    let mut pool: Vec<u32> = (1..=690).collect();
    for i in (1..pool.len()).rev() {
        let j = rng.below(i as u64 + 1) as usize;
        pool.swap(i, j);
    }
    // avoid the object numbers the reader special-cases when they are NOT in the xref table;
    // all our numbers are in the table (free entries), so nothing to avoid.
    let mut g = G { rng, ids: pool, objs: BTreeMap::new(), order: vec![], pages: vec![], inners: vec![] };
    let cat = g.fresh();
    let root = g.fresh();
    let mut rd = D { t: Some("S".into()), ..D::default() };
    g.attrs(&mut rd, 1, 2);
    let mut b = budget;
    let w = 1 + g.rng.below(maxw);
    let mut kids = vec![];
    let mut n = 0;
    for _ in 0..w {
        let (k, c) = g.node(root, depth, maxw, &mut b);
        kids.push(k);
        n += c;
    }
    g.set_kids(&mut rd, &kids);
    rd.c = Some(n.to_string());
    g.objs.insert(root, Ob::D(rd));
    let mut tags = vec![];
    let deep = depth >= 2 && n >= 3;
    // ---- deviations --------------------------------------------------------------------
    let mut kinds: Vec<&str> = vec![];
    if mode == 1 {
        // wrong /Count only (root, sometimes also inner nodes)
        let c = wrong_count(g.rng, n);
        let c = if g.rng.chance(1, 8) {
            let i = g.fresh();
            let v = c.parse::<i64>().unwrap_or(3);
            g.objs.insert(i, Ob::I(v));
            format!("@{}", i)
        } else {
            c
        };
        if g.rng.chance(1, 10) {
            g.dict_mut(root).unwrap().c = None;
        } else {
            g.dict_mut(root).unwrap().c = Some(c);
        }
        for id in g.inners.clone() {
            if g.rng.chance(1, 4) {
                let c = wrong_count(g.rng, 2);
                g.dict_mut(id).unwrap().c = Some(c);
            }
        }
        kinds.push("wc");
    } else if mode >= 2 {
        let nmut = 1 + g.rng.below(3);
        for _ in 0..nmut {
            let all: Vec<u32> = g.pages.iter().chain(g.inners.iter()).copied().collect();
            let anynode = if all.is_empty() { root } else { *g.rng.pick(&all) };
            let inner_or_root = if g.inners.is_empty() || g.rng.chance(1, 3) { root } else { *g.rng.pick(&g.inners.clone()) };
            match g.rng.below(16) {
                0 => {
                    // shared kid: some node appears a second time in a Kids array
                    if let Some((h, mut v)) = g.kids_elems(inner_or_root) {
                        let at = g.rng.below(v.len() as u64 + 1) as usize;
                        v.insert(at, anynode.to_string());
                        g.put_kids_elems(inner_or_root, h, v);
                        kinds.push("shared");
                    }
                }
                1 => {
                    // cycle: a Kids array gets a reference to the root / itself / an inner node
                    if let Some((h, mut v)) = g.kids_elems(inner_or_root) {
                        let target = match g.rng.below(3) {
                            0 => root,
                            1 => inner_or_root,
                            _ => {
                                if g.inners.is_empty() {
                                    root
                                } else {
                                    *g.rng.pick(&g.inners.clone())
                                }
                            }
                        };
                        let at = g.rng.below(v.len() as u64 + 1) as usize;
                        v.insert(at, target.to_string());
                        g.put_kids_elems(inner_or_root, h, v);
                        kinds.push("cycle");
                    }
                }
                2 => {
                    // /Type missing / other / non-name
                    let t = match g.rng.below(3) {
                        0 => None,
                        1 => Some("X".to_string()),
                        _ => Some("I".to_string()),
                    };
                    if let Some(d) = g.dict_mut(anynode) {
                        d.t = t;
                    }
                    kinds.push("type");
                }
                3 => {
                    // swapped type
                    if let Some(d) = g.dict_mut(anynode) {
                        d.t = Some(if d.t.as_deref() == Some("P") { "S".into() } else { "P".into() });
                    }
                    kinds.push("typeswap");
                }
                4 => {
                    // /Parent wrong or missing
                    let tgt = match g.rng.below(4) {
                        0 => None,
                        1 => Some(anynode),
                        2 => Some(inner_or_root),
                        _ => {
                            let all2: Vec<u32> = g.order.clone();
                            Some(*g.rng.pick(&all2))
                        }
                    };
                    if let Some(d) = g.dict_mut(anynode) {
                        d.p = tgt;
                    }
                    kinds.push("parent");
                }
                5 => {
                    // parent cycle among inner nodes / root gets a parent
                    let tgt = anynode;
                    if let Some(d) = g.dict_mut(root) {
                        d.p = Some(tgt);
                    }
                    kinds.push("parentcycle");
                }
                6 => {
                    // junk elements in Kids
                    if let Some((h, mut v)) = g.kids_elems(inner_or_root) {
                        let at = g.rng.below(v.len() as u64 + 1) as usize;
                        let e = match g.rng.below(5) {
                            0 => "x".to_string(),
                            1 => "n".to_string(),
                            2 => {
                                // dangling (free entry)
                                let f = g.ids.pop().unwrap();
                                f.to_string()
                            }
                            3 => {
                                let i = g.fresh();
                                g.objs.insert(i, Ob::I(3));
                                i.to_string()
                            }
                            _ => {
                                let i = g.fresh();
                                g.objs.insert(i, if g.rng.chance(1, 2) { Ob::S(vec![1, 2]) } else { Ob::N });
                                i.to_string()
                            }
                        };
                        v.insert(at, e);
                        g.put_kids_elems(inner_or_root, h, v);
                        kinds.push("junkkid");
                    }
                }
                7 => {
                    // malformed box
                    let bx = match g.rng.below(12) {
                        0 => "0:0:612".to_string(),
                        1 => "j".to_string(),
                        2 => {
                            let i = g.fresh();
                            let b = g.boxs();
                            g.objs.insert(i, Ob::B(b));
                            format!("@{}", i)
                        }
                        6 => {
                            // reference to a number array of the wrong length / with a name in it
                            let i = g.fresh();
                            let b = (*g.rng.pick(&["0:0:612", "0:0:10:20:30", "0:x:612:792", "1:2:3:4"])).to_string();
                            g.objs.insert(i, Ob::B(b));
                            format!("@{}", i)
                        }
                        7 => {
                            // reference to an array of references (4 or 3 of them)
                            let i = g.fresh();
                            let e = if g.rng.chance(1, 2) { format!("{0},{0},{0},{0}", root) } else { format!("{0},{0},{0}", root) };
                            g.objs.insert(i, Ob::A(e));
                            format!("@{}", i)
                        }
                        8 => {
                            // reference to null / an integer / a stream
                            let i = g.fresh();
                            let ob = match g.rng.below(3) {
                                0 => Ob::N,
                                1 => Ob::I(612),
                                _ => Ob::S(vec![48, 32, 48]),
                            };
                            g.objs.insert(i, ob);
                            format!("@{}", i)
                        }
                        9 => format!("@{}", g.ids.pop().unwrap()), // dangling (free entry)
                        10 => format!("@{}", anynode),              // a page-tree dictionary
                        3 => "0:x:612:792".to_string(),
                        4 => "0:0:10:20:30".to_string(),
                        _ => "-".to_string().replace('-', "1:2:3:4"),
                    };
                    let crop = g.rng.chance(1, 3);
                    if let Some(d) = g.dict_mut(anynode) {
                        if crop {
                            d.b = Some(bx);
                        } else {
                            d.m = Some(bx);
                        }
                    }
                    kinds.push("badbox");
                }
                8 => {
                    // rotate: real / indirect / huge
                    let r = match g.rng.below(9) {
                        0 => "r90".to_string(),
                        1 => {
                            let i = g.fresh();
                            g.objs.insert(i, Ob::I(90));
                            format!("@{}", i)
                        }
                        5 => {
                            // reference to an out-of-i32 integer (wraps like a direct one)
                            let i = g.fresh();
                            let v = *g.rng.pick(&[4294967386i64, -2147483649, 2147483648, -90]);
                            g.objs.insert(i, Ob::I(v));
                            format!("@{}", i)
                        }
                        6 => {
                            // reference to something that is not an integer
                            let i = g.fresh();
                            let ob = match g.rng.below(3) {
                                0 => Ob::N,
                                1 => Ob::B("0:0:10:10".into()),
                                _ => Ob::Y("-".into()),
                            };
                            g.objs.insert(i, ob);
                            format!("@{}", i)
                        }
                        7 => format!("@{}", g.ids.pop().unwrap()), // dangling (free entry)
                        2 => "4294967386".to_string(),
                        3 => "-2147483649".to_string(),
                        _ => "2147483648".to_string(),
                    };
                    if let Some(d) = g.dict_mut(anynode) {
                        d.r = Some(r);
                    }
                    kinds.push("badrot");
                }
                9 => {
                    // resources: junk / ref to non-dict / dangling / ref to a page dict
                    let z = match g.rng.below(5) {
                        0 => "j".to_string(),
                        1 => {
                            let i = g.fresh();
                            g.objs.insert(i, Ob::I(1));
                            format!("@{}", i)
                        }
                        2 => format!("@{}", g.ids.pop().unwrap()),
                        3 => format!("@{}", anynode),
                        _ => {
                            let i = g.fresh();
                            g.objs.insert(i, Ob::S(vec![]));
                            format!("@{}", i)
                        }
                    };
                    if let Some(d) = g.dict_mut(anynode) {
                        d.z = Some(z);
                    }
                    kinds.push("badres");
                }
                10 => {
                    // Kids itself malformed
                    let k = match g.rng.below(5) {
                        0 => Some("j".to_string()),
                        1 => None,
                        2 => {
                            let i = g.fresh();
                            g.objs.insert(i, Ob::I(1));
                            Some(format!("@{}", i))
                        }
                        3 => Some(format!("@{}", g.ids.pop().unwrap())),
                        _ => Some(format!("@{}", anynode)),
                    };
                    if let Some(d) = g.dict_mut(inner_or_root) {
                        d.k = k;
                    }
                    kinds.push("badkids");
                }
                11 => {
                    // a page with /Kids, or a leaf without /Type but with MediaBox/Contents only
                    if let Some(d) = g.dict_mut(anynode) {
                        if d.t.as_deref() == Some("P") {
                            match 0 {
                                _ if d.m.is_some() || d.o.is_some() => d.t = None,
                                _ => d.k = Some(root.to_string()),
                            }
                        } else {
                            d.t = None;
                        }
                    }
                    kinds.push("infer");
                }
                12 => {
                    // wrong count on top of another deviation
                    let c = wrong_count(g.rng, n);
                    g.dict_mut(root).unwrap().c = Some(c);
                    kinds.push("wc");
                }
                13 => {
                    // the same page listed under two different parents
                    if g.inners.len() >= 1 && !g.pages.is_empty() {
                        let pg = *g.rng.pick(&g.pages.clone());
                        let tgt = *g.rng.pick(&g.inners.clone());
                        if let Some((h, mut v)) = g.kids_elems(tgt) {
                            v.push(pg.to_string());
                            g.put_kids_elems(tgt, h, v);
                            kinds.push("shared2");
                        }
                    }
                }
                14 => {
                    // 2-cycle between two inner nodes
                    if g.inners.len() >= 2 {
                        let a = *g.rng.pick(&g.inners.clone());
                        let b2 = *g.rng.pick(&g.inners.clone());
                        if let Some((h, mut v)) = g.kids_elems(a) {
                            v.insert(0, b2.to_string());
                            g.put_kids_elems(a, h, v);
                        }
                        if let Some((h, mut v)) = g.kids_elems(b2) {
                            v.push(a.to_string());
                            g.put_kids_elems(b2, h, v);
                        }
                        kinds.push("cycle2");
                    }
                }
                _ => {
                    // null attribute holder: attribute given as reference (legal PDF, library ignores)
                    let i = g.fresh();
                    g.objs.insert(i, Ob::I(180));
                    if let Some(d) = g.dict_mut(anynode) {
                        d.r = Some(format!("@{}", i));
                    }
                    kinds.push("indirectattr");
                }
            }
        }
    }
    // objects in a shuffled file order
    let mut ids: Vec<u32> = g.objs.keys().copied().collect();
    for i in (1..ids.len()).rev() {
        let j = g.rng.below(i as u64 + 1) as usize;
        ids.swap(i, j);
    }
    let objs: Vec<(u32, Ob)> = ids.iter().map(|i| (*i, g.objs[i].clone())).collect();
    let req = show_req(cat, root, &objs);
    tags.push(match mode {
        0 => "wf".to_string(),
        1 => "wrongcount".to_string(),
        _ => "malformed".to_string(),
    });
    for k in &kinds {
        tags.push(format!("k-{}", k));
    }
    tags.push(format!("depth{}", depth));
    tags.push(format!("pages{}", if n >= 16 { 16 } else if n >= 4 { 4 } else { n }));
    if deep || mode >= 1 {
        tags.push("nt".into());
    }
    Case::new(req, tags.join(" "))
}

/// A deep, narrow tree: a spine of `depth` /Pages nodes (8..=40), inheritable attributes set at
/// random levels (direct or through a reference), a leaf sibling at some levels, 1..=3 leaves at
/// the bottom; `twist`: 0 = well-formed, 1 = the bottom node's /Kids leads back to a spine node
/// (kid cycle), 2 = a spine node's /Parent points DOWN the spine (parent cycle), 3 = the root
/// /Count is wrong, 4 = one spine node is reached through a null / dangling kid next to it.
fn gen_chain(rng: &mut Rng, depth: u32, twist: u32) -> Case {
    let mut pool: Vec<u32> = (1..=690).collect();
    for i in (1..pool.len()).rev() {
        let j = rng.below(i as u64 + 1) as usize;
        pool.swap(i, j);
    }
    let mut g = G { rng, ids: pool, objs: BTreeMap::new(), order: vec![], pages: vec![], inners: vec![] };
    let cat = g.fresh();
    let root = g.fresh();
    let spine: Vec<u32> = (0..depth).map(|_| g.fresh()).collect();
    let mut leaves_below: Vec<i64> = vec![0; depth as usize + 1];
    // side leaves and bottom leaves first, so that counts are known
    let mut kids_of: Vec<Vec<u32>> = vec![vec![]; depth as usize];
    for lvl in 0..depth as usize {
        let parent = spine[lvl];
        let bottom = lvl + 1 == depth as usize;
        let nleaf = if bottom { 1 + g.rng.below(3) } else if g.rng.chance(1, 4) { 1 } else { 0 };
        let before = g.rng.chance(1, 2);
        let mut leaves = vec![];
        for _ in 0..nleaf {
            let id = g.fresh();
            let mut d = D { t: Some("P".into()), p: Some(parent), ..D::default() };
            g.attrs(&mut d, 1, 6);
            g.objs.insert(id, Ob::D(d));
            g.pages.push(id);
            leaves.push(id);
        }
        leaves_below[lvl] = nleaf as i64;
        if !bottom {
            if before {
                kids_of[lvl].extend(&leaves);
                kids_of[lvl].push(spine[lvl + 1]);
            } else {
                kids_of[lvl].push(spine[lvl + 1]);
                kids_of[lvl].extend(&leaves);
            }
        } else {
            kids_of[lvl].extend(&leaves);
        }
    }
    let mut total = 0i64;
    let mut counts = vec![0i64; depth as usize];
    for lvl in (0..depth as usize).rev() {
        total += leaves_below[lvl];
        counts[lvl] = total;
    }
    for lvl in 0..depth as usize {
        let parent = if lvl == 0 { root } else { spine[lvl - 1] };
        let mut d = D { t: Some("S".into()), p: Some(parent), c: Some(counts[lvl].to_string()), ..D::default() };
        g.attrs(&mut d, 1, 5);
        let kids = kids_of[lvl].clone();
        g.set_kids(&mut d, &kids);
        g.objs.insert(spine[lvl], Ob::D(d));
        g.inners.push(spine[lvl]);
    }
    let mut rd = D { t: Some("S".into()), c: Some(total.to_string()), ..D::default() };
    g.attrs(&mut rd, 1, 2);
    g.set_kids(&mut rd, &[spine[0]]);
    g.objs.insert(root, Ob::D(rd));
    let mut kind = "wf";
    match twist {
        1 => {
            let bottom = spine[depth as usize - 1];
            let back = spine[g.rng.below(depth as u64) as usize];
            if let Some((h, mut v)) = g.kids_elems(bottom) {
                let at = g.rng.below(v.len() as u64 + 1) as usize;
                v.insert(at, back.to_string());
                g.put_kids_elems(bottom, h, v);
            }
            kind = "kidcycle";
        }
        2 => {
            let a = g.rng.below(depth as u64) as usize;
            let b = a + g.rng.below(depth as u64 - a as u64) as usize;
            let tgt = spine[b];
            if let Some(d) = g.dict_mut(spine[a]) {
                d.p = Some(tgt);
            }
            kind = "parentcycle";
        }
        3 => {
            let c = wrong_count(g.rng, total);
            g.dict_mut(root).unwrap().c = Some(c);
            kind = "wrongcount";
        }
        4 => {
            let a = spine[g.rng.below(depth as u64) as usize];
            if let Some((h, mut v)) = g.kids_elems(a) {
                let e = match g.rng.below(3) {
                    0 => "n".to_string(),
                    1 => "x".to_string(),
                    _ => g.ids.pop().unwrap().to_string(),
                };
                let at = g.rng.below(v.len() as u64 + 1) as usize;
                v.insert(at, e);
                g.put_kids_elems(a, h, v);
            }
            kind = "junkkid";
        }
        _ => {}
    }
    let mut ids: Vec<u32> = g.objs.keys().copied().collect();
    for i in (1..ids.len()).rev() {
        let j = g.rng.below(i as u64 + 1) as usize;
        ids.swap(i, j);
    }
    let objs: Vec<(u32, Ob)> = ids.iter().map(|i| (*i, g.objs[i].clone())).collect();
    Case::new(show_req(cat, root, &objs), format!("chain k-{} depth{} pages{} nt", kind, depth, if total >= 4 { 4 } else { total }))
}

fn gen(rng: &mut Rng, tier: Tier) -> Vec<Case> {
    let mut cases = vec![];
    // deep narrow trees (inheritance through many levels, cycles far from the root)
    for i in 0..(if tier == Tier::Quick { 60 } else { 1500 }) {
        let depth = 8 + rng.below(33) as u32;
        let twist = if i % 2 == 0 { 0 } else { 1 + rng.below(4) as u32 };
        cases.push(gen_chain(rng, depth, twist));
    }
    // the MAX_PAGES cap: regular trees just below, at and above 100 000 leaves
    cases.push(Case::new("big 100001 100", "big cap nt"));
    cases.push(Case::new(format!("big {} {}", 300 + rng.below(300), 2 + rng.below(40)), "big nt"));
    if tier == Tier::Thorough {
        cases.push(Case::new("big 100000 250", "big cap nt"));
        cases.push(Case::new("big 99999 1000", "big cap nt"));
        cases.push(Case::new(format!("big {} 317", 100002 + rng.below(5000)), "big cap nt"));
    }
    let n = if tier == Tier::Quick { 2500 } else { 40000 };
    for i in 0..n {
        let depth = match i % 8 {
            0 => 0,
            1 | 2 => 1,
            3 | 4 => 2,
            5 | 6 => 3,
            _ => 4 + rng.below(3) as u32,
        };
        let maxw = 2 + rng.below(if depth >= 3 { 2 } else { 4 });
        let budget = 4 + rng.below(if tier == Tier::Quick { 26 } else { 50 }) as i64;
        let mode = match rng.below(10) {
            0..=3 => 0,
            4 | 5 => 1,
            _ => 2,
        };
        cases.push(gen_tree(rng, depth, maxw, budget, mode));
    }
    cases
}

fn main() {
    harness_main(gen, run, Limits::default());
}
