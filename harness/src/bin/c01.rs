//! C01 probe (v0)
use oxiharness::*;
use oxidize_pdf::parser::content::ContentParser;
use oxidize_pdf::parser::lexer::{Lexer, Token};
use oxidize_pdf::parser::objects::{PdfDictionary, PdfName, PdfObject, PdfStream};
use oxidize_pdf::parser::{ParseOptions, PdfDocument, PdfReader};
use std::io::Cursor;

fn preset(s: &str) -> Option<ParseOptions> {
    Some(match s {
        "strict" => ParseOptions::strict(),
        "default" => ParseOptions::default(),
        "tolerant" => ParseOptions::tolerant(),
        "lenient" => ParseOptions::lenient(),
        "skip" => ParseOptions::skip_errors(),
        _ => return None,
    })
}

fn errc<E: std::fmt::Debug>(e: &E) -> String {
    let s = format!("{:?}", e);
    let head: String = s.chars().take_while(|c| c.is_ascii_alphanumeric()).collect();
    format!("err:{}", head)
}

fn name(s: &str) -> PdfObject {
    PdfObject::Name(PdfName(s.to_string()))
}

fn run(req: &str) -> String {
    let p: Vec<&str> = req.split(' ').collect();
    match p.as_slice() {
        ["a85", h] => {
            let Some(data) = unhex(h) else { return "bad-request".into() };
            let mut dict = PdfDictionary::new();
            dict.insert("Filter".into(), name("ASCII85Decode"));
            let s = PdfStream { dict, data };
            match s.decode(&ParseOptions::default()) {
                Ok(v) => format!("ok:{}", hex(&v)),
                Err(e) => errc(&e),
            }
        }
        ["pred", pr, cols, colors, bpc, h] => {
            let Some(data) = unhex(h) else { return "bad-request".into() };
            let mut parms = PdfDictionary::new();
            for (k, v) in [("Predictor", pr), ("Columns", cols), ("Colors", colors), ("BitsPerComponent", bpc)] {
                if *v != "_" {
                    let Ok(i) = v.parse::<i64>() else { return "bad-request".into() };
                    parms.insert(k.into(), PdfObject::Integer(i));
                }
            }
            let mut dict = PdfDictionary::new();
            dict.insert("Filter".into(), name("ASCIIHexDecode"));
            dict.insert("DecodeParms".into(), PdfObject::Dictionary(parms));
            let s = PdfStream { dict, data: hex(&data).replace('-', "").into_bytes() };
            match s.decode(&ParseOptions::default()) {
                Ok(v) => format!("ok:{}", hex(&v)),
                Err(e) => errc(&e),
            }
        }
        ["lex", pre, h] => {
            let (Some(o), Some(data)) = (preset(pre), unhex(h)) else { return "bad-request".into() };
            let mut lx = Lexer::new_with_options(Cursor::new(data), o);
            let mut n = 0usize;
            loop {
                match lx.next_token() {
                    Ok(Token::Eof) => return format!("ok:{}", n),
                    Ok(_) => n += 1,
                    Err(e) => return format!("{}@{}", errc(&e), n),
                }
            }
        }
        ["obj", pre, h] => {
            let (Some(o), Some(data)) = (preset(pre), unhex(h)) else { return "bad-request".into() };
            let mut lx = Lexer::new_with_options(Cursor::new(data), o.clone());
            match PdfObject::parse_with_options(&mut lx, &o) {
                Ok(_) => "ok".into(),
                Err(e) => errc(&e),
            }
        }
        ["content", h] => {
            let Some(data) = unhex(h) else { return "bad-request".into() };
            match ContentParser::parse(&data) {
                Ok(v) => format!("ok:{}", v.len()),
                Err(e) => errc(&e),
            }
        }
        ["rep", kind, pre, byte, n] => {
            // repeated byte shapes without huge request lines
            let (Some(o), Ok(b), Ok(n)) = (preset(pre), u8::from_str_radix(byte, 16), n.parse::<usize>()) else { return "bad-request".into() };
            let data = vec![b; n];
            match *kind {
                "lex" => {
                    let mut lx = Lexer::new_with_options(Cursor::new(data), o);
                    match lx.next_token() {
                        Ok(_) => "ok".into(),
                        Err(e) => errc(&e),
                    }
                }
                "obj" => {
                    let mut lx = Lexer::new_with_options(Cursor::new(data), o.clone());
                    match PdfObject::parse_with_options(&mut lx, &o) {
                        Ok(_) => "ok".into(),
                        Err(e) => errc(&e),
                    }
                }
                "content" => match ContentParser::parse(&data) {
                    Ok(v) => format!("ok:{}", v.len()),
                    Err(e) => errc(&e),
                },
                _ => "bad-request".into(),
            }
        }
        ["open", pre, h] => {
            let (Some(o), Some(data)) = (preset(pre), unhex(h)) else { return "bad-request".into() };
            open_nav(data, o)
        }
        _ => "bad-request".into(),
    }
}

fn open_nav(data: Vec<u8>, o: ParseOptions) -> String {
    let r = match PdfReader::new_with_options(Cursor::new(data), o) {
        Ok(r) => r,
        Err(e) => return format!("open-{}", errc(&e)),
    };
    let doc = PdfDocument::new(r);
    let n = match doc.page_count() {
        Ok(n) => n,
        Err(e) => return format!("count-{}", errc(&e)),
    };
    let mut okp = 0;
    let mut errs = 0;
    for i in 0..n.min(8) {
        match doc.get_page(i) {
            Ok(page) => {
                okp += 1;
                let _ = doc.get_page_resources(&page);
                match doc.get_page_content_streams(&page) {
                    Ok(cs) => {
                        for c in cs {
                            let _ = ContentParser::parse(&c);
                        }
                    }
                    Err(_) => errs += 1,
                }
                if doc.extract_text_from_page(i).is_err() {
                    errs += 1;
                }
            }
            Err(_) => errs += 1,
        }
    }
    format!("ok:pages={} got={} errs={}", n, okp, errs)
}

fn gen(_rng: &mut Rng, _tier: Tier) -> Vec<Case> {
    vec![]
}

fn main() {
    harness_main(gen, run, Limits { per_case: std::time::Duration::from_secs(10), rlimit_as: 4 << 30, stack: 8 << 20 });
}
