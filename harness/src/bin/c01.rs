//! C01 — reading any byte sequence never crashes, hangs or exhausts memory.
//!
//! Two streams of requests:
//!  * KERNEL requests (`a85`, `pred`, `lex`, `obj`, `rep`, `xrs`, `xref`, `objstm`, `stmlen`, `rot`,
//!    `cmapoff`, `label`, `rc4`, `prev`, `tree`, `rtel`): each reaches one modelled kernel through a
//!    PUBLIC API of the crate; the Lean model predicts the answer (value / err / panic kind / hang).
//!  * EXPLORATION requests (`explore`, `xfile`, `content`): whole-reader navigation of generated
//!    skeletons and mutated files; the model makes no prediction, only the oracle (crash / hang /
//!    memory) judges them.  This part is exploration, not proof.
use oxidize_pdf::parser::content::ContentParser;
use oxidize_pdf::parser::lexer::{Lexer, Token};
use oxidize_pdf::parser::object_stream::ObjectStream;
use oxidize_pdf::parser::objects::{PdfArray, PdfDictionary, PdfName, PdfObject, PdfStream};
use oxidize_pdf::parser::page_tree::PageTree;
use oxidize_pdf::parser::xref::XRefTable;
use oxidize_pdf::parser::xref_stream::{XRefEntry as XsEntry, XRefStream};
use oxidize_pdf::parser::{ParseOptions, PdfDocument, PdfReader};
use oxiharness::*;
use std::io::{BufReader, Cursor};

// ------------------------------------------------------------------------------------------------
// helpers
// ------------------------------------------------------------------------------------------------

fn preset(s: &str) -> Option<ParseOptions> {
    Some(match s {
        "strict" => ParseOptions::strict(),
        "default" => ParseOptions::default(),
        "tolerant" => ParseOptions::tolerant(),
        "lenient" => ParseOptions::lenient(),
        "skip" => ParseOptions::skip_errors(),
        _ => return None,
    })
}
const PRESETS: [&str; 5] = ["strict", "default", "tolerant", "lenient", "skip"];

fn name(s: &str) -> PdfObject {
    PdfObject::Name(PdfName(s.to_string()))
}

fn int_or_absent(s: &str) -> Result<Option<i64>, ()> {
    if s == "_" {
        Ok(None)
    } else {
        s.parse::<i64>().map(Some).map_err(|_| ())
    }
}

// --- panic location ---------------------------------------------------------------------------
// The shared child loop installs a silent panic hook; `run` replaces it (once) by one that records
// where the panic was raised, so that the answer is `panic:<message> @<file under src/>:<line>`.
static LAST_LOC: std::sync::Mutex<String> = std::sync::Mutex::new(String::new());
static HOOK: std::sync::Once = std::sync::Once::new();

fn install_hook() {
    HOOK.call_once(|| {
        std::panic::set_hook(Box::new(|info| {
            let loc = info
                .location()
                .map(|l| {
                    let f = l.file();
                    let in_crate = f.contains("oxidize-pdf-core/src/");
                    let f = f.rsplit_once("/src/").map(|x| x.1).unwrap_or(f);
                    let mut s = format!("{}:{}", f, l.line());
                    if !in_crate {
                        // raised inside std (e.g. `Sum`): name the innermost frame of the crate
                        let bt = std::backtrace::Backtrace::force_capture().to_string();
                        if let Some(fr) = bt.lines().find_map(|x| x.find("oxidize_pdf::").map(|i| x[i..].trim().to_string())) {
                            let fr = fr.split("::{{").next().unwrap_or(&fr).to_string();
                            s.push_str(&format!("<{}>", fr));
                        }
                    }
                    s
                })
                .unwrap_or_else(|| "?".into());
            if let Ok(mut g) = LAST_LOC.lock() {
                *g = loc;
            }
        }));
    });
}

fn panic_answer(e: Box<dyn std::any::Any + Send>) -> String {
    let msg = if let Some(s) = e.downcast_ref::<&str>() {
        s.to_string()
    } else if let Some(s) = e.downcast_ref::<String>() {
        s.clone()
    } else {
        "?".into()
    };
    let loc = LAST_LOC.lock().map(|g| g.clone()).unwrap_or_default();
    format!("panic:{} @{}", msg, loc)
}

// --- stack class ------------------------------------------------------------------------------
type Job = Box<dyn FnOnce() -> String + Send + 'static>;
struct Probe {
    tx: std::sync::mpsc::Sender<Job>,
    rx: std::sync::mpsc::Receiver<String>,
}
static PROBE: std::sync::Mutex<Option<Probe>> = std::sync::Mutex::new(None);

/// One long-lived 4 MiB thread (between Rust's 2 MiB default for spawned threads and the 8 MiB of a
/// main thread; an overflow is reached in half the time of 8 MiB) whose lower part is painted; a
/// job runs on it, then the lowest dirty probe gives the stack class: `s` = at most 1 MiB of stack
/// was touched, `D` = more.  Only the dirtied part is repainted, so a request costs no page faults.
/// (Coarse on purpose: the model predicts the class from its call-depth counter and the generator
/// keeps away from the band where frame sizes would matter.)  A stack overflow kills the child.
fn probe_thread(rx: std::sync::mpsc::Receiver<Job>, tx: std::sync::mpsc::Sender<String>) {
    const PAINT: usize = 2 << 20; // painted window below the probe frame
    const SHALLOW: usize = 1 << 20;
    const MARGIN: usize = 16 << 10;
    const PAT: u8 = 0xA5;
    let marker = 0u8;
    let top = (&marker as *const u8 as usize) & !7usize;
    let low = top - PAINT;
    let lim = top - MARGIN;
    unsafe { std::ptr::write_bytes(low as *mut u8, PAT, lim - low) };
    while let Ok(job) = rx.recv() {
        let r = match std::panic::catch_unwind(std::panic::AssertUnwindSafe(job)) {
            Ok(a) => Ok(a),
            Err(e) => Err(panic_answer(e)),
        };
        // lowest dirty probe (one probe per 512 bytes)
        let mut q = low;
        while q < lim {
            let v = unsafe { std::ptr::read_volatile(q as *const u64) };
            if v != 0xA5A5_A5A5_A5A5_A5A5 {
                break;
            }
            q += 512;
        }
        let used = top - q;
        if q < lim {
            let from = if q > low { q - 512 } else { low };
            unsafe { std::ptr::write_bytes(from as *mut u8, PAT, lim - from) };
        }
        let ans = match r {
            Ok(a) => format!("{} {}", a, if used <= SHALLOW { "s" } else { "D" }),
            Err(p) => p,
        };
        if tx.send(ans).is_err() {
            break;
        }
    }
}

fn with_stack_class<F: FnOnce() -> String + Send + 'static>(f: F) -> String {
    let mut g = PROBE.lock().unwrap_or_else(|e| e.into_inner());
    if g.is_none() {
        let (jtx, jrx) = std::sync::mpsc::channel::<Job>();
        let (atx, arx) = std::sync::mpsc::channel::<String>();
        std::thread::Builder::new().stack_size(4 << 20).spawn(move || probe_thread(jrx, atx)).expect("spawn probe thread");
        *g = Some(Probe { tx: jtx, rx: arx });
    }
    let p = g.as_ref().unwrap();
    if p.tx.send(Box::new(f)).is_err() {
        return "panic:probe-thread".into();
    }
    match p.rx.recv() {
        Ok(s) => s,
        Err(_) => "panic:probe-thread".into(),
    }
}

fn chars_hex(s: &str) -> String {
    let v: Vec<u8> = s.chars().map(|c| (c as u32).min(255) as u8).collect();
    hex(&v)
}

fn tok_str(t: &Token) -> String {
    match t {
        Token::Boolean(b) => format!("B{}", *b as u8),
        Token::Integer(i) => format!("I{}", i),
        Token::Real(_) => "F".into(),
        Token::String(s) => format!("S{}", hex(s)),
        Token::Name(n) => format!("N{}", chars_hex(n)),
        Token::ArrayStart => "[".into(),
        Token::ArrayEnd => "]".into(),
        Token::DictStart => "<<".into(),
        Token::DictEnd => ">>".into(),
        Token::Stream => "stream".into(),
        Token::EndStream => "endstream".into(),
        Token::Obj => "obj".into(),
        Token::EndObj => "endobj".into(),
        Token::StartXRef => "startxref".into(),
        Token::Reference(a, b) => format!("r{}.{}", a, b),
        Token::Null => "Z".into(),
        Token::Comment(_) => "C".into(),
        Token::Eof => "E".into(),
    }
}

fn obj_str(o: &PdfObject) -> String {
    match o {
        PdfObject::Null => "Z".into(),
        PdfObject::Boolean(b) => format!("B{}", *b as u8),
        PdfObject::Integer(i) => format!("I{}", i),
        PdfObject::Real(_) => "F".into(),
        PdfObject::String(s) => format!("S{}", hex(s.as_bytes())),
        PdfObject::Name(n) => format!("N{}", chars_hex(n.as_str())),
        PdfObject::Array(a) => format!("[{}]", a.0.iter().map(obj_str).collect::<Vec<_>>().join(",")),
        PdfObject::Dictionary(d) => {
            let mut kv: Vec<(Vec<u32>, String)> = d
                .0
                .iter()
                .map(|(k, v)| (k.as_str().chars().map(|c| c as u32).collect(), format!("{}:{}", chars_hex(k.as_str()), obj_str(v))))
                .collect();
            kv.sort();
            format!("<{}>", kv.into_iter().map(|x| x.1).collect::<Vec<_>>().join(";"))
        }
        PdfObject::Stream(_) => "STREAM".into(),
        PdfObject::Reference(a, b) => format!("r{}.{}", a, b),
    }
}

fn lex_all(data: Vec<u8>, o: ParseOptions) -> String {
    let mut lx = Lexer::new_with_options(Cursor::new(data), o);
    let mut out: Vec<String> = vec![];
    loop {
        match lx.next_token() {
            Ok(Token::Eof) => {
                out.push("E".into());
                break;
            }
            Ok(t) => out.push(tok_str(&t)),
            Err(_) => {
                out.push("err".into());
                break;
            }
        }
    }
    out.join(",")
}

fn parse_obj(data: Vec<u8>, o: ParseOptions) -> String {
    let mut lx = Lexer::new_with_options(Cursor::new(data), o.clone());
    match PdfObject::parse_with_options(&mut lx, &o) {
        Ok(v) => obj_str(&v),
        Err(_) => "err".into(),
    }
}

fn rep_bytes(prefix: &[u8], unit: &[u8], n: usize, suffix: &[u8]) -> Vec<u8> {
    let mut v = Vec::with_capacity(prefix.len() + unit.len() * n + suffix.len());
    v.extend_from_slice(prefix);
    for _ in 0..n {
        v.extend_from_slice(unit);
    }
    v.extend_from_slice(suffix);
    v
}

// ------------------------------------------------------------------------------------------------
// skeleton files
// ------------------------------------------------------------------------------------------------

/// header + `startxref` block placed BEFORE the cross-reference section (the reader only looks for
/// the last `startxref` in the final 1024 bytes), then `xref\n` + `tail`
fn file_with_xref_tail(tail: &[u8]) -> Vec<u8> {
    let mut f = b"%PDF-1.4\n".to_vec();
    // offset of `xref` = len(header) + len("startxref\nNN\n%%EOF\n")
    let off = f.len() + "startxref\n".len() + 3 + "%%EOF\n".len();
    f.extend_from_slice(format!("startxref\n{:02}\n%%EOF\n", off).as_bytes());
    assert_eq!(f.len(), off);
    f.extend_from_slice(b"xref\n");
    f.extend_from_slice(tail);
    f
}

struct Pdf {
    objs: Vec<(u32, Vec<u8>)>,
}

impl Pdf {
    fn classic(&self, trailer_extra: &str, size: i64) -> Vec<u8> {
        let mut f = b"%PDF-1.4\n%\xE2\xE3\xCF\xD3\n".to_vec();
        let mut offs = vec![];
        for (n, body) in &self.objs {
            offs.push((*n, f.len()));
            f.extend_from_slice(format!("{} 0 obj\n", n).as_bytes());
            f.extend_from_slice(body);
            f.extend_from_slice(b"\nendobj\n");
        }
        let xoff = f.len();
        f.extend_from_slice(b"xref\n0 1\n0000000000 65535 f \n");
        for (n, o) in &offs {
            f.extend_from_slice(format!("{} 1\n{:010} 00000 n \n", n, o).as_bytes());
        }
        f.extend_from_slice(format!("trailer\n<< /Size {} /Root 1 0 R {} >>\nstartxref\n{}\n%%EOF\n", size, trailer_extra, xoff).as_bytes());
        f
    }
}

// ------------------------------------------------------------------------------------------------
// run
// ------------------------------------------------------------------------------------------------

fn run(req: &str) -> String {
    install_hook();
    match std::panic::catch_unwind(|| run_inner(req)) {
        Ok(a) => a,
        Err(e) => panic_answer(e),
    }
}

fn run_inner(req: &str) -> String {
    let p: Vec<&str> = req.split(' ').collect();
    match p.as_slice() {
        ["a85", h] => {
            let Some(data) = unhex(h) else { return "bad-request".into() };
            let mut dict = PdfDictionary::new();
            dict.insert("Filter".into(), name("ASCII85Decode"));
            match (PdfStream { dict, data }).decode(&ParseOptions::default()) {
                Ok(v) => format!("ok:{}", hex(&v)),
                Err(_) => "err".into(),
            }
        }
        ["pred", pr, cols, colors, bpc, h] => {
            let Some(data) = unhex(h) else { return "bad-request".into() };
            let mut parms = PdfDictionary::new();
            for (k, v) in [("Predictor", pr), ("Columns", cols), ("Colors", colors), ("BitsPerComponent", bpc)] {
                match int_or_absent(v) {
                    Ok(Some(i)) => parms.insert(k.into(), PdfObject::Integer(i)),
                    Ok(None) => {}
                    Err(_) => return "bad-request".into(),
                }
            }
            // /Predictor is honoured for FlateDecode and LZWDecode only: the bytes reach the
            // predictor through a zlib stream
            let mut dict = PdfDictionary::new();
            dict.insert("Filter".into(), name("FlateDecode"));
            dict.insert("DecodeParms".into(), PdfObject::Dictionary(parms));
            let enc = {
                use std::io::Write;
                let mut e = flate2::write::ZlibEncoder::new(Vec::new(), flate2::Compression::fast());
                e.write_all(&data).expect("zlib");
                e.finish().expect("zlib")
            };
            match (PdfStream { dict, data: enc }).decode(&ParseOptions::default()) {
                Ok(v) => format!("ok:{}", hex(&v)),
                Err(_) => "err".into(),
            }
        }
        ["lex", pre, h] => {
            let (Some(o), Some(data)) = (preset(pre), unhex(h)) else { return "bad-request".into() };
            with_stack_class(move || lex_all(data, o))
        }
        ["obj", pre, h] => {
            let (Some(o), Some(data)) = (preset(pre), unhex(h)) else { return "bad-request".into() };
            with_stack_class(move || parse_obj(data, o))
        }
        ["content", h] => {
            let Some(data) = unhex(h) else { return "bad-request".into() };
            with_stack_class(move || match ContentParser::parse(&data) {
                Ok(_) => "ok".into(),
                Err(_) => "err".into(),
            })
        }
        ["rep", kind, pre, pfx, unit, n, sfx] => {
            let (Some(o), Some(pfx), Some(unit), Ok(n), Some(sfx)) = (preset(pre), unhex(pfx), unhex(unit), n.parse::<usize>(), unhex(sfx)) else {
                return "bad-request".into();
            };
            if n > 50_000_000 {
                return "bad-request".into();
            }
            let data = rep_bytes(&pfx, &unit, n, &sfx);
            match *kind {
                "lex" => with_stack_class(move || {
                    let mut lx = Lexer::new_with_options(Cursor::new(data), o);
                    match lx.next_token() {
                        Ok(t) => tok_str(&t),
                        Err(_) => "err".into(),
                    }
                }),
                "obj" => with_stack_class(move || {
                    let mut lx = Lexer::new_with_options(Cursor::new(data), o.clone());
                    match PdfObject::parse_with_options(&mut lx, &o) {
                        Ok(_) => "ok".into(),
                        Err(_) => "err".into(),
                    }
                }),
                "content" => with_stack_class(move || match ContentParser::parse(&data) {
                    Ok(_) => "ok".into(),
                    Err(_) => "err".into(),
                }),
                _ => "bad-request".into(),
            }
        }
        ["xrs", w, idx, size, h] => {
            let Some(data) = unhex(h) else { return "bad-request".into() };
            let ints = |s: &str| -> Option<Vec<i64>> {
                if s == "." {
                    Some(vec![])
                } else {
                    s.split(',').map(|x| x.parse::<i64>().ok()).collect()
                }
            };
            let Some(w) = ints(w) else { return "bad-request".into() };
            let mut dict = PdfDictionary::new();
            dict.insert("W".into(), PdfObject::Array(PdfArray(w.into_iter().map(PdfObject::Integer).collect())));
            if *idx != "_" {
                let Some(ix) = ints(idx) else { return "bad-request".into() };
                dict.insert("Index".into(), PdfObject::Array(PdfArray(ix.into_iter().map(PdfObject::Integer).collect())));
            }
            match int_or_absent(size) {
                Ok(Some(s)) => dict.insert("Size".into(), PdfObject::Integer(s)),
                Ok(None) => {}
                Err(_) => return "bad-request".into(),
            }
            let mut cur = Cursor::new(Vec::<u8>::new());
            let xs = match XRefStream::parse(&mut cur, dict, data, &ParseOptions::default()) {
                Ok(x) => x,
                Err(_) => return "err".into(),
            };
            match xs.to_xref_entries() {
                Ok(es) => {
                    let v: Vec<String> = es
                        .iter()
                        .map(|(n, e)| match e {
                            XsEntry::Free { next_free_object, generation } => format!("{}.0.{}.{}", n, next_free_object, generation),
                            XsEntry::InUse { offset, generation } => format!("{}.1.{}.{}", n, offset, generation),
                            XsEntry::Compressed { stream_object_number, index_within_stream } => format!("{}.2.{}.{}", n, stream_object_number, index_within_stream),
                        })
                        .collect();
                    format!("ok:{}", if v.is_empty() { ".".into() } else { v.join(",") })
                }
                Err(_) => "err".into(),
            }
        }
        ["xref", lines] => {
            // lines: hex fields separated by `/`; every line is terminated by LF in the file
            let mut tail = vec![];
            if *lines != "." {
                for l in lines.split('/') {
                    let Some(b) = unhex(l) else { return "bad-request".into() };
                    tail.extend_from_slice(&b);
                    tail.push(b'\n');
                }
            }
            let f = file_with_xref_tail(&tail);
            let mut r = BufReader::new(Cursor::new(f));
            match XRefTable::parse_with_options(&mut r, &ParseOptions::strict()) {
                Ok(t) => {
                    let mut ks: Vec<u32> = t.iter().map(|(k, _)| *k).collect();
                    ks.sort();
                    format!("ok:{}", if ks.is_empty() { ".".into() } else { ks.iter().map(|k| k.to_string()).collect::<Vec<_>>().join(",") })
                }
                Err(_) => "err".into(),
            }
        }
        ["objstm", n, first, h] => {
            let (Ok(n), Ok(first), Some(data)) = (n.parse::<i64>(), first.parse::<i64>(), unhex(h)) else { return "bad-request".into() };
            let mut dict = PdfDictionary::new();
            dict.insert("N".into(), PdfObject::Integer(n));
            dict.insert("First".into(), PdfObject::Integer(first));
            match ObjectStream::parse(PdfStream { dict, data }, &ParseOptions::default()) {
                Ok(os) => {
                    let mut v: Vec<(u32, String)> = os.objects().iter().map(|(k, o)| (*k, obj_str(o))).collect();
                    v.sort();
                    format!("ok:{}", if v.is_empty() { ".".into() } else { v.iter().map(|(k, s)| format!("{}={}", k, s)).collect::<Vec<_>>().join("|") })
                }
                Err(_) => "err".into(),
            }
        }
        ["stmlen", len, avail] => {
            let (Ok(len), Ok(avail)) = (len.parse::<i64>(), avail.parse::<usize>()) else { return "bad-request".into() };
            if avail > 1 << 20 {
                return "bad-request".into();
            }
            let mut data = format!("<< /Length {} >>\nstream\n", len).into_bytes();
            data.extend(std::iter::repeat(b'x').take(avail));
            data.extend_from_slice(b"\nendstream");
            let o = ParseOptions::strict();
            let mut lx = Lexer::new_with_options(Cursor::new(data), o.clone());
            match PdfObject::parse_with_options(&mut lx, &o) {
                Ok(PdfObject::Stream(s)) => format!("ok:{}", s.data.len()),
                Ok(_) => "ok:not-a-stream".into(),
                Err(_) => "err".into(),
            }
        }
        ["rot", rotate, angle] => run_rot(rotate, angle),
        ["cmapoff", code, start] => {
            let (Some(code), Some(start)) = (unhex(code), unhex(start)) else { return "bad-request".into() };
            if code.is_empty() || code.len() != start.len() {
                return "bad-request".into();
            }
            // bfrange <start> <start with last byte FF ...> : use end = FF..FF of the same length
            let hx = |b: &[u8]| b.iter().map(|x| format!("{:02X}", x)).collect::<String>();
            let end = vec![0xFFu8; start.len()];
            let src = format!(
                "/CIDInit /ProcSet findresource begin\n12 dict begin\nbegincmap\n1 begincodespacerange\n<{}> <{}>\nendcodespacerange\n1 beginbfrange\n<{}> <{}> <0041>\nendbfrange\nendcmap\n",
                hx(&vec![0u8; start.len()]),
                hx(&end),
                hx(&start),
                hx(&end)
            );
            match oxidize_pdf::text::cmap::CMap::parse(src.as_bytes()) {
                Ok(cm) => {
                    let _ = cm.map(&code);
                    "ok".into()
                }
                Err(_) => "err".into(),
            }
        }
        ["label", start, offset] => {
            let (Ok(start), Ok(offset)) = (start.parse::<i64>(), offset.parse::<u32>()) else { return "bad-request".into() };
            use oxidize_pdf::objects::{Dictionary, Object};
            let mut ld = Dictionary::new();
            ld.set("S", Object::Name("D".to_string()));
            ld.set("St", Object::Integer(start));
            let mut d = Dictionary::new();
            d.set("Nums", Object::Array(vec![Object::Integer(0), Object::Dictionary(ld)]));
            match oxidize_pdf::PageLabelTree::from_dict(&d) {
                Some(t) => match t.get_label(offset) {
                    Some(s) => format!("ok:{}", s),
                    None => "ok:none".into(),
                },
                None => "err".into(),
            }
        }
        ["rc4", key] => {
            let Some(key) = unhex(key) else { return "bad-request".into() };
            let mut c = oxidize_pdf::encryption::Rc4::new(&oxidize_pdf::encryption::Rc4Key::new(key));
            let _ = c.process(&[0u8; 4]);
            "ok".into()
        }
        ["prev", start, spec] => run_prev(start, spec),
        ["tree", spec] => run_tree(spec),
        ["explore", pre, h] => {
            let (Some(o), Some(data)) = (preset(pre), unhex(h)) else { return "bad-request".into() };
            open_nav(data, o)
        }
        ["xfile", pre, path, muts] => {
            let Some(o) = preset(pre) else { return "bad-request".into() };
            let Ok(mut data) = std::fs::read(path) else { return "bad-request".into() };
            if !apply_muts(&mut data, muts) {
                return "bad-request".into();
            }
            open_nav(data, o)
        }
        _ => "bad-request".into(),
    }
}

/// `/Rotate r` page, rotated by `angle` through the public page-rotation operation
fn run_rot(rotate: &str, angle: &str) -> String {
    use oxidize_pdf::operations::rotate::{PageRotator, RotateOptions, RotationAngle};
    use oxidize_pdf::operations::PageRange;
    let (Ok(rotate), Ok(angle)) = (rotate.parse::<i64>(), angle.parse::<i32>()) else { return "bad-request".into() };
    let Ok(ang) = RotationAngle::from_degrees(angle) else { return "bad-request".into() };
    let pdf = Pdf {
        objs: vec![
            (1, b"<< /Type /Catalog /Pages 2 0 R >>".to_vec()),
            (2, b"<< /Type /Pages /Kids [3 0 R] /Count 1 >>".to_vec()),
            (3, format!("<< /Type /Page /Parent 2 0 R /MediaBox [0 0 200 200] /Rotate {} >>", rotate).into_bytes()),
        ],
    };
    let bytes = pdf.classic("", 4);
    // tmpfs when there is one: file creation on a loaded disk can stall for seconds
    let dir = if std::path::Path::new("/dev/shm").is_dir() { std::path::PathBuf::from("/dev/shm") } else { std::env::temp_dir() };
    let path = dir.join(format!("oxiverif-c01-rot-{}.pdf", std::process::id()));
    if std::fs::write(&path, &bytes).is_err() {
        return "bad-request".into();
    }
    let r = match PdfReader::open(&path) {
        Ok(r) => r,
        Err(_) => return "err:open".into(),
    };
    let doc = PdfDocument::new(r);
    let mut rot = PageRotator::new(doc);
    let opts = RotateOptions { pages: PageRange::All, angle: ang, preserve_page_size: false };
    let res = match rot.rotate(&opts) {
        Ok(_) => "ok".to_string(),
        Err(_) => "err".to_string(),
    };
    let _ = std::fs::remove_file(&path);
    res
}

/// `spec` = per section `p<index>` (Prev → that section), `x` (Prev → offset past EOF), `h` (Prev →
/// offset 0, the header) or `_` (no Prev), comma separated; `start` = index of the newest section
fn run_prev(start: &str, spec: &str) -> String {
    let Ok(start) = start.parse::<usize>() else { return "bad-request".into() };
    let secs: Vec<&str> = spec.split(',').collect();
    if start >= secs.len() || secs.len() > 40 {
        return "bad-request".into();
    }
    // fixed-width sections so that offsets are known in advance
    let header = b"%PDF-1.4\n".to_vec();
    let sec_len = |_: usize| -> usize { "xref\n".len() + "100 1\n".len() + 20 + "trailer\n".len() + "<< /Size 1000 /Prev 0000000000 >>\n".len() + "startxref\n0\n".len() };
    let off = |i: usize| header.len() + (0..i).map(sec_len).sum::<usize>();
    let total = off(secs.len());
    let mut f = header.clone();
    for (i, s) in secs.iter().enumerate() {
        let prev: Option<usize> = if *s == "_" {
            None
        } else if *s == "x" {
            Some(total + 5000)
        } else if *s == "h" {
            Some(0)
        } else if let Some(r) = s.strip_prefix('p') {
            match r.parse::<usize>() {
                Ok(j) if j < secs.len() => Some(off(j)),
                _ => return "bad-request".into(),
            }
        } else {
            return "bad-request".into();
        };
        f.extend_from_slice(format!("xref\n{:03} 1\n0000000000 00000 n \ntrailer\n", 100 + i).as_bytes());
        match prev {
            Some(p) => f.extend_from_slice(format!("<< /Size 1000 /Prev {:010} >>\n", p).as_bytes()),
            None => f.extend_from_slice(format!("<< /Size 1000 {:>16} >>\n", "").as_bytes()),
        }
        // a valid token after the dictionary (the object parser looks one token ahead)
        f.extend_from_slice(b"startxref\n0\n");
        assert_eq!(f.len(), off(i + 1));
    }
    f.extend_from_slice(format!("startxref\n{}\n%%EOF\n", off(start)).as_bytes());
    let mut r = BufReader::new(Cursor::new(f));
    match XRefTable::parse_with_options(&mut r, &ParseOptions::strict()) {
        Ok(t) => {
            let mut ks: Vec<u32> = t.iter().map(|(k, _)| *k - 100).collect();
            ks.sort();
            format!("ok:{}", ks.iter().map(|k| k.to_string()).collect::<Vec<_>>().join(","))
        }
        Err(_) => "err".into(),
    }
}

/// `spec` = `<rootkids>;<node>;<node>…` ; node i is object 10+i ; node = `P` | `O` | `N<k.k.k>` (kids,
/// indices; an index ≥ number of nodes is a dangling reference) ; rootkids = `k.k.k`
fn run_tree(spec: &str) -> String {
    let parts: Vec<&str> = spec.split(';').collect();
    if parts.is_empty() || parts.len() > 60 {
        return "bad-request".into();
    }
    let kids_of = |s: &str| -> Option<Vec<usize>> {
        if s.is_empty() {
            return Some(vec![]);
        }
        s.split('.').map(|x| x.parse::<usize>().ok()).collect()
    };
    let refs = |ks: &[usize]| ks.iter().map(|k| format!("{} 0 R", 10 + k)).collect::<Vec<_>>().join(" ");
    let Some(root_kids) = kids_of(parts[0]) else { return "bad-request".into() };
    let mut objs = vec![
        (1u32, b"<< /Type /Catalog /Pages 2 0 R >>".to_vec()),
        (2u32, format!("<< /Type /Pages /Kids [{}] /Count {} >>", refs(&root_kids), root_kids.len()).into_bytes()),
    ];
    for (i, n) in parts[1..].iter().enumerate() {
        let body = if *n == "P" {
            "<< /Type /Page /Parent 2 0 R /MediaBox [0 0 10 10] >>".to_string()
        } else if *n == "O" {
            "<< /Foo 1 >>".to_string()
        } else if let Some(k) = n.strip_prefix('N') {
            let Some(ks) = kids_of(k) else { return "bad-request".into() };
            format!("<< /Type /Pages /Parent 2 0 R /Kids [{}] /Count {} >>", refs(&ks), ks.len())
        } else {
            return "bad-request".into();
        };
        objs.push((10 + i as u32, body.into_bytes()));
    }
    let bytes = Pdf { objs }.classic("", 200);
    let mut r = match PdfReader::new_with_options(Cursor::new(bytes), ParseOptions::strict()) {
        Ok(r) => r,
        Err(_) => return "err:open".into(),
    };
    let pages = match r.pages() {
        Ok(p) => p.clone(),
        Err(_) => return "err:pages".into(),
    };
    match PageTree::flatten_page_tree(&mut r, &pages) {
        Ok(v) => format!("ok:{}", if v.is_empty() { ".".into() } else { v.iter().map(|(n, _)| (n - 10).to_string()).collect::<Vec<_>>().join(",") }),
        Err(_) => "err".into(),
    }
}

/// mutations: `.` none | `b<off>=<hex byte>` | `n<k>=<int>` (k-th decimal integer token replaced) |
/// `t<len>` truncate, `+`-separated
fn apply_muts(data: &mut Vec<u8>, muts: &str) -> bool {
    if muts == "." {
        return true;
    }
    for m in muts.split('+') {
        if let Some(r) = m.strip_prefix('b') {
            let Some((o, b)) = r.split_once('=') else { return false };
            let (Ok(o), Ok(b)) = (o.parse::<usize>(), u8::from_str_radix(b, 16)) else { return false };
            if o < data.len() {
                data[o] = b;
            }
        } else if let Some(r) = m.strip_prefix('t') {
            let Ok(l) = r.parse::<usize>() else { return false };
            data.truncate(l);
        } else if let Some(r) = m.strip_prefix('n') {
            let Some((k, v)) = r.split_once('=') else { return false };
            let Ok(k) = k.parse::<usize>() else { return false };
            // find the k-th maximal run of ASCII digits preceded by a non-alphanumeric byte
            let mut i = 0;
            let mut seen = 0;
            let mut found = None;
            while i < data.len() {
                if data[i].is_ascii_digit() && (i == 0 || !data[i - 1].is_ascii_alphanumeric()) {
                    let s = i;
                    while i < data.len() && data[i].is_ascii_digit() {
                        i += 1;
                    }
                    if seen == k {
                        found = Some((s, i));
                        break;
                    }
                    seen += 1;
                } else {
                    i += 1;
                }
            }
            if let Some((s, e)) = found {
                data.splice(s..e, v.bytes());
            }
        } else {
            return false;
        }
    }
    true
}

fn open_nav(data: Vec<u8>, o: ParseOptions) -> String {
    let r = match PdfReader::new_with_options(Cursor::new(data), o.clone()) {
        Ok(r) => r,
        Err(_) => return "err:open".into(),
    };
    let doc = PdfDocument::new(r);
    let _ = doc.version();
    let _ = doc.metadata();
    let n = match doc.page_count() {
        Ok(n) => n,
        Err(_) => return "err:count".into(),
    };
    let mut okp = 0;
    let mut errs = 0;
    for i in 0..n.min(6) {
        match doc.get_page(i) {
            Ok(page) => {
                okp += 1;
                let _ = doc.get_page_resources(&page);
                let _ = doc.get_page_annotations(i);
                match doc.get_page_content_streams(&page) {
                    Ok(cs) => {
                        for c in cs {
                            let _ = ContentParser::parse(&c);
                        }
                    }
                    Err(_) => errs += 1,
                }
                if doc.extract_text_from_page(i).is_err() {
                    errs += 1;
                }
            }
            Err(_) => errs += 1,
        }
    }
    // decode every stream reachable by object number (bounded)
    let mut streams = 0;
    for num in 1..40u32 {
        if let Ok(PdfObject::Stream(s)) = doc.get_object(num, 0) {
            streams += 1;
            let _ = s.decode(&o);
            let _ = s.decode_with_limit(&o, 1 << 20);
        }
    }
    format!("ok:pages={} got={} errs={} streams={}", n, okp, errs, streams)
}

// ------------------------------------------------------------------------------------------------
// generators
// ------------------------------------------------------------------------------------------------

const BT: [i64; 21] = [
    i64::MIN,
    -4294967297,
    -2147483649,
    -1,
    0,
    1,
    7,
    8,
    255,
    256,
    65535,
    65536,
    65537,
    2147483647,
    2147483648,
    2147483649,
    4294967295,
    4294967296,
    4294967297,
    i64::MAX,
    -2147483648,
];

fn bt(rng: &mut Rng) -> i64 {
    *rng.pick(&BT)
}

fn small_or_bt(rng: &mut Rng) -> i64 {
    if rng.chance(1, 2) {
        rng.range(0, 9)
    } else {
        bt(rng)
    }
}

fn gen_a85(rng: &mut Rng, tier: Tier, cases: &mut Vec<Case>) {
    let mut push = |b: Vec<u8>, tag: &str| cases.push(Case::new(format!("a85 {}", hex(&b)), format!("a85 {} nt", tag)));
    // every first character × extreme / random rest : the group value crosses 2^32 between
    // "s8W-!" (= 2^32-1) and "s8W-\""
    for c0 in [b'!', b'"', b'r', b's', b't', b'u'] {
        for rest in [&b"!!!!"[..], b"uuuu", b"8W-!", b"8W-\"", b"8W- ", b"8W,u"] {
            let mut g = vec![c0];
            g.extend_from_slice(rest);
            let mut a = g.clone();
            a.extend_from_slice(b"~>");
            push(a, "group-boundary");
            push(g.clone(), "group-noeod");
            let mut b = b"<~".to_vec();
            b.extend_from_slice(&g);
            b.extend_from_slice(b"~>");
            push(b, "group-prefixed");
        }
        // incomplete tails (padded with `u`)
        for l in 0..4usize {
            let mut t = vec![c0];
            for _ in 0..l {
                t.push(*rng.pick(&[b'!', b'u', b'8', b'W']));
            }
            let mut a = t.clone();
            a.extend_from_slice(b"~>");
            push(a, "tail");
            push(t, "tail-noeod");
        }
    }
    let n = if tier == Tier::Quick { 500 } else { 12000 };
    for _ in 0..n {
        let len = rng.below(14) as usize;
        let mut b = vec![];
        if rng.chance(1, 6) {
            b.extend_from_slice(if rng.chance(1, 2) { b"<~" } else { b"<" });
        }
        for _ in 0..len {
            let c = match rng.below(20) {
                0 => b'z',
                1 => *rng.pick(&[b' ', b'\n', b'\t', b'\r', 0x0c, 0x0b, 0]),
                2 => *rng.pick(&[b'~', b'>', b'v', b'y', 0x7f, 0x80, 0xff]),
                3..=6 => *rng.pick(&[b'r', b's', b't', b'u']),
                _ => 33 + rng.below(85) as u8,
            };
            b.push(c);
        }
        if rng.chance(3, 4) {
            b.extend_from_slice(b"~>");
        }
        push(b, "random");
    }
}

fn gen_pred(rng: &mut Rng, tier: Tier, cases: &mut Vec<Case>) {
    let mut push = |p: String, c: String, k: String, b: String, d: &[u8], tag: &str| {
        cases.push(Case::new(format!("pred {} {} {} {} {}", p, c, k, b, hex(d)), format!("pred {} nt", tag)))
    };
    let s = |i: i64| i.to_string();
    // boundary cube on /Columns /Colors /BitsPerComponent
    let stride = if tier == Tier::Quick { 4 } else { 1 };
    let mut idx = rng.below(stride) as usize;
    for &cols in BT.iter() {
        for &colors in BT.iter() {
            for &bpc in BT.iter() {
                idx += 1;
                if idx % stride as usize != 0 {
                    continue;
                }
                let d: &[u8] = if idx % 3 == 0 { &[0, 1] } else if idx % 3 == 1 { &[2, 7, 1, 9] } else { &[] };
                push("12".into(), s(cols), s(colors), s(bpc), d, "cube");
            }
        }
    }
    // predictor value itself (cast to u32), absent keys
    for &p in BT.iter().chain([2i64, 9, 10, 11, 15, 16, 4294967306, -4294967286].iter()) {
        push(s(p), "2".into(), "_".into(), "_".into(), &[1, 5, 6, 2, 1, 1], "predictor-value");
        push(s(p), "_".into(), "-1".into(), "_".into(), &[0, 5], "predictor-value");
    }
    // well-formed geometry, all five filter types, several rows
    let n = if tier == Tier::Quick { 400 } else { 8000 };
    for _ in 0..n {
        let colors = 1 + rng.below(4) as i64;
        let bpc = *rng.pick(&[1i64, 2, 4, 8, 16]);
        let cols = 1 + rng.below(5) as i64;
        let row_bytes = ((cols * colors * bpc + 7) / 8) as usize;
        let rows = rng.below(4) as usize;
        let mut d = vec![];
        for _ in 0..rows {
            d.push(if rng.chance(1, 12) { 5 + rng.below(250) as u8 } else { rng.below(5) as u8 });
            d.extend(rng.bytes(row_bytes));
        }
        if rng.chance(1, 8) {
            d.push(rng.below(5) as u8);
        }
        let p = *rng.pick(&[10i64, 11, 12, 13, 14, 15]);
        let (c, k, b) = if rng.chance(1, 5) && colors == 1 && bpc == 8 { (s(cols), "_".to_string(), "_".to_string()) } else { (s(cols), s(colors), s(bpc)) };
        push(s(p), c, k, b, &d, "rows");
    }
}

fn rand_token_bytes(rng: &mut Rng, depth: u32) -> Vec<u8> {
    match rng.below(if depth > 3 { 12 } else { 16 }) {
        0 => b"null".to_vec(),
        1 => (if rng.chance(1, 2) { &b"true"[..] } else { b"false" }).to_vec(),
        2 => small_or_bt(rng).to_string().into_bytes(),
        3 => {
            // numbers around the i64 limits and malformed ones
            rng.pick(&[
                "9223372036854775807",
                "9223372036854775808",
                "-9223372036854775808",
                "-9223372036854775809",
                "+7",
                "-",
                "+",
                "+.",
                "1.",
                ".5",
                ".",
                "1.2.3",
                "1e5",
                "1e",
                "1E+",
                "-.e1",
                "00012",
                "99999999999999999999999",
                "1e400",
                "--1",
                "+-1",
            ])
            .as_bytes()
            .to_vec()
        }
        4 => {
            // literal string with escapes
            let mut v = vec![b'('];
            for _ in 0..rng.below(8) {
                match rng.below(10) {
                    0 => v.extend_from_slice(b"\\n"),
                    1 => {
                        v.push(b'\\');
                        for _ in 0..1 + rng.below(4) {
                            v.push(b'0' + rng.below(10) as u8);
                        }
                    }
                    2 => v.extend_from_slice(b"\\777"),
                    3 => v.extend_from_slice(b"(a)"),
                    4 => v.extend_from_slice(b"\\("),
                    5 => v.push(b'\\'),
                    _ => v.push(32 + rng.below(90) as u8),
                }
            }
            if rng.chance(9, 10) {
                v.push(b')');
            }
            v
        }
        5 => {
            let mut v = vec![b'<'];
            for _ in 0..rng.below(7) {
                v.push(*rng.pick(b"0123456789abcdefABCDEF \nxg"));
            }
            if rng.chance(9, 10) {
                v.push(b'>');
            }
            v
        }
        6 => {
            let mut v = vec![b'/'];
            for _ in 0..rng.below(6) {
                match rng.below(8) {
                    0 => {
                        v.push(b'#');
                        v.push(*rng.pick(b"0123456789abcdefABCDEF+-g "));
                        v.push(*rng.pick(b"0123456789abcdefABCDEF+-g/"));
                    }
                    1 => v.push(b'#'),
                    _ => v.push(*rng.pick(b"ABCxyz019_.{}R;")),
                }
            }
            v
        }
        7 => format!("{} {} R", rng.range(0, 12), rng.range(0, 3)).into_bytes(),
        8 => format!("{} {} R", small_or_bt(rng), small_or_bt(rng)).into_bytes(),
        9 => rng.pick(&["stream", "endstream", "obj", "endobj", "startxref", "R", "trailer", "nul", "tru", "f"]).as_bytes().to_vec(),
        10 => (if rng.chance(1, 2) { &b"%c\n"[..] } else { b"% comment\r" }).to_vec(),
        11 => vec![*rng.pick(&[b';', b'{', b'}', b')', b'>', b']', 0u8, 7, 0x0b, 0x80, 0x9f, 0xa0, 0xff, b'!', b'@', b'~'])],
        12 | 13 => {
            let mut v = vec![b'['];
            for _ in 0..rng.below(4) {
                v.push(b' ');
                v.extend(rand_token_bytes(rng, depth + 1));
            }
            if rng.chance(9, 10) {
                v.extend_from_slice(b" ]");
            }
            v
        }
        _ => {
            let mut v = b"<<".to_vec();
            for _ in 0..rng.below(4) {
                v.extend_from_slice(b" /");
                v.push(*rng.pick(b"ABCK"));
                v.push(b' ');
                v.extend(rand_token_bytes(rng, depth + 1));
            }
            if rng.chance(9, 10) {
                v.extend_from_slice(b" >>");
            }
            v
        }
    }
}

fn gen_lex_obj(rng: &mut Rng, tier: Tier, cases: &mut Vec<Case>) {
    let n = if tier == Tier::Quick { 700 } else { 14000 };
    for i in 0..n {
        let mut b = vec![];
        for _ in 0..1 + rng.below(4) {
            b.extend(rand_token_bytes(rng, 0));
            b.push(*rng.pick(b"  \n\t\r"));
        }
        // a few byte mutations
        if rng.chance(1, 3) && !b.is_empty() {
            let k = rng.below(b.len() as u64) as usize;
            b[k] = rng.next() as u8;
        }
        let pre = PRESETS[i % 5];
        let kind = if i % 2 == 0 { "lex" } else { "obj" };
        cases.push(Case::new(format!("{} {} {}", kind, pre, hex(&b)), format!("{} {} nt", kind, pre)));
    }
    // depth families: shallow (≤ 48) and deep (≥ 9000), see `with_stack_class`
    let semis = hex(b";");
    for (kind, pre, pfx, unit, sfx) in [
        ("lex", "strict", "-", semis.as_str(), "-"),
        ("lex", "default", "-", "07", "31"),
        ("lex", "tolerant", "-", "7b", "31"),
        ("lex", "skip", "-", "40", "31"),
        ("obj", "default", "-", "5b", "-"),
        ("obj", "strict", "-", "250a", "31"),
        ("obj", "default", "-", "3c3c2f41", "-"),
        ("obj", "default", "-", "5b", "5d"),
        ("content", "default", "-", "3b", "-"),
        ("content", "default", "-", "7d20", "71"),
        ("content", "default", "-", "29", "-"),
    ] {
        for n in [0usize, 1, 2, 7, 48] {
            cases.push(Case::new(format!("rep {} {} {} {} {} {}", kind, pre, pfx, unit, n, sfx), format!("rep {} shallow nt", kind)));
        }
        let deep: &[usize] = if tier == Tier::Quick { &[9000, 100000] } else { &[9000, 20000, 100000, 3000000] };
        for n in deep {
            cases.push(Case::new(format!("rep {} {} {} {} {} {}", kind, pre, pfx, unit, n, sfx), format!("rep {} deep nt", kind)));
        }
    }
    // content streams (exploration: only the crash class is judged)
    let n = if tier == Tier::Quick { 150 } else { 3000 };
    for _ in 0..n {
        let mut b = vec![];
        for _ in 0..1 + rng.below(10) {
            match rng.below(8) {
                0 => b.extend_from_slice(b"BT /F1 12 Tf (x) Tj ET "),
                1 => b.extend_from_slice(b"BI /W 1 /H 1 ID \x00\xff EI "),
                2 => b.extend(rand_token_bytes(rng, 2)),
                3 => b.extend_from_slice(b"; } { ) "),
                4 => b.extend_from_slice(small_or_bt(rng).to_string().as_bytes()),
                5 => b.extend_from_slice(b"q 1 0 0 1 0 0 cm Q "),
                6 => b.extend_from_slice(b"[(a) -120 (b)] TJ "),
                _ => b.extend(rng.bytes(3)),
            }
            b.push(b' ');
        }
        cases.push(Case::new(format!("content {}", hex(&b)), "content explore nt"));
    }
}

fn gen_xrs(rng: &mut Rng, tier: Tier, cases: &mut Vec<Case>) {
    let join = |v: &[i64]| if v.is_empty() { ".".to_string() } else { v.iter().map(|x| x.to_string()).collect::<Vec<_>>().join(",") };
    let n = if tier == Tier::Quick { 700 } else { 14000 };
    for i in 0..n {
        let wlen = if rng.chance(1, 12) { rng.below(5) as usize } else { 3 };
        let w: Vec<i64> = (0..wlen)
            .map(|_| match rng.below(10) {
                0 => bt(rng),
                1 => 9,
                2 => 8,
                3 => 0,
                _ => rng.range(0, 3),
            })
            .collect();
        let idx: Option<Vec<i64>> = if rng.chance(2, 3) {
            let k = rng.below(5) as usize;
            Some((0..k).map(|j| if j % 2 == 0 { if rng.chance(1, 3) { bt(rng) } else { rng.range(0, 5) } } else if rng.chance(1, 4) { bt(rng) } else { rng.range(0, 4) }).collect())
        } else {
            None
        };
        let size = if rng.chance(4, 5) { Some(if rng.chance(1, 4) { bt(rng) } else { rng.range(0, 6) }) } else { None };
        let es: i64 = w.iter().filter(|x| **x >= 0 && **x < 20).sum();
        let dl = if es > 0 && rng.chance(3, 4) { (es as usize) * rng.below(5) as usize + if rng.chance(1, 6) { 1 } else { 0 } } else { rng.below(12) as usize };
        let mut d = rng.bytes(dl);
        // make the type field small most of the time
        if es > 0 {
            let mut o = 0;
            while o < d.len() {
                if rng.chance(5, 6) {
                    let w0 = w[0].clamp(0, 20) as usize;
                    for j in 0..w0.min(d.len() - o) {
                        d[o + j] = if j + 1 == w0 { rng.below(4) as u8 } else { 0 };
                    }
                }
                o += es as usize;
            }
        }
        let req = format!("xrs {} {} {} {}", join(&w), idx.as_ref().map(|v| join(v)).unwrap_or("_".into()), size.map(|s| s.to_string()).unwrap_or("_".into()), hex(&d));
        cases.push(Case::new(req, format!("xrs {} nt", if i % 2 == 0 { "a" } else { "b" })));
    }
    // directed: first + i crossing 2^32, width sums crossing 2^64
    for (w, idx, d) in [
        ("1,1,1", "4294967295,2", vec![1u8, 0, 0, 1, 0, 0]),
        ("1,1,1", "4294967295,1", vec![1, 0, 0]),
        ("1,1,1", "4294967294,2", vec![1, 0, 0, 1, 0, 0]),
        ("1,1,1", "4294967295,2", vec![1, 0, 0]),
        ("-1,1,1", "0,1", vec![1, 0, 0]),
        ("-1,0,0", "0,1", vec![1, 0, 0]),
        ("-1,1,0", "0,1", vec![1, 0, 0]),
        ("9223372036854775807,9223372036854775807,2", "0,1", vec![1, 0, 0]),
        ("9223372036854775807,9223372036854775807,1", "0,1", vec![1, 0, 0]),
        ("9,9,9", "0,1", vec![0u8; 27]),
        ("9,1,1", "0,1", vec![1, 0, 0, 0, 0, 0, 0, 0, 1, 7, 7]),
        ("0,0,0", "0,1", vec![]),
        ("0,1,0", "0,3", vec![5, 6, 7]),
    ] {
        cases.push(Case::new(format!("xrs {} {} 10 {}", w, idx, hex(&d)), "xrs directed nt"));
    }
}

fn gen_xref(rng: &mut Rng, tier: Tier, cases: &mut Vec<Case>) {
    let n = if tier == Tier::Quick { 700 } else { 14000 };
    let entry = |rng: &mut Rng| -> Vec<u8> {
        match rng.below(16) {
            0 => b"0000000000 65535 f ".to_vec(),
            1 => b"17 0 n".to_vec(),
            2 => b"0000000017 00000n".to_vec(),
            3 => b"0000000017  00000  n".to_vec(),
            4 => b"000000000\xff 00000 n ".to_vec(),
            5 => b"0000000000\xff00000 n ".to_vec(),
            6 => b"0000000000 0000\xff n ".to_vec(),
            7 => b"00000000\xff\xff 00000 n ".to_vec(),
            8 => b"garbage line".to_vec(),
            9 => b"% comment".to_vec(),
            10 => b"0000000017 99999 n ".to_vec(),
            11 => b"18446744073709551616 00000 n ".to_vec(),
            12 => b"12 3 x".to_vec(),
            13 => b"12 f".to_vec(),
            14 => b"12".to_vec(),
            _ => format!("{:010} {:05} {} ", rng.below(100000), rng.below(3), if rng.chance(4, 5) { "n" } else { "f" }).into_bytes(),
        }
    };
    for i in 0..n {
        let mut lines: Vec<Vec<u8>> = vec![];
        let nsub = 1 + rng.below(3);
        for _ in 0..nsub {
            let first: String = match rng.below(8) {
                0 => "4294967295".into(),
                1 => "4294967294".into(),
                2 => bt(rng).to_string(),
                3 => "+3".into(),
                _ => rng.range(0, 20).to_string(),
            };
            let k = rng.below(4) as usize;
            let count: String = match rng.below(8) {
                0 => bt(rng).to_string(),
                1 => (k + 1).to_string(),
                2 => "4294967295".into(),
                _ => k.to_string(),
            };
            if rng.chance(1, 20) {
                lines.push(format!("{} {} 7", first, count).into_bytes());
            } else {
                lines.push(format!("{} {}", first, count).into_bytes());
            }
            for _ in 0..k {
                lines.push(entry(rng));
            }
            if rng.chance(1, 10) {
                lines.push(vec![]);
            }
        }
        let size: String = match rng.below(6) {
            0 => bt(rng).to_string(),
            1 => "4294967296".into(),
            2 => "0".into(),
            _ => "100000".into(),
        };
        // EOF inside the section is a hang (3 s + retry each): two directed cases in the quick tier
        // (below), one in thirty of the random ones in the thorough tier
        match if tier == Tier::Quick { 1 + rng.below(59) } else { rng.below(30) } {
            0 => {} // no trailer at all: EOF inside the section
            1 => lines.push(b"trailer".to_vec()),
            2 => lines.push(format!("<< /Size {} >>", size).into_bytes()),
            3 => lines.push(format!("trailer << /Size {} >>", size).into_bytes()),
            4 => {
                lines.push(b"trailer".to_vec());
                lines.push(b"<< /Root 1 0 R >>".to_vec());
            }
            5 => {
                lines.push(b"trailer".to_vec());
                lines.push(b"[ 1 2 ]".to_vec());
            }
            6 | 7 => lines.push(b"startxref".to_vec()),
            _ => {
                lines.push(b"trailer".to_vec());
                lines.push(format!("<< /Size {} /Root 1 0 R >>", size).into_bytes());
            }
        }
        let req = format!("xref {}", if lines.is_empty() { ".".into() } else { lines.iter().map(|l| hex(l)).collect::<Vec<_>>().join("/") });
        cases.push(Case::new(req, format!("xref {} nt", if i % 2 == 0 { "a" } else { "b" })));
    }
    for ls in [vec![&b"0 1"[..], b"0000000000 65535 f "], vec![&b"3 0"[..], b"% only a comment"]] {
        cases.push(Case::new(format!("xref {}", ls.iter().map(|l| hex(l)).collect::<Vec<_>>().join("/")), "xref eof-in-section nt"));
    }
}

fn gen_small(rng: &mut Rng, tier: Tier, cases: &mut Vec<Case>) {
    // object streams: /N, /First, offsets
    let n = if tier == Tier::Quick { 250 } else { 5000 };
    for _ in 0..n {
        let k = rng.below(4) as usize;
        let objs: Vec<Vec<u8>> = (0..k).map(|_| rand_token_bytes(rng, 2)).collect();
        let mut offs = vec![];
        let mut body = vec![];
        for o in &objs {
            offs.push(body.len() as i64);
            body.extend_from_slice(o);
            body.push(b' ');
        }
        let mut head = String::new();
        for (j, o) in offs.iter().enumerate() {
            let off = if rng.chance(1, 8) { bt(rng) } else { *o };
            let num = if rng.chance(1, 10) { bt(rng) } else { 10 + j as i64 };
            head.push_str(&format!("{} {} ", num, off));
        }
        let first = if rng.chance(1, 5) { bt(rng) } else { head.len() as i64 };
        let nn = if rng.chance(1, 6) { bt(rng) } else { k as i64 + if rng.chance(1, 10) { 1 } else { 0 } };
        let mut data = head.into_bytes();
        data.extend(body);
        cases.push(Case::new(format!("objstm {} {} {}", nn, first, hex(&data)), "objstm nt"));
    }
    for (n, first, d) in [("1", "4294967295", "10 1 true"), ("1", "4294967290", "10 6 true"), ("1", "4294967290", "10 5 true"), ("2", "1", "10 0 11 4294967295 1 2"), ("1", "-1", "10 1 1"), ("1", "-1", "10 0 1")] {
        cases.push(Case::new(format!("objstm {} {} {}", n, first, hex(d.as_bytes())), "objstm directed nt"));
    }
    // stream /Length
    for &l in BT.iter().chain([3i64, 4, 5, 1 << 20, 1 << 40, 1 << 50, 10_000_000_000_000].iter()) {
        for avail in [0usize, 4, 100] {
            cases.push(Case::new(format!("stmlen {} {}", l, avail), "stmlen nt"));
        }
    }
    // /Rotate composition
    for &r in BT.iter().chain([90i64, 180, 270, 360, 2147483557, 2147483558, -2147483648 + 4294967296].iter()) {
        for a in [0, 90, 180, 270] {
            cases.push(Case::new(format!("rot {} {}", r, a), "rot nt"));
        }
    }
    // CMap calculate_offset
    let m = if tier == Tier::Quick { 120 } else { 2000 };
    for _ in 0..m {
        let len = *rng.pick(&[1usize, 2, 2, 3, 4, 7, 8, 8, 9, 9, 10, 16]);
        let mut start = vec![0u8; len];
        let mut code = vec![0u8; len];
        match rng.below(4) {
            0 => {
                start = rng.bytes(len);
                code = start.clone();
                let l = len - 1;
                code[l] = code[l].saturating_add(rng.below(4) as u8);
            }
            1 => {
                code[0] = 1 + rng.below(255) as u8;
            }
            2 => {
                code[len - 1] = rng.next() as u8;
                if len > 8 {
                    code[len - 9] = rng.below(2) as u8;
                }
            }
            _ => {
                start[0] = rng.below(3) as u8;
                code = start.clone();
                code[len - 1] = 200;
            }
        }
        cases.push(Case::new(format!("cmapoff {} {}", hex(&code), hex(&start)), "cmapoff nt"));
    }
    // page labels
    for &s in BT.iter() {
        for o in [0u32, 1, 2, 4294967295] {
            cases.push(Case::new(format!("label {} {}", s, o), "label nt"));
        }
    }
    // RC4 key lengths
    for k in [0usize, 1, 5, 16, 32, 255, 256, 257] {
        cases.push(Case::new(format!("rc4 {}", hex(&rng.bytes(k))), "rc4 nt"));
    }
    // /Prev chains
    let m = if tier == Tier::Quick { 200 } else { 4000 };
    for _ in 0..m {
        let k = 1 + rng.below(6) as usize;
        let spec: Vec<String> = (0..k)
            .map(|_| match rng.below(10) {
                0 => "x".to_string(),
                1 => "h".to_string(),
                2 | 3 => "_".to_string(),
                _ => format!("p{}", rng.below(k as u64)),
            })
            .collect();
        cases.push(Case::new(format!("prev {} {}", rng.below(k as u64), spec.join(",")), "prev nt"));
    }
    // page trees
    for _ in 0..m {
        let k = 1 + rng.below(8) as usize;
        let kids = |rng: &mut Rng| -> String { (0..rng.below(4)).map(|_| rng.below(k as u64 + 2).to_string()).collect::<Vec<_>>().join(".") };
        let mut parts = vec![kids(rng)];
        for _ in 0..k {
            parts.push(match rng.below(6) {
                0 => "O".to_string(),
                1 | 2 => format!("N{}", kids(rng)),
                _ => "P".to_string(),
            });
        }
        cases.push(Case::new(format!("tree {}", parts.join(";")), "tree nt"));
    }
}

/// grammar-generated skeletons × boundary integers in every numeric slot × presets
fn gen_explore(rng: &mut Rng, tier: Tier, cases: &mut Vec<Case>) {
    let n = if tier == Tier::Quick { 160 } else { 4000 };
    for _ in 0..n {
        let slot = |rng: &mut Rng, normal: i64| -> String { if rng.chance(1, 7) { bt(rng).to_string() } else { normal.to_string() } };
        let content: Vec<u8> = match rng.below(5) {
            0 => b"BT /F1 12 Tf (Hello) Tj ET".to_vec(),
            1 => rep_bytes(b"", b";", 200, b" q Q"),
            2 => b"<~87cURD]j7BEbo80~>".to_vec(),
            3 => b"uuuuu~>".to_vec(),
            _ => b"q 1 0 0 1 0 0 cm Q".to_vec(),
        };
        let filt = match rng.below(6) {
            0 => " /Filter /ASCII85Decode".to_string(),
            1 => format!(" /Filter /FlateDecode /DecodeParms << /Predictor {} /Columns {} /Colors {} /BitsPerComponent {} >>", slot(rng, 12), slot(rng, 3), slot(rng, 1), slot(rng, 8)),
            2 => " /Filter [/ASCIIHexDecode /ASCII85Decode]".to_string(),
            3 => format!(" /Filter /LZWDecode /DecodeParms << /EarlyChange {} >>", slot(rng, 1)),
            _ => String::new(),
        };
        let mut c5 = format!("<< /Length {}{} >>\nstream\n", slot(rng, content.len() as i64), filt).into_bytes();
        c5.extend_from_slice(&content);
        c5.extend_from_slice(b"\nendstream");
        let kids = match rng.below(6) {
            0 => "[3 0 R 3 0 R]".to_string(),
            1 => "[2 0 R]".to_string(),
            2 => "[3 0 R 6 0 R]".to_string(),
            3 => "[99 0 R]".to_string(),
            _ => "[3 0 R]".to_string(),
        };
        let objs = vec![
            (1u32, b"<< /Type /Catalog /Pages 2 0 R >>".to_vec()),
            (2, format!("<< /Type /Pages /Kids {} /Count {} >>", kids, slot(rng, 1)).into_bytes()),
            (
                3,
                format!(
                    "<< /Type /Page /Parent 2 0 R /MediaBox [0 0 {} {}] /Rotate {} /Contents 5 0 R /Resources << /Font << /F1 4 0 R >> >> >>",
                    slot(rng, 612),
                    slot(rng, 792),
                    slot(rng, 0)
                )
                .into_bytes(),
            ),
            (4, b"<< /Type /Font /Subtype /Type1 /BaseFont /Helvetica >>".to_vec()),
            (5, c5),
            (6, format!("<< /Type /Pages /Parent 2 0 R /Kids [6 0 R 3 0 R 2 0 R] /Count {} >>", slot(rng, 2)).into_bytes()),
        ];
        let extra = match rng.below(5) {
            0 => format!("/Prev {}", slot(rng, 0)),
            1 => "/Prev 9".to_string(),
            _ => String::new(),
        };
        let size = if rng.chance(1, 6) { bt(rng) } else { 7 };
        let mut bytes = Pdf { objs }.classic(&extra, size);
        if rng.chance(1, 5) {
            for _ in 0..1 + rng.below(3) {
                let k = rng.below(bytes.len() as u64) as usize;
                bytes[k] = rng.next() as u8;
            }
        }
        if rng.chance(1, 12) {
            let l = rng.below(bytes.len() as u64) as usize;
            bytes.truncate(l);
        }
        let h = hex(&bytes);
        for pre in PRESETS {
            cases.push(Case::new(format!("explore {} {}", pre, h), format!("explore skeleton {} nt", pre)));
        }
    }
    // mutations of real files
    let mut files: Vec<String> = vec![];
    let root = std::env::var("VERIF_REPO").unwrap_or_else(|_| "/repo".into());
    for sub in ["oxidize-pdf-core/tests/fixtures", "test-pdfs", "oxidize-pdf-core/tests/fixtures/fuzz-regressions"] {
        let dir = format!("{}/{}", root, sub);
        if let Ok(rd) = std::fs::read_dir(&dir) {
            let mut v: Vec<_> = rd.filter_map(|e| e.ok()).map(|e| e.path()).collect();
            v.sort();
            for p in v {
                let okext = p.extension().map(|e| e == "pdf" || e == "bin").unwrap_or(false);
                let small = std::fs::metadata(&p).map(|m| m.len() > 0 && m.len() < 20_000).unwrap_or(false);
                let s = p.to_string_lossy().to_string();
                if okext && small && !s.contains(' ') {
                    files.push(s);
                }
            }
        }
    }
    let m = if tier == Tier::Quick { 120 } else { 3000 };
    if !files.is_empty() {
        for i in 0..m {
            let f = &files[rng.below(files.len() as u64) as usize];
            let len = std::fs::metadata(f).map(|m| m.len()).unwrap_or(1).max(1);
            let nm = rng.below(3);
            let muts: Vec<String> = (0..nm)
                .map(|_| match rng.below(4) {
                    0 => format!("b{}={:02x}", rng.below(len), rng.next() as u8),
                    1 => format!("t{}", rng.below(len)),
                    _ => format!("n{}={}", rng.below(60), bt(rng)),
                })
                .collect();
            let pre = PRESETS[i % 5];
            cases.push(Case::new(format!("xfile {} {} {}", pre, f, if muts.is_empty() { ".".into() } else { muts.join("+") }), format!("explore file {} nt", pre)));
        }
    }
}

fn gen(rng: &mut Rng, tier: Tier) -> Vec<Case> {
    let mut cases = vec![];
    gen_a85(rng, tier, &mut cases);
    gen_pred(rng, tier, &mut cases);
    gen_lex_obj(rng, tier, &mut cases);
    gen_xrs(rng, tier, &mut cases);
    gen_xref(rng, tier, &mut cases);
    gen_small(rng, tier, &mut cases);
    gen_explore(rng, tier, &mut cases);
    cases
}

fn limits() -> Limits {
    Limits { per_case: std::time::Duration::from_secs(4), rlimit_as: 4 << 30, stack: 8 << 20 }
}

/// Same command line and output as `harness_main`; `emit` spreads the isolated children over a few
/// threads (requests are independent, the output keeps the generated order).
fn main() {
    // an allocation failure aborts through `handle_alloc_error`; symbolising a backtrace for it in a
    // debug binary costs a second per case
    std::env::set_var("RUST_BACKTRACE", "0");
    let args: Vec<String> = std::env::args().collect();
    let is_emit = args.get(1).map(|s| s == "emit").unwrap_or(false);
    if !is_emit || args.iter().any(|a| a == "--child") {
        harness_main(gen, run, limits());
        return;
    }
    let arg = |n: &str| args.iter().position(|a| a == n).and_then(|i| args.get(i + 1).cloned());
    let out = arg("--out").unwrap_or_else(|| ".".into());
    std::fs::create_dir_all(&out).expect("out dir");
    let seed: u64 = arg("--seed").and_then(|s| s.parse().ok()).unwrap_or(0);
    let tier = if arg("--tier").as_deref() == Some("thorough") { Tier::Thorough } else { Tier::Quick };
    let mut cases: Vec<Case> = vec![];
    if let Some(c) = arg("--corpus") {
        let mut files: Vec<_> = std::fs::read_dir(&c).map(|d| d.filter_map(|e| e.ok().map(|e| e.path())).collect()).unwrap_or_default();
        files.sort();
        for f in files {
            if f.extension().map(|e| e == "req").unwrap_or(false) {
                if let Ok(text) = std::fs::read_to_string(&f) {
                    for l in text.lines() {
                        let l = l.trim_end();
                        if l.is_empty() || l.starts_with('#') {
                            continue;
                        }
                        cases.push(Case::new(l.split('\t').next().unwrap_or(""), "corpus nt"));
                    }
                }
            }
        }
    }
    let mut rng = Rng::new(seed);
    cases.extend(gen(&mut rng, tier));
    // A panic raised inside std is attributed to the innermost crate frame by symbolising a
    // backtrace in the worker; the first symbolisation after a build reads the whole debug info
    // from disk, which on a loaded machine can outlast a request's budget.  Do it once here so
    // that the workers find it in the page cache.
    let _ = std::backtrace::Backtrace::force_capture().to_string();
    let clean = |s: &str| s.replace(['\t', '\n', '\r'], " ");
    let reqs: Vec<String> = cases.iter().map(|c| clean(&c.req)).collect();
    let nthreads: usize = std::env::var("C01_THREADS").ok().and_then(|s| s.parse().ok()).unwrap_or(8).max(1);
    let mut answers: Vec<String> = vec![String::new(); reqs.len()];
    let chunks: Vec<Vec<(usize, String)>> = (0..nthreads).map(|t| reqs.iter().enumerate().filter(|(i, _)| i % nthreads == t).map(|(i, r)| (i, r.clone())).collect()).collect();
    let handles: Vec<_> = chunks
        .into_iter()
        .map(|ch| {
            std::thread::spawn(move || {
                let rs: Vec<String> = ch.iter().map(|(_, r)| r.clone()).collect();
                let ans = run_isolated(&rs, &limits());
                ch.into_iter().map(|(i, _)| i).zip(ans).collect::<Vec<_>>()
            })
        })
        .collect();
    for h in handles {
        for (i, a) in h.join().expect("worker thread") {
            answers[i] = a;
        }
    }
    // A `timeout` must be a hang, not a stall of the (shared, loaded) machine: every timed-out
    // request is run once more, alone in a fresh child, with three times the budget.
    let again: Vec<usize> = (0..reqs.len()).filter(|i| answers[*i] == "timeout").collect();
    // all retries at once (a hang burns its whole budget; there are only a handful)
    let rthreads = again.len().clamp(1, 12);
    let hs: Vec<_> = (0..rthreads)
        .map(|t| {
            let mine: Vec<(usize, String)> = again.iter().enumerate().filter(|(j, _)| j % rthreads == t).map(|(_, i)| (*i, reqs[*i].clone())).collect();
            std::thread::spawn(move || {
                let mut l = limits();
                l.per_case *= 3;
                mine.into_iter().map(|(i, r)| (i, run_isolated(&[r], &l).pop().unwrap_or_else(|| "timeout".into()))).collect::<Vec<_>>()
            })
        })
        .collect();
    for h in hs {
        for (i, a) in h.join().expect("retry thread") {
            answers[i] = a;
        }
    }
    use std::io::Write;
    let mut f = std::io::BufWriter::new(std::fs::File::create(std::path::Path::new(&out).join("cases.tsv")).expect("cases.tsv"));
    for ((req, ans), c) in reqs.iter().zip(answers.iter()).zip(cases.iter()) {
        writeln!(f, "{}\t{}\t{}", req, ans, clean(&c.tags)).unwrap();
    }
    f.flush().unwrap();
}
