//! C06 — encrypted files interoperate with an independent implementation.
//!
//! The independent implementation is the Lean reference reader (Spec/C06Reader.lean, built on
//! Spec/Crypto*.lean only) plus, for the producing side, the encoder in `c06_enc/` (own RC4/AES,
//! `md5`/`sha2` crates), whose every output the Lean reader checks as well.
//!
//! `lib <strength> <cfg> <user> <owner> <perm> <title> <author> <texts> <annot>`
//!     the REAL library writes the document encrypted and plain; IMPL = the library's own raw
//!     view of the encrypted file (user pw | owner pw | wrong pw) `# <enc-file-hex> <plain-file-hex>`;
//!     the Lean reader decrypts the encrypted file and compares with the plain build.
//! `ind <scheme> <flags> <user> <owner> <perm> <title> <author> <texts> <annot> <seed>`
//!     the independent encoder writes an encrypted file; IMPL = the REAL library's raw view of
//!     it (user pw | owner pw | wrong pw) `# <enc-file-hex>`; the Lean reader reads it too.
//!     scheme: rc4_40 (V1 R2) rc4_128 (V2 R3) rc4_128v4 (V4 R4 /V2) aes_128 (V4 R4 /AESV2)
//!             aes_256 (V5 R6) aes_256r5 (V5 R5)
//!     flags : m = /EncryptMetadata false   x = XMP metadata stream present
//!             o = object stream + xref stream   d = a string inside a stream dictionary
//!             l = literal strings (default: hexadecimal strings)
//!
//! view: `<unlock> k=<key> p=<P as u32> t=<title> a=<author> n=<annot strings> s=<md5 of raw
//!        content streams> x=<md5 of the raw metadata stream> d=<string in the content stream dict>`
#[path = "c05_common/mod.rs"]
mod common;
#[path = "c06_enc/mod.rs"]
mod enc;
use enc::*;
use oxidize_pdf::parser::{PdfDictionary, PdfObject, PdfReader};
use oxiharness::*;
use std::io::Cursor;

// ───────────────────────── the library's raw view of a file ─────────────────────────

fn hexraw(b: &[u8]) -> String {
    b.iter().map(|x| format!("{:02x}", x)).collect()
}

fn md5hex(d: &[u8]) -> String {
    format!("{:x}", md5::compute(d))
}

fn hexs(b: &[u8]) -> String {
    if b.is_empty() {
        "-".into()
    } else {
        hex(b)
    }
}

fn dict_strings(d: &PdfDictionary) -> String {
    let mut v: Vec<String> = d
        .0
        .iter()
        .filter_map(|(k, o)| match o {
            PdfObject::String(s) => Some(format!("{}:{}", k.0, hexs(s.as_bytes()))),
            _ => None,
        })
        .collect();
    v.sort();
    v.join(",")
}

fn get<R: std::io::Read + std::io::Seek>(r: &mut PdfReader<R>, o: &PdfObject) -> Option<PdfObject> {
    match o {
        PdfObject::Reference(n, g) => r.get_object(*n, *g).ok().cloned(),
        other => Some(other.clone()),
    }
}

fn refs_of<R: std::io::Read + std::io::Seek>(r: &mut PdfReader<R>, o: Option<&PdfObject>) -> Vec<PdfObject> {
    match o {
        None => vec![],
        Some(PdfObject::Array(a)) => a.0.clone(),
        Some(PdfObject::Reference(n, g)) => match r.get_object(*n, *g).ok().cloned() {
            Some(PdfObject::Array(a)) => a.0.clone(),
            _ => vec![PdfObject::Reference(*n, *g)],
        },
        Some(x) => vec![x.clone()],
    }
}

/// what the library returns for the raw objects of the file after `unlock_with_password(pw)`
fn lib_view(bytes: &[u8], pw: &str) -> String {
    let mut r = match PdfReader::new(Cursor::new(bytes.to_vec())) {
        Ok(r) => r,
        Err(_) => return "err:open".into(),
    };
    if !r.is_encrypted() {
        return "notenc".into();
    }
    match r.unlock_with_password(pw) {
        Ok(true) => {}
        Ok(false) => return "refused".into(),
        Err(_) => return "err:unlock".into(),
    }
    let (key, perm) = match r.encryption_handler() {
        Some(h) => (
            h.encryption_key().map(|k| hex(k.as_bytes())).unwrap_or_else(|| "none".into()),
            h.permissions().bits().to_string(),
        ),
        None => ("none".into(), "-".into()),
    };
    let (t, a) = match r.info() {
        Ok(Some(d)) => {
            let f = |k: &str| match d.get(k) {
                Some(PdfObject::String(s)) => hexs(s.as_bytes()),
                Some(_) => "nostr".into(),
                None => "none".into(),
            };
            (f("Title"), f("Author"))
        }
        Ok(None) => ("noinfo".into(), "noinfo".into()),
        Err(_) => ("err".into(), "err".into()),
    };
    let cat = match r.catalog() {
        Ok(c) => c.clone(),
        Err(_) => return format!("ok k={} p={} t={} a={} n=err s=err x=err d=err", key, perm, t, a),
    };
    let x = match cat.get("Metadata") {
        None => "none".to_string(),
        Some(o) => match get(&mut r, o) {
            Some(PdfObject::Stream(s)) => md5hex(&s.data),
            _ => "err".into(),
        },
    };
    let mut ns = Vec::new();
    let mut ss = Vec::new();
    let mut ds = Vec::new();
    let pages = cat.get("Pages").and_then(|o| get(&mut r, o));
    let kids = match &pages {
        Some(PdfObject::Dictionary(d)) => refs_of(&mut r, d.get("Kids")),
        _ => vec![],
    };
    if kids.is_empty() {
        ns.push("err".to_string());
    }
    for k in kids {
        let page = match get(&mut r, &k) {
            Some(PdfObject::Dictionary(d)) => d,
            _ => {
                ns.push("err".into());
                ss.push("err".into());
                continue;
            }
        };
        let mut an = Vec::new();
        for a in refs_of(&mut r, page.get("Annots")) {
            match get(&mut r, &a) {
                Some(PdfObject::Dictionary(d)) => an.push(dict_strings(&d)),
                _ => an.push("err".into()),
            }
        }
        ns.push(an.join(";"));
        let mut cs = Vec::new();
        for c in refs_of(&mut r, page.get("Contents")) {
            match get(&mut r, &c) {
                Some(PdfObject::Stream(s)) => {
                    cs.push(md5hex(&s.data));
                    let d = dict_strings(&s.dict);
                    if !d.is_empty() {
                        ds.push(d);
                    }
                }
                _ => cs.push("err".into()),
            }
        }
        ss.push(cs.join("+"));
    }
    let nz = |v: Vec<String>| if v.iter().all(|s| s.is_empty()) { "-".to_string() } else { v.join("/") };
    format!("ok k={} p={} t={} a={} n={} s={} x={} d={}", key, perm, t, a, nz(ns), nz(ss), x, nz(ds))
}

/// a password that is neither (generated passwords never contain 0x01)
fn wrong_pw(_user: &str, _owner: &str) -> String {
    "\u{1}#wrong#\u{1}".to_string()
}

fn pw(h: &str) -> Option<String> {
    String::from_utf8(unhex(h)?).ok()
}

// ───────────────────────── direction (a): the library writes ─────────────────────────

fn run_lib(f: &[&str]) -> Option<String> {
    let strength = *f.get(1)?;
    let cfg = *f.get(2)?;
    let user = pw(f.get(3)?)?;
    let owner = pw(f.get(4)?)?;
    let perm: u32 = f.get(5)?.parse().ok()?;
    let spec = common_spec(&f[6..])?;
    let plain = match common::write(&spec, cfg, None) {
        Ok(b) => b,
        Err(e) => return Some(format!("err:plain-{}", e)),
    };
    let encd = match common::write(&spec, cfg, Some((strength, &user, &owner, perm))) {
        Ok(b) => b,
        Err(e) => return Some(format!("err:enc-{}", e)),
    };
    if encd.len() > 200_000 {
        return Some("err:too-large".into());
    }
    Some(format!(
        "u[{}] o[{}] w[{}] # {} {}",
        lib_view(&encd, &user),
        lib_view(&encd, &owner),
        lib_view(&encd, &wrong_pw(&user, &owner)),
        hex(&encd),
        hex(&plain)
    ))
}

fn common_spec(f: &[&str]) -> Option<common::DocSpec> {
    let title = pw(f.first()?)?;
    let author = pw(f.get(1)?)?;
    let texts: Option<Vec<String>> = f.get(2)?.split(',').map(pw).collect();
    let annot = if *f.get(3)? == "-" {
        vec![]
    } else {
        f[3].split(',')
            .map(|kv| {
                let (k, v) = kv.split_once(':')?;
                Some((k.to_string(), pw(v)?))
            })
            .collect::<Option<Vec<_>>>()?
    };
    Some(common::DocSpec { title, author, texts: texts?, annot })
}

// ───────────────────────── direction (b): the independent encoder writes ─────────────────────────

#[derive(Clone)]
enum O {
    Int(i64),
    Name(&'static str),
    Str(Vec<u8>),
    Ref(u32),
    Arr(Vec<O>),
    Dict(Vec<(String, O)>),
    Bool(bool),
}

fn d(e: Vec<(&str, O)>) -> O {
    O::Dict(e.into_iter().map(|(k, v)| (k.to_string(), v)).collect())
}

struct Ser {
    literal: bool,
}

impl Ser {
    fn string(&self, b: &[u8], out: &mut Vec<u8>) {
        if self.literal {
            out.push(b'(');
            for &c in b {
                match c {
                    b'(' | b')' | b'\\' => {
                        out.push(b'\\');
                        out.push(c);
                    }
                    0x20..=0x7E => out.push(c),
                    _ => out.extend_from_slice(format!("\\{:03o}", c).as_bytes()),
                }
            }
            out.push(b')');
        } else {
            out.push(b'<');
            out.extend_from_slice(hexraw(b).as_bytes());
            out.push(b'>');
        }
    }
    fn obj(&self, o: &O, out: &mut Vec<u8>) {
        match o {
            O::Int(i) => out.extend_from_slice(i.to_string().as_bytes()),
            O::Bool(b) => out.extend_from_slice(if *b { b"true" } else { b"false" }),
            O::Name(n) => {
                out.push(b'/');
                out.extend_from_slice(n.as_bytes())
            }
            O::Str(b) => self.string(b, out),
            O::Ref(n) => out.extend_from_slice(format!("{} 0 R", n).as_bytes()),
            O::Arr(a) => {
                out.push(b'[');
                for (i, x) in a.iter().enumerate() {
                    if i > 0 {
                        out.push(b' ');
                    }
                    self.obj(x, out);
                }
                out.push(b']');
            }
            O::Dict(e) => {
                out.extend_from_slice(b"<<");
                for (k, v) in e {
                    out.push(b'/');
                    out.extend_from_slice(k.as_bytes());
                    out.push(b' ');
                    self.obj(v, out);
                    out.push(b' ');
                }
                out.extend_from_slice(b">>");
            }
        }
    }
}

/// encrypt every string of a (non-stream) object value
fn enc_obj(o: &O, f: &mut dyn FnMut(&[u8]) -> Vec<u8>) -> O {
    match o {
        O::Str(b) => O::Str(f(b)),
        O::Arr(a) => O::Arr(a.iter().map(|x| enc_obj(x, f)).collect()),
        O::Dict(e) => O::Dict(e.iter().map(|(k, v)| (k.clone(), enc_obj(v, f))).collect()),
        x => x.clone(),
    }
}

struct Body {
    num: u32,
    val: O,
    stream: Option<Vec<u8>>,
    /// never encrypted (the /Encrypt dictionary, the xref stream, clear metadata)
    clear: bool,
}

struct Scheme {
    v: i64,
    r: u32,
    n: usize,
    cfm: Cfm,
    cfm_name: Option<&'static str>,
}

fn scheme_of(s: &str) -> Option<Scheme> {
    Some(match s {
        "rc4_40" => Scheme { v: 1, r: 2, n: 5, cfm: Cfm::Rc4, cfm_name: None },
        "rc4_128" => Scheme { v: 2, r: 3, n: 16, cfm: Cfm::Rc4, cfm_name: None },
        "rc4_128v4" => Scheme { v: 4, r: 4, n: 16, cfm: Cfm::Rc4, cfm_name: Some("V2") },
        "aes_128" => Scheme { v: 4, r: 4, n: 16, cfm: Cfm::AesV2, cfm_name: Some("AESV2") },
        "aes_256" => Scheme { v: 5, r: 6, n: 32, cfm: Cfm::AesV3, cfm_name: Some("AESV3") },
        "aes_256r5" => Scheme { v: 5, r: 5, n: 32, cfm: Cfm::AesV3, cfm_name: Some("AESV3") },
        _ => return None,
    })
}

fn xmp(title: &[u8]) -> Vec<u8> {
    let mut v = b"<?xpacket begin='' id='W5M0MpCehiHzreSzNTczkc9d'?><x:xmpmeta xmlns:x='adobe:ns:meta/'><t>".to_vec();
    v.extend_from_slice(hexraw(title).as_bytes());
    v.extend_from_slice(b"</t></x:xmpmeta><?xpacket end='r'?>");
    v
}

fn content_of(text: &[u8]) -> Vec<u8> {
    let mut v = b"BT /F1 12 Tf 50 700 Td <".to_vec();
    v.extend_from_slice(hexraw(text).as_bytes());
    v.extend_from_slice(b"> Tj ET");
    v
}

pub struct IndDoc {
    pub title: Vec<u8>,
    pub author: Vec<u8>,
    pub texts: Vec<Vec<u8>>,
    pub annot: Vec<(String, Vec<u8>)>,
}

/// build the encrypted file
fn encode(sch: &Scheme, flags: &str, user: &[u8], owner: &[u8], perm: u32, doc: &IndDoc, rng: &mut Rng) -> Vec<u8> {
    let em = !flags.contains('m');
    let with_xmp = flags.contains('x');
    let objstm = flags.contains('o');
    let dict_str = flags.contains('d');
    let ser = Ser { literal: flags.contains('l') };
    // ── plain objects ──
    let np = doc.texts.len() as u32;
    // numbering: 1 catalog, 2 pages, 3 info, 4 font, 5 annot, 6 metadata, 7 encrypt,
    //            8.. page i = 8+2i, content i = 9+2i; then objstm, xref stream
    let page_id = |i: u32| 8 + 2 * i;
    let cont_id = |i: u32| 9 + 2 * i;
    let mut bodies: Vec<Body> = Vec::new();
    let mut cat = vec![("Type", O::Name("Catalog")), ("Pages", O::Ref(2))];
    if with_xmp {
        cat.push(("Metadata", O::Ref(6)));
    }
    bodies.push(Body { num: 1, val: d(cat), stream: None, clear: false });
    bodies.push(Body {
        num: 2,
        val: d(vec![
            ("Type", O::Name("Pages")),
            ("Kids", O::Arr((0..np).map(|i| O::Ref(page_id(i))).collect())),
            ("Count", O::Int(np as i64)),
        ]),
        stream: None,
        clear: false,
    });
    bodies.push(Body {
        num: 3,
        val: d(vec![("Title", O::Str(doc.title.clone())), ("Author", O::Str(doc.author.clone()))]),
        stream: None,
        clear: false,
    });
    bodies.push(Body {
        num: 4,
        val: d(vec![("Type", O::Name("Font")), ("Subtype", O::Name("Type1")), ("BaseFont", O::Name("Helvetica"))]),
        stream: None,
        clear: false,
    });
    if !doc.annot.is_empty() {
        let mut e: Vec<(String, O)> = vec![
            ("Type".into(), O::Name("Annot")),
            ("Subtype".into(), O::Name("Text")),
            ("Rect".into(), O::Arr(vec![O::Int(10), O::Int(10), O::Int(30), O::Int(30)])),
        ];
        for (k, v) in &doc.annot {
            e.push((k.clone(), O::Str(v.clone())));
        }
        bodies.push(Body { num: 5, val: O::Dict(e), stream: None, clear: false });
    }
    if with_xmp {
        bodies.push(Body {
            num: 6,
            val: d(vec![("Type", O::Name("Metadata")), ("Subtype", O::Name("XML"))]),
            stream: Some(xmp(&doc.title)),
            clear: !em,
        });
    }
    for i in 0..np {
        let mut pg = vec![
            ("Type", O::Name("Page")),
            ("Parent", O::Ref(2)),
            ("MediaBox", O::Arr(vec![O::Int(0), O::Int(0), O::Int(612), O::Int(792)])),
            ("Contents", O::Ref(cont_id(i))),
            ("Resources", d(vec![("Font", d(vec![("F1", O::Ref(4))]))])),
        ];
        if i == 0 && !doc.annot.is_empty() {
            pg.push(("Annots", O::Arr(vec![O::Ref(5)])));
        }
        bodies.push(Body { num: page_id(i), val: d(pg), stream: None, clear: false });
        let mut cd = vec![];
        if dict_str && i == 0 {
            cd.push(("Note", O::Str(doc.author.clone())));
        }
        bodies.push(Body { num: cont_id(i), val: d(cd), stream: Some(content_of(&doc.texts[i as usize])), clear: false });
    }
    // ── security handler entries ──
    let id0 = rng.bytes(16);
    let mut ed: Vec<(&str, O)> = vec![("Filter", O::Name("Standard")), ("V", O::Int(sch.v)), ("R", O::Int(sch.r as i64))];
    let file_key: Vec<u8>;
    if sch.r <= 4 {
        let o = alg3(sch.r, sch.n, owner, user);
        file_key = alg2(sch.r, sch.n, user, &o, perm, &id0, em);
        let u = alg45(sch.r, &file_key, &id0, &rng.bytes(16));
        if sch.v >= 2 {
            ed.push(("Length", O::Int(sch.n as i64 * 8)));
        }
        ed.push(("O", O::Str(o)));
        ed.push(("U", O::Str(u)));
    } else {
        file_key = rng.bytes(32);
        let e = r56_entries(sch.r, user, owner, &file_key, perm, em, &rng.bytes(32), &rng.bytes(4));
        ed.push(("Length", O::Int(256)));
        ed.push(("O", O::Str(e.o)));
        ed.push(("U", O::Str(e.u)));
        ed.push(("OE", O::Str(e.oe)));
        ed.push(("UE", O::Str(e.ue)));
        ed.push(("Perms", O::Str(e.perms)));
    }
    ed.push(("P", O::Int(perm as i32 as i64)));
    if let Some(name) = sch.cfm_name {
        ed.push((
            "CF",
            d(vec![(
                "StdCF",
                d(vec![("AuthEvent", O::Name("DocOpen")), ("CFM", O::Name(name)), ("Length", O::Int(sch.n as i64))]),
            )]),
        ));
        ed.push(("StmF", O::Name("StdCF")));
        ed.push(("StrF", O::Name("StdCF")));
    }
    if !em && sch.v >= 4 {
        ed.push(("EncryptMetadata", O::Bool(false)));
    }
    bodies.push(Body { num: 7, val: d(ed), stream: None, clear: true });
    bodies.sort_by_key(|b| b.num);
    let max_plain = bodies.iter().map(|b| b.num).max().unwrap();
    // ── serialise ──
    let mut out: Vec<u8> = if objstm { b"%PDF-1.7\n%\xE2\xE3\xCF\xD3\n".to_vec() } else { b"%PDF-1.6\n%\xE2\xE3\xCF\xD3\n".to_vec() };
    let mut offsets: Vec<(u32, usize)> = Vec::new();
    let mut compressed: Vec<(u32, usize)> = Vec::new(); // (num, index in the object stream)
    let objstm_id = max_plain + 1;
    let xref_id = max_plain + 2;
    let mut ostm_index: Vec<u8> = Vec::new();
    let mut ostm_data: Vec<u8> = Vec::new();
    let write_indirect = |out: &mut Vec<u8>, offsets: &mut Vec<(u32, usize)>, num: u32, dict: &O, stream: Option<&[u8]>| {
        offsets.push((num, out.len()));
        out.extend_from_slice(format!("{} 0 obj\n", num).as_bytes());
        match stream {
            None => ser.obj(dict, out),
            Some(data) => {
                let mut e = match dict {
                    O::Dict(e) => e.clone(),
                    _ => vec![],
                };
                e.push(("Length".into(), O::Int(data.len() as i64)));
                ser.obj(&O::Dict(e), out);
                out.extend_from_slice(b"\nstream\n");
                out.extend_from_slice(data);
                out.extend_from_slice(b"\nendstream");
            }
        }
        out.extend_from_slice(b"\nendobj\n");
    };
    for b in &bodies {
        let in_objstm = objstm && b.stream.is_none() && b.num != 7;
        if in_objstm {
            // §7.5.7: strings inside an object stream are NOT encrypted individually
            ostm_index.extend_from_slice(format!("{} {} ", b.num, ostm_data.len()).as_bytes());
            compressed.push((b.num, compressed.len()));
            ser.obj(&b.val, &mut ostm_data);
            ostm_data.push(b'\n');
            continue;
        }
        let (val, stream) = if b.clear {
            (b.val.clone(), b.stream.clone())
        } else {
            let num = b.num;
            let mut f = |s: &[u8]| encrypt_data(sch.cfm, &file_key, num, 0, &rng.bytes(16), s);
            let v = enc_obj(&b.val, &mut f);
            let st = b.stream.as_ref().map(|s| f(s));
            (v, st)
        };
        write_indirect(&mut out, &mut offsets, b.num, &val, stream.as_deref());
    }
    if objstm {
        let first = ostm_index.len();
        let mut data = ostm_index.clone();
        data.extend_from_slice(&ostm_data);
        let enc_data = encrypt_data(sch.cfm, &file_key, objstm_id, 0, &rng.bytes(16), &data);
        let dict = d(vec![("Type", O::Name("ObjStm")), ("N", O::Int(compressed.len() as i64)), ("First", O::Int(first as i64))]);
        write_indirect(&mut out, &mut offsets, objstm_id, &dict, Some(&enc_data));
        // xref stream (never encrypted), /W [1 3 1]
        let xpos = out.len();
        let size = xref_id + 1;
        let mut rows: Vec<u8> = Vec::new();
        for n in 0..size {
            let (t, a, b2): (u8, usize, u8) = if n == 0 {
                (0, 0, 255)
            } else if n == xref_id {
                (1, xpos, 0)
            } else if let Some((_, idx)) = compressed.iter().find(|(m, _)| *m == n) {
                (2, objstm_id as usize, *idx as u8)
            } else if let Some((_, off)) = offsets.iter().find(|(m, _)| *m == n) {
                (1, *off, 0)
            } else {
                (0, 0, 0)
            };
            rows.push(t);
            rows.extend_from_slice(&(a as u32).to_be_bytes()[1..]);
            rows.push(b2);
        }
        let dict = d(vec![
            ("Type", O::Name("XRef")),
            ("Size", O::Int(size as i64)),
            ("W", O::Arr(vec![O::Int(1), O::Int(3), O::Int(1)])),
            ("Root", O::Ref(1)),
            ("Info", O::Ref(3)),
            ("Encrypt", O::Ref(7)),
            ("ID", O::Arr(vec![O::Str(id0.clone()), O::Str(id0.clone())])),
        ]);
        let mut dummy = Vec::new();
        write_indirect(&mut out, &mut dummy, xref_id, &dict, Some(&rows));
        out.extend_from_slice(format!("startxref\n{}\n%%EOF\n", xpos).as_bytes());
    } else {
        let xpos = out.len();
        let size = max_plain + 1;
        out.extend_from_slice(format!("xref\n0 {}\n", size).as_bytes());
        for n in 0..size {
            if n == 0 {
                out.extend_from_slice(b"0000000000 65535 f \n");
            } else if let Some((_, off)) = offsets.iter().find(|(m, _)| *m == n) {
                out.extend_from_slice(format!("{:010} 00000 n \n", off).as_bytes());
            } else {
                out.extend_from_slice(b"0000000000 00000 f \n");
            }
        }
        out.extend_from_slice(b"trailer\n");
        let tr = d(vec![
            ("Size", O::Int(size as i64)),
            ("Root", O::Ref(1)),
            ("Info", O::Ref(3)),
            ("Encrypt", O::Ref(7)),
            ("ID", O::Arr(vec![O::Str(id0.clone()), O::Str(id0.clone())])),
        ]);
        ser.obj(&tr, &mut out);
        out.extend_from_slice(format!("\nstartxref\n{}\n%%EOF\n", xpos).as_bytes());
    }
    out
}

fn run_ind(f: &[&str]) -> Option<String> {
    let sch = scheme_of(f.get(1)?)?;
    let flags = *f.get(2)?;
    let user = pw(f.get(3)?)?;
    let owner = pw(f.get(4)?)?;
    let perm: u32 = f.get(5)?.parse().ok()?;
    let title = unhex(f.get(6)?)?;
    let author = unhex(f.get(7)?)?;
    let texts: Option<Vec<Vec<u8>>> = f.get(8)?.split(',').map(unhex).collect();
    let annot = if *f.get(9)? == "-" {
        vec![]
    } else {
        f[9].split(',')
            .map(|kv| {
                let (k, v) = kv.split_once(':')?;
                Some((k.to_string(), unhex(v)?))
            })
            .collect::<Option<Vec<_>>>()?
    };
    let seed: u64 = f.get(10)?.parse().ok()?;
    let doc = IndDoc { title, author, texts: texts?, annot };
    let mut rng = Rng::new(seed);
    let file = encode(&sch, flags, user.as_bytes(), owner.as_bytes(), perm, &doc, &mut rng);
    Some(format!(
        "u[{}] o[{}] w[{}] # {}",
        lib_view(&file, &user),
        lib_view(&file, &owner),
        lib_view(&file, &wrong_pw(&user, &owner)),
        hex(&file)
    ))
}

fn run(req: &str) -> String {
    let f: Vec<&str> = req.split(' ').collect();
    let r = match f[0] {
        "lib" => run_lib(&f),
        "ind" => run_ind(&f),
        _ => None,
    };
    r.unwrap_or_else(|| "bad-request".into())
}

// ───────────────────────── generator ─────────────────────────

const NON_ASCII: &[&str] = &["é", "ñ", "ü", "€", "ж", "日本", "✓", "Å"];

fn rand_pw(rng: &mut Rng, class: u64) -> String {
    let target = match class {
        0 => 0,
        1 => rng.range(1, 12) as usize,
        2 => rng.range(1, 12) as usize, // non-ascii
        3 => rng.range(33, 60) as usize,
        4 => rng.range(100, 127) as usize,
        5 => rng.range(128, 160) as usize,
        6 => 32,
        _ => 127,
    };
    let mut s = String::new();
    while s.len() < target {
        if class == 2 && (s.is_empty() || rng.chance(1, 3)) {
            let t: &str = *rng.pick(NON_ASCII);
            s.push_str(t);
        } else {
            let c = match rng.below(14) {
                0 => '(',
                1 => ')',
                2 => '\\',
                3 => ' ',
                _ => (0x21 + rng.below(94) as u8) as char,
            };
            s.push(c);
        }
    }
    s
}

fn rand_text(rng: &mut Rng, max: usize) -> String {
    let n = rng.below(max as u64 + 1) as usize;
    let mut s = String::new();
    for _ in 0..n {
        let c = match rng.below(20) {
            0 => '(',
            1 => ')',
            2 => '\\',
            3 => ' ',
            4 => 'é',
            _ => (0x41 + rng.below(26) as u8) as char,
        };
        s.push(c);
    }
    s
}

fn hx(s: &str) -> String {
    if s.is_empty() {
        "-".into()
    } else {
        hex(s.as_bytes())
    }
}

fn rand_perm(rng: &mut Rng) -> u32 {
    match rng.below(4) {
        0 => 0xFFFFF0C0u32,
        1 => 0xFFFFFFFC,
        _ => 0xFFFFF0C0 | ((rng.next() as u32) & 0x0F3C),
    }
}

fn gen(rng: &mut Rng, tier: Tier) -> Vec<Case> {
    let mut out = Vec::new();
    let thorough = tier == Tier::Thorough;
    // (a) the library writes
    let strengths = ["rc4_40", "rc4_128", "aes_128", "aes_256"];
    let cfgs: &[&str] = &["--c", "---", "x-c"];
    let rounds = if thorough { 5 } else { 1 };
    for round in 0..rounds {
        for (si, st) in strengths.iter().enumerate() {
            for (ci, cfg) in cfgs.iter().enumerate() {
                if *cfg != "--c" && round > 0 && !(thorough && round == 1) {
                    continue;
                }
                let uc = ((si + ci + round) % 6) as u64;
                let oc = ((si + 2 * ci + round + 1) % 6) as u64;
                let user = rand_pw(rng, uc);
                let mut owner = rand_pw(rng, oc);
                if owner == user {
                    owner.push('o');
                }
                let npages = 1 + rng.below(2) as usize;
                let texts: Vec<String> = (0..npages).map(|_| hx(&rand_text(rng, 40))).collect();
                let annot = match rng.below(3) {
                    0 => "-".to_string(),
                    1 => format!("Contents:{}", hx(&rand_text(rng, 20))),
                    _ => format!("Contents:{},T:{}", hx(&rand_text(rng, 20)), hx(&rand_text(rng, 10))),
                };
                out.push(Case::new(
                    format!(
                        "lib {} {} {} {} {} {} {} {} {}",
                        st,
                        cfg,
                        hx(&user),
                        hx(&owner),
                        rand_perm(rng),
                        hx(&rand_text(rng, 30)),
                        hx(&rand_text(rng, 10)),
                        texts.join(","),
                        annot
                    ),
                    format!("lib {} cfg{} upw-class{} opw-class{} pages{} nt", st, cfg, uc, oc, npages),
                ));
            }
        }
    }
    // (b) the independent encoder writes
    let schemes = ["rc4_40", "rc4_128", "rc4_128v4", "aes_128", "aes_256", "aes_256r5"];
    // flag sets never combine two of the known reader defects (o / mx / d), so that each
    // finding keeps a narrow matcher
    let flagsets: &[&str] = &["-", "l", "x", "xl", "mx", "o", "ol", "ox", "d", "dl"];
    let mk = |rng: &mut Rng, sc: &str, fl: &str, user: String, owner: String, tag: &str| {
        let npages = 1 + rng.below(2) as usize;
        let texts: Vec<String> = (0..npages).map(|_| hx(&rand_text(rng, 40))).collect();
        let annot = match rng.below(3) {
            0 => "-".to_string(),
            1 => format!("Contents:{}", hx(&rand_text(rng, 20))),
            _ => format!("Contents:{},T:{}", hx(&rand_text(rng, 20)), hx(&rand_text(rng, 10))),
        };
        Case::new(
            format!(
                "ind {} {} {} {} {} {} {} {} {} {}",
                sc,
                fl,
                hx(&user),
                hx(&owner),
                rand_perm(rng),
                hx(&rand_text(rng, 30)),
                hx(&rand_text(rng, 10)),
                texts.join(","),
                annot,
                rng.next() % 1_000_000_007
            ),
            format!("ind {} flags{} {} pages{} nt", sc, fl, tag, npages),
        )
    };
    let rounds = if thorough { 6 } else { 1 };
    for round in 0..rounds {
        for (si, sc) in schemes.iter().enumerate() {
            for (fi, fl) in flagsets.iter().enumerate() {
                // EncryptMetadata false only exists for V >= 4
                if fl.contains('m') && (*sc == "rc4_40" || *sc == "rc4_128") {
                    continue;
                }
                let r56 = sc.starts_with("aes_256");
                // password classes: 0 empty, 1 ASCII, 2 non-ASCII, 3 33-60 bytes, 4 100-127,
                // 5 > 127 (R2-R4 only here: R5/R6 > 127 bytes is finding F5, generated below),
                // 6 exactly 32, 7 exactly 127.  R6 costs the Lean reference ~0.1 s per hash:
                // long passwords for it only in the thorough tier.
                let pick = |k: usize| -> u64 {
                    let c = (k % 8) as u64;
                    if r56 && c == 5 {
                        4
                    } else if *sc == "aes_256" && !thorough && c >= 3 {
                        c % 3
                    } else {
                        c
                    }
                };
                let uc = pick(si + fi + round);
                let oc = pick(si + 3 * fi + round + 1);
                let user = rand_pw(rng, uc);
                let mut owner = rand_pw(rng, oc);
                if owner == user {
                    owner.push('o');
                }
                out.push(mk(rng, sc, fl, user, owner, &format!("upw-class{} opw-class{}", uc, oc)));
            }
        }
    }
    // R5 / R6 with passwords longer than 127 bytes (Algorithm 2.A (a): truncated to 127 bytes)
    for (i, sc) in ["aes_256r5", "aes_256"].iter().enumerate() {
        let n = if thorough { 3 } else { 1 };
        for j in 0..n {
            let (uc, oc) = if (i + j) % 2 == 0 { (5, 1) } else { (1, 5) };
            let user = rand_pw(rng, uc);
            let owner = rand_pw(rng, oc);
            out.push(mk(rng, sc, if j % 2 == 0 { "-" } else { "l" }, user, owner, &format!("upw-class{} opw-class{} long", uc, oc)));
        }
    }
    out
}

fn main() {
    // self-test of the encoder's AES against FIPS-197 Appendix C before anything is produced
    let key: Vec<u8> = (0..32).collect();
    let pt: Vec<u8> = (0..16).map(|i| i * 0x11).collect();
    assert_eq!(hex(&Aes::new(&key[..16]).block(&pt)), "69c4e0d86a7b0430d8cdb78070b4c55a");
    assert_eq!(hex(&Aes::new(&key).block(&pt)), "8ea2b7ca516745bfeafc49904b496089");
    harness_main(gen, run, Limits { per_case: std::time::Duration::from_secs(60), ..Limits::default() });
}
