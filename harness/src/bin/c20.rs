//! C20 — writing the same document twice gives identical bytes (builder b0320).
//!
//! Request `det <cfg> <program>` (program = authoring DSL of c03/author.rs; the clock is FIXED:
//! creation and modification dates are set through the metadata API and the writer is driven
//! through `PdfWriter::with_config(..).write_document`, i.e. without
//! `Document::update_modification_date`; no encryption, so no RNG):
//!   * 3 serialisations of 3 freshly built documents in this process
//!     (every `HashMap` gets a fresh `RandomState`, so hash orders differ between them),
//!   * a second serialisation of the first `Document` value,
//!   * 2 serialisations in 2 fresh child processes (`c20 --ser <cfg> <program>`).
//! IMPL answer: `distinct=1 runs=6` or
//!   `distinct=<k> runs=6 first=<offset> where=<body|xrefdict> same=<0|1> fresh=<0|1> a=<hex ctx> b=<hex ctx>`
//! (`where=xrefdict`: the first differing byte lies in the cross-reference stream object of a
//! `use_xref_streams` file; `same=0`: re-writing the same Document value differs from its first write; `fresh=1`: the five
//! serialisations of freshly built documents agree with each other).
#[path = "c03/author.rs"]
mod author;

use author::*;
use oxiharness::*;
use std::io::{Read, Write};
use std::process::{Command, Stdio};

fn serialise(cfg: &Cfg, prog: &str) -> Result<Vec<u8>, String> {
    let mut b = build_doc(prog)?;
    write_doc(&mut b.doc, cfg)
}

fn child_serialise(cfg: &str, prog: &str) -> Result<Vec<u8>, String> {
    let exe = std::env::current_exe().map_err(|_| "exe")?;
    let mut ch = Command::new(exe)
        .arg("--ser")
        .arg(cfg)
        .arg(prog)
        .stdin(Stdio::null())
        .stdout(Stdio::piped())
        .stderr(Stdio::null())
        .spawn()
        .map_err(|_| "spawn")?;
    let mut out = vec![];
    ch.stdout.take().unwrap().read_to_end(&mut out).map_err(|_| "read")?;
    let st = ch.wait().map_err(|_| "wait")?;
    if !st.success() {
        return Err("child-failed".into());
    }
    Ok(out)
}

fn startxref_of(b: &[u8]) -> Option<usize> {
    let tail = &b[b.len().saturating_sub(64)..];
    let s = String::from_utf8_lossy(tail);
    let i = s.rfind("startxref")?;
    s[i + 9..].trim().split_whitespace().next()?.parse().ok()
}

fn run(req: &str) -> String {
    let p: Vec<&str> = req.split(' ').collect();
    let (cfgs, prog) = match p.as_slice() {
        ["det", c, p] => (*c, *p),
        _ => return "bad-request".into(),
    };
    let cfg = match parse_cfg(cfgs) {
        Some(c) => c,
        None => return "bad-request".into(),
    };
    let mut outs: Vec<Vec<u8>> = vec![];
    let mut first_doc = match build_doc(prog) {
        Ok(b) => b,
        Err(m) => return format!("builderr:{}", m.replace(' ', "_")),
    };
    match write_doc(&mut first_doc.doc, &cfg) {
        Ok(b) => outs.push(b),
        Err(m) => return format!("writeerr:{}", m.replace(' ', "_")),
    }
    for _ in 0..2 {
        match serialise(&cfg, prog) {
            Ok(b) => outs.push(b),
            Err(m) => return format!("writeerr:{}", m.replace(' ', "_")),
        }
    }
    // the same Document value once more
    let again = match write_doc(&mut first_doc.doc, &cfg) {
        Ok(b) => b,
        Err(m) => return format!("rewriteerr:{}", m.replace(' ', "_")),
    };
    let same = again == outs[0];
    outs.push(again);
    for _ in 0..2 {
        match child_serialise(cfgs, prog) {
            Ok(b) => outs.push(b),
            Err(m) => return format!("childerr:{}", m),
        }
    }
    let runs = outs.len();
    // fresh=1: the five serialisations of FRESHLY built documents (all but the re-write, index 3) agree
    let fresh = outs.iter().enumerate().all(|(i, o)| i == 3 || *o == outs[0]);
    let mut uniq: Vec<&Vec<u8>> = vec![];
    for o in &outs {
        if !uniq.iter().any(|u| *u == o) {
            uniq.push(o);
        }
    }
    if uniq.len() == 1 {
        return format!("distinct=1 runs={}", runs);
    }
    // first differing offset over all outputs against the first
    let a = &outs[0];
    let mut best: Option<(usize, &Vec<u8>)> = None;
    for o in &outs[1..] {
        if o != a {
            let n = a.iter().zip(o.iter()).position(|(x, y)| x != y).unwrap_or(a.len().min(o.len()));
            if best.map(|(m, _)| n < m).unwrap_or(true) {
                best = Some((n, o));
            }
        }
    }
    let (off, b) = best.unwrap();
    let sx = startxref_of(a);
    let wh = match sx {
        Some(x) if cfg.xref_streams && off >= x && startxref_of(b) == Some(x) => "xrefdict",
        _ => "body",
    };
    let ctx = |v: &Vec<u8>| hex(&v[off.saturating_sub(8)..(off + 12).min(v.len())]);
    format!(
        "distinct={} runs={} first={} where={} same={} fresh={} a={} b={}",
        uniq.len(),
        runs,
        off,
        wh,
        if same { 1 } else { 0 },
        if fresh { 1 } else { 0 },
        ctx(a),
        ctx(b)
    )
}

const CFGS: [&str; 8] = ["c:z:1.7", "c:n:1.7", "c:z:1.4", "x:z:1.5", "x:n:1.5", "xo:z:1.5", "o:z:1.5", "c:n:2.0"];

fn gen(rng: &mut Rng, tier: Tier) -> Vec<Case> {
    let mut cases = vec![];
    let ndocs = match tier {
        Tier::Quick => 18,
        Tier::Thorough => 600,
    };
    for d in 0..ndocs {
        let o = GenOpts { max_pages: if d % 8 == 0 { 8 } else { 3 }, max_ops: if d % 5 == 0 { 70 } else { 30 }, rich: true };
        let mut prog = gen_program(rng, &o);
        // every 6th document: checkbox widget annotations with two inline appearance streams
        // (`forms::create_checkbox_widget`) — see C20-F2
        let ap = d % 6 == 5;
        if ap {
            let (first, rest) = match prog.split_once('|') {
                Some((a, b)) => (a.to_string(), format!("|{}", b)),
                None => (prog.clone(), String::new()),
            };
            prog = format!("{};F,x,chkA,10,10,30,30;F,x,chkB,40,10,60,30;F,x,chkC,70,10,90,30{}", first, rest);
        }
        let nimg = prog.matches(";I,").count();
        let nfld = prog.matches(";F,").count();
        let nann = prog.matches(";A,").count();
        let nfont = {
            let mut fs: Vec<&str> = prog.split(";T,").skip(1).filter_map(|t| t.split(',').next()).collect();
            fs.sort();
            fs.dedup();
            fs.len()
        };
        let nt = nimg + nfld + nann >= 2 && nfont >= 2;
        for (ci, cfg) in CFGS.iter().enumerate() {
            let heavy = cfg.starts_with("o:") || cfg.starts_with("xo:");
            if heavy {
                let want: &[usize] = match (*cfg, tier) {
                    ("xo:z:1.5", Tier::Quick) => &[3],
                    ("xo:z:1.5", Tier::Thorough) => &[3, 30, 300],
                    ("o:z:1.5", Tier::Quick) => &[],
                    ("o:z:1.5", Tier::Thorough) => &[5],
                    _ => &[],
                };
                if !want.contains(&d) {
                    continue;
                }
            }
            if (ci == 7 || ci == 2) && d % 4 != 0 {
                continue;
            }
            cases.push(Case::new(
                format!("det {} {}", cfg, prog),
                format!(
                    "det cfg-{} {}img{} fld{} ann{} font{} {}",
                    cfg.split(':').next().unwrap(),
                    if ap { "apstreams " } else { "" },
                    nimg.min(3),
                    nfld.min(3),
                    nann.min(3),
                    nfont.min(4),
                    if nt { "nt" } else { "" }
                ),
            ));
        }
    }
    cases
}

fn main() {
    let args: Vec<String> = std::env::args().collect();
    if args.len() == 4 && args[1] == "--ser" {
        let cfg = parse_cfg(&args[2]).expect("cfg");
        match serialise(&cfg, &args[3]) {
            Ok(b) => {
                let mut o = std::io::stdout().lock();
                o.write_all(&b).unwrap();
                o.flush().unwrap();
            }
            Err(_) => std::process::exit(3),
        }
        return;
    }
    harness_main(gen, run, Limits { per_case: std::time::Duration::from_secs(120), ..Limits::default() });
}
