//! C19 — damaged cross-reference data is reconstructed faithfully.
//!
//! Request: `d <ops> <intact> <damaged>`
//!   ops     = label of the damage applied by the generator (`+`-joined): nosx | sx<N> | deltable |
//!             notrailer | trunc<n> | shift<k> | corrupt<i> | none
//!   intact / damaged = the file bytes as run-length segments, `,`-joined:
//!             h<hex> literal bytes | r<bb>.<count> a run of one byte
//! Request (files with a cross-reference STREAM): `x <ops> <objs> <intact> <damaged>`, objs = the file's
//!   objects `num.gen:offset` (top level) | `num.gen:c` (inside an object stream), `,`-joined;
//!   ops: nosx | sx<N> | xsbreak (the /Type /XRef name destroyed) | xscorrupt<i> (entry i of the stream
//!   data: offset + 7; Flate: a data byte flipped) | xslen (wrong /Length) | delxs (stream object removed) | trunc<n>
//! Both files are opened with the REAL reader (`PdfReader::new`, recovery enabled).
//! Answer: `<mode>|<entries>|<root>|<pages>|<intact dumps>|<damaged dumps>`
//!   mode    = primary (the damaged cross-reference data still parsed: no reconstruction ran)
//!           | recovery (only the recovering parse succeeded) | fail:<class>
//!   entries = num:offset:gen,… of the reconstructed table (recovery mode only, else `-`)
//!   root    = num.gen of /Root of the (reconstructed) trailer
//!   pages   = <page count intact>,<page count damaged>
//!   dumps   = cat=<digest>;num.gen=<digest|err:class>,…   (digest of a canonical dump)
use oxiharness::*;
#[path = "../shared_b0417/reffile.rs"]
mod reffile;
use oxidize_pdf::parser::xref::XRefTable;
use oxidize_pdf::parser::{ParseOptions, PdfDocument, PdfObject, PdfReader};
use reffile::{err_class, Body, Ent, Phys, Rev, XKind};
use std::io::{BufReader, Cursor};

fn encode_segments(b: &[u8]) -> String {
    let mut out: Vec<String> = vec![];
    let mut lit: Vec<u8> = vec![];
    let mut i = 0;
    while i < b.len() {
        let mut j = i;
        while j < b.len() && b[j] == b[i] {
            j += 1;
        }
        if j - i >= 24 {
            if !lit.is_empty() {
                out.push(format!("h{}", hex(&lit)));
                lit.clear();
            }
            out.push(format!("r{:02x}.{}", b[i], j - i));
        } else {
            lit.extend_from_slice(&b[i..j]);
        }
        i = j;
    }
    if !lit.is_empty() {
        out.push(format!("h{}", hex(&lit)));
    }
    if out.is_empty() {
        "h-".into()
    } else {
        out.join(",")
    }
}

fn decode_segments(s: &str) -> Option<Vec<u8>> {
    let mut out = vec![];
    for t in s.split(',') {
        if let Some(h) = t.strip_prefix('h') {
            out.extend(unhex(h)?);
        } else if let Some(r) = t.strip_prefix('r') {
            let (b, c) = r.split_once('.')?;
            let b = u8::from_str_radix(b, 16).ok()?;
            let c: usize = c.parse().ok()?;
            if c > 4_000_000 {
                return None;
            }
            out.extend(std::iter::repeat(b).take(c));
        } else {
            return None;
        }
    }
    Some(out)
}

fn canon(o: &PdfObject) -> String {
    match o {
        PdfObject::Dictionary(d) => {
            let mut ks: Vec<_> = d.0.iter().map(|(k, v)| format!("/{} {}", k.0, canon(v))).collect();
            ks.sort();
            format!("<<{}>>", ks.join(" "))
        }
        PdfObject::Array(a) => format!("[{}]", a.0.iter().map(canon).collect::<Vec<_>>().join(" ")),
        PdfObject::Stream(st) => format!("stream{}#{}", canon(&PdfObject::Dictionary(st.dict.clone())), hex(&st.data)),
        other => format!("{:?}", other),
    }
}

fn digest(s: &str) -> String {
    let d = md5::compute(s.as_bytes());
    hex(&d.0[..5])
}

/// in-use objects of the INTACT file's own table, read by a tiny independent parser
fn intact_objects(bytes: &[u8]) -> Vec<(u32, u16)> {
    let text = String::from_utf8_lossy(bytes);
    let Some(p) = text.rfind("xref\n0 ") else { return vec![] };
    let mut out = vec![];
    let mut lines = text[p + 5..].lines();
    while let Some(l) = lines.next() {
        if l.starts_with("trailer") {
            break;
        }
        let parts: Vec<&str> = l.split(' ').collect();
        if parts.len() == 2 {
            if let (Ok(first), Ok(count)) = (parts[0].parse::<u32>(), parts[1].parse::<u32>()) {
                for k in 0..count {
                    if let Some(e) = lines.next() {
                        let f: Vec<&str> = e.split(' ').collect();
                        if f.len() >= 3 && f[2].starts_with('n') {
                            out.push((first + k, f[1].parse::<u16>().unwrap_or(0)));
                        }
                    }
                }
            }
        }
    }
    out
}

fn dumps(bytes: &[u8], objs: &[(u32, u16)]) -> (String, String) {
    let mut r = match PdfReader::new(Cursor::new(bytes.to_vec())) {
        Ok(r) => r,
        Err(e) => return (format!("open-err:{}", err_class(&e)), "-".into()),
    };
    let cat = match r.catalog() {
        Ok(d) => digest(&canon(&PdfObject::Dictionary(d.clone()))),
        Err(e) => format!("err:{}", err_class(&e)),
    };
    let mut parts = vec![];
    for (n, g) in objs {
        let v = match r.get_object(*n, *g) {
            Ok(o) => digest(&canon(o)),
            Err(e) => format!("err:{}", err_class(&e)),
        };
        parts.push(format!("{}.{}={}", n, g, v));
    }
    let pc = match PdfDocument::new(r).page_count() {
        Ok(n) => n.to_string(),
        Err(e) => format!("err:{}", err_class(&e)),
    };
    (format!("cat={};{}", cat, parts.join(",")), pc)
}

fn run(req: &str) -> String {
    let p: Vec<&str> = req.split(' ').collect();
    let (intact_s, damaged_s, objs_s) = if p.len() == 4 && p[0] == "d" {
        (p[2], p[3], None)
    } else if p.len() == 5 && p[0] == "x" {
        (p[3], p[4], Some(p[2]))
    } else {
        return "bad-request".into();
    };
    let (Some(intact), Some(damaged)) = (decode_segments(intact_s), decode_segments(damaged_s)) else {
        return "bad-request".into();
    };
    let objs: Vec<(u32, u16)> = match objs_s {
        None => intact_objects(&intact),
        Some(l) => l
            .split(',')
            .filter_map(|t| {
                let ng = t.split(':').next()?;
                let (n, g) = ng.split_once('.')?;
                Some((n.parse().ok()?, g.parse().ok()?))
            })
            .collect(),
    };
    // did the damaged cross-reference data still parse (no reconstruction)?
    // same options as `PdfReader::new`, once with the fall-back to reconstruction switched off
    let mut opts = ParseOptions::default();
    opts.lenient_streams = true;
    let mut no_recovery = opts.clone();
    no_recovery.max_recovery_attempts = 0;
    let strict = {
        let mut br = BufReader::new(Cursor::new(damaged.clone()));
        XRefTable::parse_with_options(&mut br, &no_recovery)
    };
    let deflt = {
        let mut br = BufReader::new(Cursor::new(damaged.clone()));
        XRefTable::parse_with_options(&mut br, &opts)
    };
    let (mode, entries, root) = match (&strict, &deflt) {
        (Ok(t), _) => {
            let root = t.trailer().and_then(|d| d.get("Root")).and_then(|o| o.as_reference()).map(|r| format!("{}.{}", r.0, r.1));
            ("primary".to_string(), "-".to_string(), root)
        }
        (Err(_), Ok(t)) => {
            let mut es: Vec<(u32, u64, u16)> = t.entries().iter().map(|(n, e)| (*n, e.offset, e.generation)).collect();
            es.sort();
            let root = t.trailer().and_then(|d| d.get("Root")).and_then(|o| o.as_reference()).map(|r| format!("{}.{}", r.0, r.1));
            (
                "recovery".to_string(),
                es.iter().map(|(n, o, g)| format!("{}:{}:{}", n, o, g)).collect::<Vec<_>>().join(","),
                root,
            )
        }
        (Err(_), Err(e)) => (format!("fail:{}", err_class(e)), "-".to_string(), None),
    };
    let (di, pi) = dumps(&intact, &objs);
    let (dd, pd) = dumps(&damaged, &objs);
    format!(
        "{}|{}|{}|{},{}|{}|{}",
        mode,
        if entries.is_empty() { "-".into() } else { entries },
        root.unwrap_or_else(|| "none".into()),
        pi,
        pd,
        di,
        dd
    )
}

// ------------------------------------------------------------------ generator

struct Layout {
    bytes: Vec<u8>,
    xref_pos: usize,
    trailer_pos: usize,
    startxref_pos: usize,
    n_entries: usize,
}

fn eol(rng: &mut Rng, style: u8) -> &'static [u8] {
    match style {
        0 => b"\n",
        1 => b"\r\n",
        2 => b"\r",
        _ => {
            if rng.chance(1, 2) {
                b"\n"
            } else {
                b"\r\n"
            }
        }
    }
}

/// text that looks like an object inside data (the scan does not know it is inside a stream)
fn decoy(rng: &mut Rng, victim: u32) -> Vec<u8> {
    match rng.below(12) {
        0 => format!("\n{} 0 obj\n<< /Fake true >>\nendobj\n", victim).into_bytes(),
        1 => format!("\r{} 0 obj\r(decoy)\rendobj\r", victim).into_bytes(),
        2 => format!("\n  {}   0   obj\n<< /Type /Catalog /Pages 2 0 R /Fake true >>\nendobj\n", victim).into_bytes(),
        3 => format!("\n{} 0 obj", victim).into_bytes(),
        // boundaries of parse::<u32>() / parse::<u16>(), sign, near misses of the keyword
        4 => format!("\n+{} +0 obj\n(plus)\nendobj\n", victim).into_bytes(),
        5 => format!("\n{} {} obj\n(gen)\nendobj\n", victim, rng.pick(&[255u32, 256, 65535, 65536, 70000])).into_bytes(),
        6 => format!("\n{} 0 obj\n(big)\nendobj\n", rng.pick(&[4294967295u64, 4294967296, 99999999999])).into_bytes(),
        7 => format!("\n{} 0 xobj\n{} 0 objx\n-{} 0 obj\n{}.0 0 obj\n", victim, victim, victim, victim).into_bytes(),
        8 => format!("\n{}\u{a0}0\u{2003}obj\n(unicode blanks)\nendobj\n", victim).into_bytes(),
        9 => format!("\n{} 0 obj {} 0 obj\n(two)\nendobj\n", victim, victim + 1).into_bytes(),
        10 => format!("\nxx obj {} 0 obj\n(not first)\nendobj\n", victim).into_bytes(),
        _ => {
            let mut v = format!("\n{} 0 ", victim).into_bytes();
            v.extend(b"\xffobj\n\xc2");
            v.extend(format!("\n{} 0 obj", victim).as_bytes());
            v.extend(b"\xe2\x80\n");
            v
        }
    }
}

fn build_intact(rng: &mut Rng, big: bool, with_decoy: bool) -> (Layout, String) {
    let mut b: Vec<u8> = b"%PDF-1.4\n%\xE2\xE3\xCF\xD3\n".to_vec();
    let style = rng.below(4) as u8;
    let n_pages = 1 + rng.below(3) as u32;
    let mut notes = vec![];
    // generation numbers other than 0 (outside the property's class, kept for the model tie)
    let allow_gen = rng.chance(1, 10);
    // numbers: catalog = 1 (or the highest number), pages = 2, then per page: page + contents,
    // then info, extras
    let mut bodies: Vec<(u32, u16, Vec<u8>)> = vec![];
    let mut next = 3u32;
    let mut kids = vec![];
    for _ in 0..n_pages {
        let page = next;
        let cont = next + 1;
        next += 2;
        kids.push(format!("{} 0 R", page));
        bodies.push((
            page,
            0,
            format!("<< /Type /Page /Parent 2 0 R /MediaBox [0 0 612 792] /Contents {} 0 R >>", cont).into_bytes(),
        ));
        let mut data = format!("BT /F1 12 Tf 72 {} Td (page {}) Tj ET", 700 - page, page).into_bytes();
        if with_decoy && rng.chance(1, 2) {
            let victim = 1 + rng.below(next as u64) as u32;
            data.extend(decoy(rng, victim));
            notes.push(format!("decoy{}", victim));
        }
        let mut s = format!("<< /Length {} >>\nstream\n", data.len()).into_bytes();
        s.extend(&data);
        s.extend(b"\nendstream");
        bodies.push((cont, 0, s));
    }
    let info = next;
    next += 1;
    let info_text = if with_decoy && rng.chance(1, 3) {
        notes.push("decoy-string".into());
        format!("<< /Title (a title\n{} 0 obj\nnot an object) /Producer (ref) >>", 1 + rng.below(info as u64))
    } else {
        "<< /Title (mentions 3 0 obj and endobj inline) /Producer (ref) >>".to_string()
    };
    bodies.push((info, 0, info_text.into_bytes()));
    let extras = rng.below(4) as u32;
    for k in 0..extras {
        let n = next;
        next += 1;
        let gen = if allow_gen && rng.chance(1, 2) { *rng.pick(&[1u16, 2, 255, 256, 65535]) } else { 0 };
        bodies.push((n, gen, format!("<< /Extra {} /Ref {} 0 R >>", k, 1 + rng.below(n as u64)).into_bytes()));
    }
    // the catalog: object 1, or (1 in 4) the highest number with a filler as object 1
    let cat_num = if rng.chance(1, 4) {
        let c = next;
        next += 1;
        bodies.push((1, 0, b"<< /Filler true >>".to_vec()));
        notes.push("cathigh".into());
        c
    } else {
        1
    };
    let cat_gen = if allow_gen && rng.chance(1, 2) { 1 } else { 0 };
    if cat_gen != 0 {
        notes.push("catgen".into());
    }
    let cat_body = match rng.below(4) {
        0 => {
            notes.push("catcompact".into());
            "<</Type/Catalog/Pages 2 0 R>>".to_string()
        }
        1 => "<< /Pages 2 0 R /Type /Catalog >>".to_string(),
        _ => "<< /Type /Catalog /Pages 2 0 R >>".to_string(),
    };
    bodies.push((cat_num, cat_gen, cat_body.into_bytes()));
    bodies.push((
        2,
        0,
        format!("<< /Type /Pages /Kids [{}] /Count {} >>", kids.join(" "), n_pages).into_bytes(),
    ));
    // physical order: shuffled
    for i in (1..bodies.len()).rev() {
        let j = rng.below(i as u64 + 1) as usize;
        bodies.swap(i, j);
    }
    // where to put the big padding so that a header straddles a 64 KiB boundary
    let pad_before = if big { Some(rng.below(bodies.len() as u64) as usize) } else { None };
    let mut offsets: Vec<(u32, u16, usize)> = vec![];
    let mut prev_inline = false;
    let inline_ok = rng.chance(1, 8);
    for (idx, (n, g, body)) in bodies.iter().enumerate() {
        if pad_before == Some(idx) {
            // comment padding up to a multiple of 65536; three shapes
            let target_mult = 65536 * (1 + rng.below(2) as usize);
            let back = rng.below(13) as usize;
            let want = target_mult.saturating_sub(back);
            if want > b.len() + 2100 {
                let total = want - b.len();
                match rng.below(3) {
                    0 => {
                        // one long comment line
                        b.push(b'%');
                        b.extend(std::iter::repeat(b'A').take(total - 2));
                        b.push(b'\n');
                        notes.push("longline".into());
                        notes.push(format!("straddle{}", back));
                    }
                    1 => {
                        // many short comment lines
                        let mut left = total;
                        while left > 0 {
                            let l = left.min(64);
                            if l == 1 {
                                b.push(b'\n');
                            } else {
                                b.push(b'%');
                                b.extend(std::iter::repeat(b'B').take(l - 2));
                                b.push(b'\n');
                            }
                            left -= l;
                        }
                        notes.push(format!("straddle{}", back));
                    }
                    _ => {
                        // one comment line longer than CARRY_CAP that crosses the chunk boundary and
                        // reads `N 0 obj` exactly where the carry is cut (boundary - 1024 + d)
                        let victim = 1 + rng.below(next as u64 - 1) as u32;
                        let d = *rng.pick(&[0usize, 0, 0, 1, 2]);
                        let cut = target_mult - 1024 + d;
                        let text = format!(" {} 0 obj ", victim);
                        // line: '%' C… text(at cut-1) C… '\n', ending 40..300 bytes after the boundary
                        let end = target_mult + 40 + rng.below(260) as usize;
                        b.push(b'%');
                        while b.len() < cut - 1 {
                            b.push(b'C');
                        }
                        b.extend(text.as_bytes());
                        while b.len() < end {
                            b.push(b'C');
                        }
                        b.push(b'\n');
                        notes.push(format!("cutline{} d{}", victim, d));
                    }
                }
            }
        }
        if rng.chance(1, 8) {
            b.extend(format!("% {} 0 obj is defined below", n).as_bytes());
            b.extend(eol(rng, style));
        }
        // header shapes: blanks, tabs, leading zeros, leading blanks, trailing blank
        let lead = if rng.chance(1, 10) { "  " } else { "" };
        b.extend(lead.as_bytes());
        offsets.push((*n, *g, b.len()));
        match rng.below(10) {
            0 => b.extend(format!("{}  {}  obj", n, g).as_bytes()),
            1 => b.extend(format!("{} {} obj ", n, g).as_bytes()),
            2 => b.extend(format!("{}\t{}\tobj", n, g).as_bytes()),
            3 => b.extend(format!("0{} 0{} obj", n, g).as_bytes()),
            _ => b.extend(format!("{} {} obj", n, g).as_bytes()),
        }
        let _ = prev_inline;
        b.extend(eol(rng, style));
        b.extend(body);
        b.extend(eol(rng, style));
        b.extend(b"endobj");
        // (1 in 25) the next header follows `endobj` on the same line
        if inline_ok && idx + 1 < bodies.len() && pad_before != Some(idx + 1) && rng.chance(1, 4) {
            b.push(b' ');
            prev_inline = true;
            notes.push("inline".into());
        } else {
            prev_inline = false;
            b.extend(eol(rng, style));
        }
    }
    let xref_pos = b.len();
    let size = next;
    b.extend(format!("xref\n0 {}\n", size).as_bytes());
    b.extend(b"0000000000 65535 f \n");
    for n in 1..size {
        let (_, g, off) = offsets.iter().find(|o| o.0 == n).copied().unwrap();
        b.extend(format!("{:010} {:05} n \n", off, g).as_bytes());
    }
    let trailer_pos = b.len();
    b.extend(format!("trailer\n<< /Size {} /Root {} {} R /Info {} 0 R >>\n", size, cat_num, cat_gen, info).as_bytes());
    let startxref_pos = b.len();
    b.extend(format!("startxref\n{}\n%%EOF\n", xref_pos).as_bytes());
    (
        Layout { bytes: b, xref_pos, trailer_pos, startxref_pos, n_entries: size as usize },
        notes.join(" "),
    )
}

fn apply(op: &str, l: &Layout, cur: &mut Vec<u8>) {
    if op == "nosx" {
        if cur.len() >= l.startxref_pos + 9 {
            cur[l.startxref_pos + 5] = b'X';
        }
    } else if let Some(n) = op.strip_prefix("sx") {
        cur.truncate(l.startxref_pos.min(cur.len()));
        cur.extend(format!("startxref\n{}\n%%EOF\n", n).as_bytes());
    } else if op == "deltable" {
        let tail = cur[l.startxref_pos.min(cur.len())..].to_vec();
        cur.truncate(l.xref_pos.min(cur.len()));
        cur.extend(tail);
    } else if op == "notrailer" {
        let tail = cur[l.startxref_pos.min(cur.len())..].to_vec();
        cur.truncate(l.trailer_pos.min(cur.len()));
        cur.extend(tail);
    } else if let Some(n) = op.strip_prefix("trunc") {
        let n: usize = n.parse().unwrap_or(0);
        // never into the object bodies: the damage catalogue is about the cross-reference data
        let keep = cur.len().saturating_sub(n).max(l.xref_pos.min(cur.len()));
        cur.truncate(keep);
    } else if let Some(k) = op.strip_prefix("shift") {
        let k: i64 = k.parse().unwrap_or(0);
        for i in 1..l.n_entries {
            let p = l.xref_pos + b"xref\n".len() + format!("0 {}\n", l.n_entries).len() + 20 * i;
            if p + 10 <= cur.len() {
                let old: i64 = std::str::from_utf8(&cur[p..p + 10]).ok().and_then(|s| s.parse().ok()).unwrap_or(0);
                let new = (old + k).max(0);
                cur[p..p + 10].copy_from_slice(format!("{:010}", new).as_bytes());
            }
        }
    } else if let Some(i) = op.strip_prefix("corrupt") {
        let i: usize = i.parse().unwrap_or(1);
        let p = l.xref_pos + b"xref\n".len() + format!("0 {}\n", l.n_entries).len() + 20 * i;
        if p + 10 <= cur.len() {
            for q in p..p + 10 {
                cur[q] = b'x';
            }
        }
    }
}

/// a valid single-revision file whose cross-reference data is a cross-reference STREAM (optionally
/// with some objects inside an object stream), written by the reference writer, and one or two damages
fn gen_xs(rng: &mut Rng) -> Case {
    let n_pages = 1 + rng.below(3) as u32;
    let mut objs: Vec<Phys> = vec![];
    let mut next = 3u32;
    let mut kids = vec![];
    for _ in 0..n_pages {
        let (page, cont) = (next, next + 1);
        next += 2;
        kids.push(format!("{} 0 R", page));
        objs.push(Phys {
            num: page,
            gen: 0,
            body: Body::Raw(
                format!("<< /Type /Page /Parent 2 0 R /MediaBox [0 0 612 792] /Contents {} 0 R >>", cont).into_bytes(),
            ),
        });
        objs.push(Phys {
            num: cont,
            gen: 0,
            body: Body::Stream {
                dict: String::new(),
                data: format!("BT /F1 12 Tf 72 {} Td (page {}) Tj ET", 700 - page, page).into_bytes(),
            },
        });
    }
    let info = next;
    next += 1;
    objs.push(Phys { num: info, gen: 0, body: Body::Raw(b"<< /Title (xs) /Producer (ref) >>".to_vec()) });
    let cat_body = if rng.chance(1, 3) { "<</Type/Catalog/Pages 2 0 R>>" } else { "<< /Type /Catalog /Pages 2 0 R >>" };
    objs.push(Phys { num: 1, gen: 0, body: Body::Raw(cat_body.as_bytes().to_vec()) });
    objs.push(Phys {
        num: 2,
        gen: 0,
        body: Body::Raw(format!("<< /Type /Pages /Kids [{}] /Count {} >>", kids.join(" "), n_pages).into_bytes()),
    });
    // extras: top level, or (1 in 3) inside an object stream
    let n_extra = 1 + rng.below(3) as u32;
    let in_objstm = rng.chance(1, 3);
    let mut comp: Vec<(u32, u32, u32)> = vec![]; // (num, stm, idx)
    if in_objstm {
        let stm = next + n_extra;
        let mut items = vec![];
        for k in 0..n_extra {
            items.push((next + k, format!("<< /Extra {} >>", k).into_bytes()));
            comp.push((next + k, stm, k));
        }
        next += n_extra;
        objs.push(Phys { num: stm, gen: 0, body: Body::ObjStmRaw { items, flate: rng.chance(1, 2) } });
        next += 1;
    } else {
        for k in 0..n_extra {
            objs.push(Phys { num: next, gen: 0, body: Body::Raw(format!("<< /Extra {} >>", k).into_bytes()) });
            next += 1;
        }
    }
    for i in (1..objs.len()).rev() {
        let j = rng.below(i as u64 + 1) as usize;
        objs.swap(i, j);
    }
    let xs_num = next;
    let flate = rng.chance(1, 2);
    let mut ents: Vec<(u32, Ent)> = vec![(0, Ent::Free { next: 0, gen: 65535 })];
    for n in 1..=xs_num {
        if let Some(c) = comp.iter().find(|c| c.0 == n) {
            ents.push((n, Ent::Comp { stm: c.1, idx: c.2 }));
        } else if n == xs_num {
            ents.push((n, Ent::At { phys: objs.len(), gen: 0 }));
        } else {
            let phys = objs.iter().position(|p| p.num == n).unwrap();
            ents.push((n, Ent::At { phys, gen: 0 }));
        }
    }
    let rev = Rev {
        objs: objs.clone(),
        xk: XKind::Stream { num: xs_num, flate },
        ents,
        root: 1,
        trailer_extra: format!("/Info {} 0 R", info),
        size_override: None,
    };
    let built = reffile::build(&[rev]);
    let xoff = built.xref_off[0] as usize;
    let sxp = built.startxref_pos[0];
    let data_start = xoff + built.bytes[xoff..].windows(7).position(|w| w == b"stream\n").unwrap() + 7;
    let n_ops = if rng.chance(1, 4) { 2 } else { 1 };
    let mut ops: Vec<String> = vec![];
    for _ in 0..n_ops {
        let op = match rng.below(9) {
            0 | 1 => "nosx".to_string(),
            2 => format!("sx{}", rng.below(built.bytes.len() as u64)),
            3 => "xsbreak".to_string(),
            4 | 5 => format!("xscorrupt{}", 1 + rng.below(xs_num as u64 - 1)),
            6 => "xslen".to_string(),
            7 => "delxs".to_string(),
            _ => format!("trunc{}", 1 + rng.below((built.bytes.len() - xoff) as u64)),
        };
        if !ops.iter().any(|o: &String| o.trim_end_matches(|c: char| c.is_ascii_digit()) == op.trim_end_matches(|c: char| c.is_ascii_digit())) {
            ops.push(op);
        }
    }
    let mut dmg = built.bytes.clone();
    for op in &ops {
        if op == "nosx" {
            if dmg.len() >= sxp + 9 {
                dmg[sxp + 5] = b'X';
            }
        } else if let Some(n) = op.strip_prefix("sx") {
            dmg.truncate(sxp.min(dmg.len()));
            dmg.extend(format!("startxref\n{}\n%%EOF\n", n).as_bytes());
        } else if op == "xsbreak" {
            if let Some(p) = dmg[xoff.min(dmg.len())..].windows(11).position(|w| w == b"/Type /XRef") {
                dmg[xoff + p + 10] = b'g';
            }
        } else if let Some(i) = op.strip_prefix("xscorrupt") {
            let i: usize = i.parse().unwrap_or(1);
            if flate {
                if data_start + 3 < dmg.len() {
                    dmg[data_start + 3] ^= 0x55;
                }
            } else {
                let p = data_start + 7 * i + 4; // low byte of the offset field
                if p < dmg.len() && p < sxp {
                    dmg[p] = dmg[p].wrapping_add(7);
                }
            }
        } else if op == "xslen" {
            if let Some(p) = dmg[xoff.min(dmg.len())..].windows(8).position(|w| w == b"/Length ") {
                let q = xoff + p + 8;
                if q < dmg.len() {
                    dmg[q] = if dmg[q] == b'9' { b'1' } else { dmg[q] + 1 };
                }
            }
        } else if op == "delxs" {
            if dmg.len() >= sxp {
                let tail = dmg[sxp..].to_vec();
                dmg.truncate(xoff);
                dmg.extend(tail);
            }
        } else if let Some(n) = op.strip_prefix("trunc") {
            let n: usize = n.parse().unwrap_or(0);
            let keep = dmg.len().saturating_sub(n).max(xoff.min(dmg.len()));
            dmg.truncate(keep);
        }
    }
    let mut objl: Vec<String> = vec![];
    // (the cross-reference stream object is the damaged data itself: not compared)
    for (i, (n, g)) in built.phys_num.iter().enumerate() {
        if *n != xs_num {
            objl.push(format!("{}.{}:{}", n, g, built.phys_off[i]));
        }
    }
    for c in &comp {
        objl.push(format!("{}.0:c", c.0));
    }
    let tags = format!(
        "xs{} {} ops{}{} nt",
        if flate { "-flate" } else { "" },
        ops.iter().map(|o| o.trim_end_matches(|c: char| c.is_ascii_digit()).to_string()).collect::<Vec<_>>().join("+"),
        ops.len(),
        if in_objstm { " objstm" } else { "" }
    );
    Case::new(
        format!("x {} {} {} {}", ops.join("+"), objl.join(","), encode_segments(&built.bytes), encode_segments(&dmg)),
        tags,
    )
}

fn gen(rng: &mut Rng, tier: Tier) -> Vec<Case> {
    let mut cases = vec![];
    let n = if tier == Tier::Quick { 220 } else { 3000 };
    for i in 0..n {
        if i % 5 == 3 {
            cases.push(gen_xs(rng));
            continue;
        }
        let big = i % 4 == 0;
        let with_decoy = i % 5 == 4;
        let (l, notes) = build_intact(rng, big, with_decoy);
        let n_ops = if rng.chance(1, 4) { 2 } else { 1 };
        let mut ops: Vec<String> = vec![];
        for _ in 0..n_ops {
            let op = match rng.below(11) {
                0 | 1 => "nosx".to_string(),
                2 => format!("sx{}", rng.below(l.bytes.len() as u64)),
                3 => "sx0".to_string(),
                4 => "deltable".to_string(),
                5 => "notrailer".to_string(),
                6 => format!("trunc{}", 1 + rng.below((l.bytes.len() - l.trailer_pos) as u64)),
                7 => format!("shift{}", *rng.pick(&[1i64, -1, 7, 100, -3])),
                8 => format!("corrupt{}", 1 + rng.below(l.n_entries as u64 - 1)),
                9 => format!("sx{}", l.xref_pos as u64 + 1 + rng.below(3)),
                _ => "nosx".to_string(),
            };
            if !ops.contains(&op) {
                ops.push(op);
            }
        }
        let mut dmg = l.bytes.clone();
        for op in &ops {
            apply(op, &l, &mut dmg);
        }
        let tags = format!(
            "{}{} ops{} {}{}",
            if big { "big " } else { "" },
            ops.iter().map(|o| o.trim_end_matches(|c: char| c.is_ascii_digit() || c == '-').to_string()).collect::<Vec<_>>().join("+"),
            ops.len(),
            notes,
            if ops.len() > 1 || with_decoy || big { " nt" } else { "" }
        );
        cases.push(Case::new(
            format!("d {} {} {}", ops.join("+"), encode_segments(&l.bytes), encode_segments(&dmg)),
            tags,
        ));
    }
    cases
}

fn main() {
    harness_main(gen, run, Limits::default());
}
