//! C24 — embedded raster images decode to the pixels that were supplied.
//!
//! Requests (single line, space separated, positional):
//!
//! `png CFG W H DEPTH CT IL FILTERS PLTE TRNS SPLITS Z ANC MUT ROWS PNG`
//!    CFG     `u` | `c`            document compression off / on
//!    W H     image size, DEPTH bit depth, CT PNG colour type, IL interlace method (0 | 1 = Adam7)
//!    FILTERS one digit 0..4 per scanline (all scanlines of all passes, in file order; cycled)
//!    PLTE    palette bytes hex, `.` = no PLTE chunk
//!    TRNS    tRNS chunk bytes hex, `.` = no tRNS chunk, `-` = empty chunk
//!    SPLITS  comma separated sizes the zlib stream is cut into (one IDAT chunk each; the
//!            remainder goes into a last chunk); `0` = a single IDAT chunk
//!    Z       `s<blk>` stored deflate blocks of at most <blk> bytes | `f` flate2 default level
//!    ANC     ancillary chunks to add: subset of `g` (gAMA after IHDR), `k` (bKGD after PLTE),
//!            `t` (tEXt before IEND), `z` (bytes after IEND), `e` (a zero-length IDAT chunk before
//!            and after the IDAT chunks); `-` = none
//!    MUT     `-` = PNG is the encoding of the description; otherwise `<label>:<ext>`: a label of
//!            the mutation applied to the file bytes (the description is of the un-mutated
//!            image) and what flate2 makes of the file's IDAT payload (`E` error, else hex)
//!    ROWS    the image: H packed scanlines of ceil(W*DEPTH*channels/8) bytes (unfiltered,
//!            not interlaced), hex
//!    PNG     the file bytes handed to `Image::from_png_data`, hex
//!
//! `raw KIND CFG W H BPC DATA`    KIND = rgb | gray | cmyk (from_raw_data), grayd (from_gray_data),
//!                                 rgba (from_rgba_data)
//! `jpeg CFG DATA`                 from_jpeg_data
//!
//! Answer: `err:<stage>:<class>` or
//! `ok TYPE W H BPC CS FILTER DATA SMASK` with SMASK = `none` | `W,H,BPC,CS,FILTER,DATA`
//! where the fields are read back from the written document through the library's reader
//! (DATA after the reader's filters; for DCTDecode the raw stream bytes).
use oxidize_pdf::parser::objects::{PdfDictionary, PdfObject};
use oxidize_pdf::parser::{ParseOptions, PdfReader};
use oxidize_pdf::{ColorSpace, Document, Image, Page};
use oxiharness::*;

// ---------------------------------------------------------------------------------------------
// PNG encoder (own code; re-validated by the Lean reference encoder Spec/C24Png.lean)
// ---------------------------------------------------------------------------------------------

fn crc32(data: &[u8]) -> u32 {
    let mut c: u32 = 0xFFFF_FFFF;
    for &b in data {
        c ^= b as u32;
        for _ in 0..8 {
            c = if c & 1 != 0 { (c >> 1) ^ 0xEDB8_8320 } else { c >> 1 };
        }
    }
    c ^ 0xFFFF_FFFF
}

fn adler32(data: &[u8]) -> u32 {
    let (mut a, mut b) = (1u32, 0u32);
    for &x in data {
        a = (a + x as u32) % 65521;
        b = (b + a) % 65521;
    }
    (b << 16) | a
}

fn zlib_stored(data: &[u8], blk: usize) -> Vec<u8> {
    let blk = blk.clamp(1, 65535);
    let mut out = vec![0x78, 0x01];
    if data.is_empty() {
        out.extend_from_slice(&[1, 0, 0, 0xFF, 0xFF]);
    } else {
        let n = data.len().div_ceil(blk);
        for (i, c) in data.chunks(blk).enumerate() {
            out.push(if i + 1 == n { 1 } else { 0 });
            let l = c.len() as u16;
            out.extend_from_slice(&l.to_le_bytes());
            out.extend_from_slice(&(!l).to_le_bytes());
            out.extend_from_slice(c);
        }
    }
    out.extend_from_slice(&adler32(data).to_be_bytes());
    out
}

fn zlib_flate(data: &[u8]) -> Vec<u8> {
    use std::io::Write;
    let mut e = flate2::write::ZlibEncoder::new(Vec::new(), flate2::Compression::default());
    e.write_all(data).unwrap();
    e.finish().unwrap()
}

fn chunk(out: &mut Vec<u8>, ty: &[u8; 4], data: &[u8]) {
    out.extend_from_slice(&(data.len() as u32).to_be_bytes());
    let mut td = ty.to_vec();
    td.extend_from_slice(data);
    out.extend_from_slice(&td);
    out.extend_from_slice(&crc32(&td).to_be_bytes());
}

fn channels(ct: u8) -> usize {
    match ct {
        0 | 3 => 1,
        2 => 3,
        4 => 2,
        6 => 4,
        _ => 1,
    }
}

fn paeth(a: u8, b: u8, c: u8) -> u8 {
    let (a, b, c) = (a as i32, b as i32, c as i32);
    let p = a + b - c;
    let (pa, pb, pc) = ((p - a).abs(), (p - b).abs(), (p - c).abs());
    if pa <= pb && pa <= pc {
        a as u8
    } else if pb <= pc {
        b as u8
    } else {
        c as u8
    }
}

fn filter_row(ft: u8, bpp: usize, prev: &[u8], cur: &[u8]) -> Vec<u8> {
    (0..cur.len())
        .map(|i| {
            let a = if i >= bpp { cur[i - bpp] } else { 0 };
            let b = prev[i];
            let c = if i >= bpp { prev[i - bpp] } else { 0 };
            let pred = match ft {
                0 => 0,
                1 => a,
                2 => b,
                3 => ((a as u16 + b as u16) / 2) as u8,
                _ => paeth(a, b, c),
            };
            cur[i].wrapping_sub(pred)
        })
        .collect()
}

/// bits [off, off+n) of a packed row, MSB first
fn get_bits(row: &[u8], off: usize, n: usize) -> Vec<bool> {
    (off..off + n).map(|i| (row[i / 8] >> (7 - i % 8)) & 1 == 1).collect()
}

fn pack_bits(bits: &[bool]) -> Vec<u8> {
    let mut out = vec![0u8; bits.len().div_ceil(8)];
    for (i, &b) in bits.iter().enumerate() {
        if b {
            out[i / 8] |= 1 << (7 - i % 8);
        }
    }
    out
}

const ADAM7: [(usize, usize, usize, usize); 7] =
    [(0, 0, 8, 8), (4, 0, 8, 8), (0, 4, 4, 8), (2, 0, 4, 4), (0, 2, 2, 4), (1, 0, 2, 2), (0, 1, 1, 2)];

#[derive(Clone)]
struct Desc {
    w: usize,
    h: usize,
    depth: u8,
    ct: u8,
    il: u8,
    filters: Vec<u8>,
    plte: Option<Vec<u8>>,
    trns: Option<Vec<u8>>,
    splits: Vec<usize>,
    z: String,
    anc: String,
    rows: Vec<u8>,
}

fn row_bytes(w: usize, depth: u8, ct: u8) -> usize {
    (w * depth as usize * channels(ct)).div_ceil(8)
}

/// the sequence of (unfiltered) scanline groups: one group for a non-interlaced image,
/// one per non-empty Adam7 pass otherwise
fn sub_images(d: &Desc) -> Vec<Vec<Vec<u8>>> {
    let rb = row_bytes(d.w, d.depth, d.ct);
    let rows: Vec<&[u8]> = (0..d.h).map(|y| &d.rows[y * rb..(y + 1) * rb]).collect();
    if d.il == 0 {
        return vec![rows.iter().map(|r| r.to_vec()).collect()];
    }
    let pb = d.depth as usize * channels(d.ct);
    let mut out = vec![];
    for &(xs, ys, dx, dy) in ADAM7.iter() {
        if d.w <= xs || d.h <= ys {
            continue;
        }
        let mut pass = vec![];
        let mut y = ys;
        while y < d.h {
            let mut bits = vec![];
            let mut x = xs;
            while x < d.w {
                bits.extend(get_bits(rows[y], x * pb, pb));
                x += dx;
            }
            pass.push(pack_bits(&bits));
            y += dy;
        }
        out.push(pass);
    }
    out
}

fn filtered_stream(d: &Desc) -> Vec<u8> {
    let bpp = std::cmp::max(1, d.depth as usize * channels(d.ct) / 8);
    let mut out = vec![];
    let mut k = 0usize;
    for pass in sub_images(d) {
        let mut prev = vec![0u8; pass.first().map(|r| r.len()).unwrap_or(0)];
        for row in pass {
            let ft = if d.filters.is_empty() { 0 } else { d.filters[k % d.filters.len()] };
            k += 1;
            out.push(ft);
            out.extend(filter_row(ft, bpp, &prev, &row));
            prev = row;
        }
    }
    out
}

fn encode_png(d: &Desc) -> Vec<u8> {
    let mut out = b"\x89PNG\r\n\x1a\n".to_vec();
    let mut ihdr = vec![];
    ihdr.extend_from_slice(&(d.w as u32).to_be_bytes());
    ihdr.extend_from_slice(&(d.h as u32).to_be_bytes());
    ihdr.extend_from_slice(&[d.depth, d.ct, 0, 0, d.il]);
    chunk(&mut out, b"IHDR", &ihdr);
    if d.anc.contains('g') {
        chunk(&mut out, b"gAMA", &[0, 0, 0xB1, 0x8F]);
    }
    if let Some(p) = &d.plte {
        chunk(&mut out, b"PLTE", p);
    }
    if d.anc.contains('k') {
        chunk(&mut out, b"bKGD", &[0, 0]);
    }
    if let Some(t) = &d.trns {
        chunk(&mut out, b"tRNS", t);
    }
    let raw = filtered_stream(d);
    let z = if d.z == "f" {
        zlib_flate(&raw)
    } else {
        zlib_stored(&raw, d.z[1..].parse().unwrap_or(65535))
    };
    if d.anc.contains('e') {
        chunk(&mut out, b"IDAT", &[]); // zero-length IDAT chunks are legal
    }
    let mut pos = 0;
    let mut wrote = false;
    for &s in &d.splits {
        if s == 0 || pos >= z.len() {
            continue;
        }
        let e = (pos + s).min(z.len());
        chunk(&mut out, b"IDAT", &z[pos..e]);
        pos = e;
        wrote = true;
    }
    if pos < z.len() || !wrote {
        chunk(&mut out, b"IDAT", &z[pos..]);
    }
    if d.anc.contains('e') {
        chunk(&mut out, b"IDAT", &[]);
    }
    if d.anc.contains('t') {
        chunk(&mut out, b"tEXt", b"Comment\0c24");
    }
    chunk(&mut out, b"IEND", &[]);
    if d.anc.contains('z') {
        out.extend_from_slice(b"trailing");
    }
    out
}

fn opt_hex(o: &Option<Vec<u8>>) -> String {
    match o {
        None => ".".into(),
        Some(v) => hex(v),
    }
}

fn show_png_req(cfg: &str, d: &Desc, mutl: &str, png: &[u8]) -> String {
    format!(
        "png {} {} {} {} {} {} {} {} {} {} {} {} {} {} {}",
        cfg,
        d.w,
        d.h,
        d.depth,
        d.ct,
        d.il,
        d.filters.iter().map(|f| char::from(b'0' + *f)).collect::<String>(),
        opt_hex(&d.plte),
        opt_hex(&d.trns),
        d.splits.iter().map(|s| s.to_string()).collect::<Vec<_>>().join(","),
        d.z,
        if d.anc.is_empty() { "-" } else { &d.anc },
        mutl,
        hex(&d.rows),
        hex(png)
    )
}

// ---------------------------------------------------------------------------------------------
// the real code
// ---------------------------------------------------------------------------------------------

fn classify(msg: &str) -> &'static str {
    const T: [(&str, &str); 25] = [
        ("Invalid PNG bit depth", "depth"),
        ("Palette PNG missing PLTE chunk", "noplte"),
        ("PNG palette index", "palindex"),
        ("Invalid PNG signature", "signature"),
        ("Unexpected end of PNG data", "eof"),
        ("Invalid chunk length", "chunklen"),
        ("Invalid IHDR chunk", "ihdr"),
        ("Invalid PNG color type", "colortype"),
        ("Unsupported PNG compression/filter method", "method"),
        ("Interlaced PNG not yet supported", "interlaced"),
        ("Invalid PLTE chunk", "plte"),
        ("PNG missing IHDR chunk", "noihdr"),
        ("PNG has invalid dimensions", "dims"),
        ("PNG missing IDAT chunks", "noidat"),
        ("PNG decompression failed", "inflate"),
        ("PNG decompressed size exceeds", "toolarge"),
        ("Insufficient PNG image data", "insufficient"),
        ("Unknown PNG filter type", "filtertype"),
        ("data size doesn't match dimensions", "size"),
        ("Not a valid JPEG file", "notjpeg"),
        ("Invalid JPEG marker", "jpeg-marker"),
        ("Truncated JPEG file", "jpeg-trunc"),
        ("Could not find image dimensions", "jpeg-nodims"),
        ("Unsupported number of components", "jpeg-components"),
        ("RGBA data size", "size"),
    ];
    for (k, v) in T {
        if msg.contains(k) {
            return v;
        }
    }
    "other"
}

fn name_of(d: &PdfDictionary, k: &str) -> String {
    match d.get(k) {
        Some(PdfObject::Name(n)) => n.as_str().to_string(),
        None => "none".into(),
        Some(PdfObject::Array(a)) => {
            let v: Vec<String> =
                a.0.iter().map(|o| o.as_name().map(|n| n.as_str().to_string()).unwrap_or("?".into())).collect();
            format!("[{}]", v.join("+"))
        }
        Some(_) => "?".into(),
    }
}

fn int_of(d: &PdfDictionary, k: &str) -> String {
    match d.get(k) {
        Some(o) => o.as_integer().map(|i| i.to_string()).unwrap_or("?".into()),
        None => "none".into(),
    }
}

fn embed_and_read(img: Image, compress: bool) -> String {
    let mut doc = Document::new();
    doc.set_compress(compress);
    let mut page = Page::new(200.0, 200.0);
    page.add_image("Im1", img);
    if page.draw_image("Im1", 10.0, 10.0, 100.0, 100.0).is_err() {
        return "err:write:draw".into();
    }
    doc.add_page(page);
    let bytes = match doc.to_bytes() {
        Ok(b) => b,
        Err(_) => return "err:write:to_bytes".into(),
    };
    let reader = match PdfReader::new(std::io::Cursor::new(bytes)) {
        Ok(r) => r,
        Err(_) => return "err:read:open".into(),
    };
    let pdf = reader.into_document();
    let page = match pdf.get_page(0) {
        Ok(p) => p,
        Err(_) => return "err:read:page".into(),
    };
    let Some(res) = page.get_resources() else { return "err:read:resources".into() };
    let Some(xo) = res.get("XObject") else { return "err:read:no-xobject".into() };
    let Ok(xo) = pdf.resolve(xo) else { return "err:read:xobject".into() };
    let Some(xo) = xo.as_dict() else { return "err:read:xobject-type".into() };
    if xo.0.len() != 1 {
        return "err:read:xobject-count".into();
    }
    let Some(im) = xo.get("Im1") else { return "err:read:no-im1".into() };
    let Ok(im) = pdf.resolve(im) else { return "err:read:im1".into() };
    let Some(st) = im.as_stream() else { return "err:read:im1-not-stream".into() };
    let opts = ParseOptions::default();
    let data_of = |st: &oxidize_pdf::parser::objects::PdfStream| -> Result<Vec<u8>, String> {
        if name_of(&st.dict, "Filter") == "DCTDecode" {
            Ok(st.raw_data().to_vec())
        } else {
            st.decode(&opts).map_err(|_| "err:read:decode".to_string())
        }
    };
    let data = match data_of(st) {
        Ok(d) => d,
        Err(e) => return e,
    };
    let sm = match st.dict.get("SMask") {
        None => "none".to_string(),
        Some(r) => {
            let Ok(s) = pdf.resolve(r) else { return "err:read:smask".into() };
            let Some(s) = s.as_stream() else { return "err:read:smask-not-stream".into() };
            let sd = match data_of(s) {
                Ok(d) => d,
                Err(e) => return e,
            };
            format!(
                "{},{},{},{},{},{}",
                int_of(&s.dict, "Width"),
                int_of(&s.dict, "Height"),
                int_of(&s.dict, "BitsPerComponent"),
                name_of(&s.dict, "ColorSpace"),
                name_of(&s.dict, "Filter"),
                hex(&sd)
            )
        }
    };
    format!(
        "ok {}/{} {} {} {} {} {} {} {}",
        name_of(&st.dict, "Type"),
        name_of(&st.dict, "Subtype"),
        int_of(&st.dict, "Width"),
        int_of(&st.dict, "Height"),
        int_of(&st.dict, "BitsPerComponent"),
        name_of(&st.dict, "ColorSpace"),
        name_of(&st.dict, "Filter"),
        hex(&data),
        sm
    )
}

fn run(req: &str) -> String {
    let p: Vec<&str> = req.split(' ').collect();
    match p.as_slice() {
        ["png", cfg, _w, _h, _d, _ct, _il, _f, _pl, _tr, _sp, _z, _anc, _mut, _rows, png] => {
            let Some(bytes) = unhex(png) else { return "bad-request".into() };
            match Image::from_png_data(bytes) {
                Err(e) => format!("err:create:{}", classify(&e.to_string())),
                Ok(img) => embed_and_read(img, *cfg == "c"),
            }
        }
        ["raw", kind, cfg, w, h, bpc, data] => {
            let (Ok(w), Ok(h), Ok(bpc), Some(data)) =
                (w.parse::<u32>(), h.parse::<u32>(), bpc.parse::<u8>(), unhex(data))
            else {
                return "bad-request".into();
            };
            let img = match *kind {
                "rgb" => Ok(Image::from_raw_data(data, w, h, ColorSpace::DeviceRGB, bpc)),
                "gray" => Ok(Image::from_raw_data(data, w, h, ColorSpace::DeviceGray, bpc)),
                "cmyk" => Ok(Image::from_raw_data(data, w, h, ColorSpace::DeviceCMYK, bpc)),
                "grayd" => Image::from_gray_data(data, w, h),
                "rgba" => Image::from_rgba_data(data, w, h),
                _ => return "bad-request".into(),
            };
            match img {
                Err(e) => format!("err:create:{}", classify(&e.to_string())),
                Ok(img) => embed_and_read(img, *cfg == "c"),
            }
        }
        ["jpeg", cfg, data] => {
            let Some(data) = unhex(data) else { return "bad-request".into() };
            match Image::from_jpeg_data(data) {
                Err(e) => format!("err:create:{}", classify(&e.to_string())),
                Ok(img) => embed_and_read(img, *cfg == "c"),
            }
        }
        _ => "bad-request".into(),
    }
}

// ---------------------------------------------------------------------------------------------
// generator
// ---------------------------------------------------------------------------------------------

const COMBOS: [(u8, u8); 15] = [
    (0, 1), (0, 2), (0, 4), (0, 8), (0, 16),
    (2, 8), (2, 16),
    (3, 1), (3, 2), (3, 4), (3, 8),
    (4, 8), (4, 16),
    (6, 8), (6, 16),
];

fn gen_rows(rng: &mut Rng, w: usize, h: usize, depth: u8, ct: u8, npal: usize, key: &Option<Vec<u8>>) -> Vec<u8> {
    let pb = depth as usize * channels(ct);
    let mut rows = vec![];
    let style = rng.below(4);
    for y in 0..h {
        let mut bits: Vec<bool> = vec![];
        for x in 0..w {
            // pixel as bytes, then as bits
            let mut px: Vec<u8> = match style {
                0 => rng.bytes(pb.div_ceil(8)),
                1 => vec![((x * 37 + y * 101) & 0xFF) as u8; pb.div_ceil(8)]
                    .iter()
                    .enumerate()
                    .map(|(i, b)| b.wrapping_add((i * 53) as u8))
                    .collect(),
                2 => (0..pb.div_ceil(8)).map(|_| *rng.pick(&[0u8, 0xFF, 0x80, 0x7F, 0x01])).collect(),
                _ => rng.bytes(pb.div_ceil(8)),
            };
            // colour-key pixels appear often when a tRNS key is given (ct 0/2)
            if let Some(k) = key {
                if (ct == 0 || ct == 2) && rng.chance(1, 6) {
                    // near miss: the key with one bit of one sample flipped (at depth 16 in the
                    // low or the high byte) must stay opaque
                    let mut nk = k.clone();
                    let i = rng.below(nk.len() as u64 / 2) as usize * 2;
                    if depth == 16 {
                        nk[i + rng.below(2) as usize] ^= 1 << rng.below(8);
                    } else {
                        nk[i + 1] ^= 1 << rng.below(depth.min(8) as u64);
                    }
                    px = if depth == 16 {
                        nk
                    } else if depth == 8 {
                        nk.chunks(2).map(|c| c[1]).collect()
                    } else {
                        vec![nk[1] << (8 - depth)]
                    };
                } else if (ct == 0 || ct == 2) && rng.chance(1, 3) {
                    px = if depth == 16 {
                        k.clone()
                    } else if depth == 8 {
                        k.chunks(2).map(|c| c[1]).collect()
                    } else {
                        // sub-byte grey: value in the high bits of one byte
                        vec![k[1] << (8 - depth)]
                    };
                }
            }
            let mut b = if pb < 8 { get_bits(&px, 0, pb) } else { get_bits(&px, 0, pb) };
            if ct == 3 {
                // keep palette indices in range
                let mut v = 0usize;
                for &bit in &b {
                    v = v * 2 + bit as usize;
                }
                let v = v % npal.max(1);
                b = (0..pb).map(|i| (v >> (pb - 1 - i)) & 1 == 1).collect();
            }
            bits.extend(b);
        }
        rows.extend(pack_bits(&bits));
        // pack_bits pads the row to a byte boundary
    }
    let _ = h;
    rows
}

fn scanline_count(d: &Desc) -> usize {
    sub_images(d).iter().map(|p| p.len()).sum()
}

fn gen_desc(rng: &mut Rng, ct: u8, depth: u8, w: usize, h: usize, il: u8, fstyle: u64) -> Desc {
    let npal = if ct == 3 { 1 + rng.below(1 << depth.min(8)) as usize } else { 0 };
    let plte = if ct == 3 {
        Some(rng.bytes(npal * 3))
    } else if (ct == 2 || ct == 6) && rng.chance(1, 8) {
        { let k = 3 * (1 + rng.below(4) as usize); Some(rng.bytes(k)) } // suggested palette, legal for truecolour
    } else {
        None
    };
    let trns = match ct {
        0 if rng.chance(1, 3) => {
            let v = (rng.next() as u16) & (((1u32 << depth) - 1) as u16);
            Some(v.to_be_bytes().to_vec())
        }
        2 if rng.chance(1, 3) => {
            let m = ((1u32 << depth) - 1) as u16;
            let mut t = vec![];
            for _ in 0..3 {
                t.extend_from_slice(&((rng.next() as u16) & m).to_be_bytes());
            }
            Some(t)
        }
        3 if rng.chance(1, 2) => { let k = rng.below(npal as u64 + 1) as usize; Some(rng.bytes(k)) }
        _ => None,
    };
    let rows = gen_rows(rng, w, h, depth, ct, npal, &trns);
    let mut d = Desc {
        w,
        h,
        depth,
        ct,
        il,
        filters: vec![],
        plte,
        trns,
        splits: vec![0],
        z: "s65535".into(),
        anc: String::new(),
        rows,
    };
    let n = scanline_count(&d).max(1);
    d.filters = match fstyle {
        0..=4 => vec![fstyle as u8; 1],
        5 => (0..n).map(|i| (i % 5) as u8).collect(),
        _ => (0..n).map(|_| rng.below(5) as u8).collect(),
    };
    match rng.below(6) {
        0 => d.splits = vec![1, 1, 1 + rng.below(5) as usize],
        1 => d.splits = (0..1 + rng.below(4)).map(|_| 1 + rng.below(40) as usize).collect(),
        2 => d.splits = vec![2, 4], // cut inside the stored-block header
        _ => {}
    }
    match rng.below(8) {
        0 => d.z = "f".into(),
        1 => d.z = format!("s{}", 1 + rng.below(9)),
        2 => d.z = format!("s{}", 1 + rng.below(300)),
        _ => {}
    }
    for (c, den) in [('g', 4), ('k', 8), ('t', 4), ('z', 10), ('e', 8)] {
        if rng.chance(1, den) {
            d.anc.push(c);
        }
    }
    d
}

fn tags_of(d: &Desc, extra: &str) -> String {
    let nt = d.w * d.h >= 2;
    format!(
        "png ct{} d{} il{} {}{}{}{}",
        d.ct,
        d.depth,
        d.il,
        if d.trns.is_some() { "trns " } else { "" },
        if d.w % 8 != 0 { "w%8 " } else { "w8 " },
        extra,
        if nt { " nt" } else { "" }
    )
}

fn push_png(cases: &mut Vec<Case>, rng: &mut Rng, d: &Desc) {
    let png = encode_png(d);
    let cfg = if rng.chance(1, 2) { "u" } else { "c" };
    cases.push(Case::new(show_png_req(cfg, d, "-", &png), tags_of(d, "valid")));
}

fn mutate(rng: &mut Rng, d: &Desc) -> (String, Vec<u8>) {
    let png = encode_png(d);
    let mut m = png.clone();
    // chunk table of the valid file
    let mut offs = vec![];
    let mut p = 8;
    while p + 8 <= png.len() {
        let l = u32::from_be_bytes([png[p], png[p + 1], png[p + 2], png[p + 3]]) as usize;
        if p + 12 + l > png.len() {
            break;
        }
        offs.push((p, l, [png[p + 4], png[p + 5], png[p + 6], png[p + 7]]));
        if &png[p + 4..p + 8] == b"IEND" {
            break;
        }
        p += 12 + l;
    }
    let ihdr = 16; // offset of IHDR data
    let label;
    match rng.below(21) {
        0 => {
            let i = rng.below(8) as usize;
            m[i] ^= 1 << rng.below(8);
            label = "sig";
        }
        1 => {
            let n = rng.below(png.len() as u64) as usize;
            m.truncate(n);
            label = "trunc";
        }
        2 => {
            m[ihdr + 9] = *rng.pick(&[1u8, 5, 7, 8, 255]);
            label = "ct-invalid";
        }
        3 => {
            m[ihdr + 10 + rng.below(2) as usize] = 1;
            label = "method";
        }
        4 => {
            m[ihdr + 12] = *rng.pick(&[1u8, 2, 255]);
            label = "il-byte";
        }
        5 => {
            let z = rng.chance(1, 2);
            for i in 0..4 {
                m[ihdr + if z { 0 } else { 4 } + i] = 0;
            }
            label = "dim0";
        }
        6 => {
            // width / height grow: more data expected than present
            let which = if rng.chance(1, 2) { 0 } else { 4 };
            m[ihdr + which + 3] = m[ihdr + which + 3].wrapping_add(1 + rng.below(3) as u8);
            label = "dim+";
        }
        7 => {
            // width / height shrink: surplus data
            let which = if rng.chance(1, 2) { 0 } else { 4 };
            if m[ihdr + which + 3] > 1 {
                m[ihdr + which + 3] -= 1;
            }
            label = "dim-";
        }
        8 => {
            // huge dimensions (usize arithmetic in debug build)
            for i in 0..8 {
                m[ihdr + i] = 0xFF;
            }
            label = "dim-huge";
        }
        9 => {
            // rename a chunk
            let (o, _, _) = *rng.pick(&offs);
            let t = *rng.pick(&[b"IDAT", b"IEND", b"PLTE", b"tRNS", b"IHDR", b"abCd"]);
            m[o + 4..o + 8].copy_from_slice(t);
            label = "rename";
        }
        10 => {
            // chunk length field off
            let (o, l, _) = *rng.pick(&offs);
            let nl = match rng.below(4) {
                0 => l + 1,
                1 => l.saturating_sub(1),
                2 => 0xFFFF_FFFF,
                _ => l + 12,
            } as u32;
            m[o..o + 4].copy_from_slice(&nl.to_be_bytes());
            label = "len";
        }
        11 => {
            // bit depth byte changed (valid or invalid value)
            m[ihdr + 8] = *rng.pick(&[0u8, 1, 2, 3, 4, 8, 16, 32]);
            label = "depth";
        }
        12 => {
            // colour type changed to another valid one
            m[ihdr + 9] = *rng.pick(&[0u8, 2, 3, 4, 6]);
            label = "ct-swap";
        }
        16 => {
            // cut near the end / at and around chunk boundaries
            let (o, l, _) = *rng.pick(&offs);
            let at = match rng.below(6) {
                0 => png.len() - 1,
                1 => png.len() - 4,
                2 => png.len() - 5,
                3 => o + 12 + l,
                4 => (o + 12 + l).saturating_sub(1),
                _ => (o + 8).min(png.len()),
            };
            m.truncate(at.min(png.len()));
            label = "cut";
        }
        17 => {
            // IHDR chunk of 12 or 14 data bytes (re-built with a valid CRC)
            let mut data = png[16..29].to_vec();
            if rng.chance(1, 2) {
                data.pop();
            } else {
                data.push(rng.next() as u8);
            }
            let mut n = png[..8].to_vec();
            chunk(&mut n, b"IHDR", &data);
            n.extend_from_slice(&png[33..]);
            m = n;
            label = "ihdr-len";
        }
        18 => {
            // a PLTE chunk whose length is / is not a multiple of 3, inserted after IHDR
            let k = rng.below(8) as usize;
            let mut n = png[..33].to_vec();
            chunk(&mut n, b"PLTE", &rng.bytes(k));
            n.extend_from_slice(&png[33..]);
            m = n;
            label = "plte-len";
        }
        19 => {
            // no IEND: the file ends after the last IDAT (or with garbage shorter than a header)
            if let Some(&(o, _, _)) = offs.iter().find(|c| &c.2 == b"IEND") {
                m.truncate(o);
                let k = rng.below(8) as usize;
                m.extend(rng.bytes(k));
            }
            label = "no-iend";
        }
        20 => {
            // a tRNS chunk placed before IHDR is read with the default colour type; second IHDR wins
            let mut n = png[..8].to_vec();
            chunk(&mut n, b"tRNS", &rng.bytes(2));
            n.extend_from_slice(&png[8..33]);
            if rng.chance(1, 2) {
                let mut ih = png[16..29].to_vec();
                ih[9] = *rng.pick(&[0u8, 2, 4, 6]);
                chunk(&mut n, b"IHDR", &ih);
            }
            n.extend_from_slice(&png[33..]);
            m = n;
            label = "order";
        }
        13 => {
            // drop a chunk
            let (o, l, _) = *rng.pick(&offs);
            m.drain(o..o + 12 + l);
            label = "drop";
        }
        14 => {
            // duplicate a chunk at the end / swap order
            let (o, l, _) = *rng.pick(&offs);
            let c = png[o..o + 12 + l].to_vec();
            let (o2, _, _) = *rng.pick(&offs);
            let mut n = png[..o2].to_vec();
            n.extend_from_slice(&c);
            n.extend_from_slice(&png[o2..]);
            m = n;
            label = "dup";
        }
        _ => {
            // filter type byte 5..255 in a stored stream: re-encode with a bad filter byte
            let mut d2 = d.clone();
            d2.z = "s65535".into();
            d2.splits = vec![0];
            d2.anc.clear();
            let mut raw = filtered_stream(&d2);
            let rb = if d2.il == 0 { row_bytes(d2.w, d2.depth, d2.ct) + 1 } else { raw.len() };
            let r = rng.below(d2.h as u64) as usize;
            if d2.il == 0 && r * rb < raw.len() {
                raw[r * rb] = 5 + rng.below(250) as u8;
            }
            // rebuild the file by hand
            let mut out = b"\x89PNG\r\n\x1a\n".to_vec();
            chunk(&mut out, b"IHDR", &png[16..29]);
            if let Some(p) = &d2.plte {
                chunk(&mut out, b"PLTE", p);
            }
            chunk(&mut out, b"IDAT", &zlib_stored(&raw, 65535));
            chunk(&mut out, b"IEND", &[]);
            m = out;
            label = "badfilter";
        }
    }
    (label.to_string(), m)
}

/// zlib inflate is an external parameter of the model: for mutated files the harness ships what
/// flate2 makes of the IDAT payload (lenient chunk walk, same read loop as `decompress_idat`);
/// the model consults it only where its own stored-block inflater cannot tell.
fn ext_inflate(png: &[u8]) -> String {
    use std::io::Read;
    let mut z = vec![];
    let mut p = 8usize;
    while p + 8 <= png.len() {
        let l = u32::from_be_bytes([png[p], png[p + 1], png[p + 2], png[p + 3]]) as usize;
        if p + 12 + l > png.len() {
            break;
        }
        let ty = &png[p + 4..p + 8];
        if ty == b"IDAT" {
            z.extend_from_slice(&png[p + 8..p + 8 + l]);
        }
        if ty == b"IEND" {
            break;
        }
        p += 12 + l;
    }
    let mut dec = flate2::read::ZlibDecoder::new(&z[..]);
    let mut out = vec![];
    let mut buf = [0u8; 16384];
    loop {
        match dec.read(&mut buf) {
            Ok(0) => break,
            Ok(n) => out.extend_from_slice(&buf[..n]),
            Err(_) => return "E".into(),
        }
    }
    hex(&out)
}

fn tiny_jpeg(rng: &mut Rng, w: u16, h: u16, comps: u8, sof: u8) -> Vec<u8> {
    let mut v = vec![0xFF, 0xD8];
    // APP0
    v.extend_from_slice(&[0xFF, 0xE0, 0x00, 0x10]);
    v.extend_from_slice(b"JFIF\0\x01\x01\0\0\x01\0\x01\0\0");
    if rng.chance(1, 3) {
        v.extend_from_slice(&[0xFF, 0xFF]); // fill bytes before a marker
    }
    if rng.chance(1, 2) {
        // DQT
        v.extend_from_slice(&[0xFF, 0xDB, 0x00, 0x43, 0x00]);
        v.extend(rng.bytes(64));
    }
    v.extend_from_slice(&[0xFF, sof, 0x00, 8 + 3 * comps, 8]);
    v.extend_from_slice(&h.to_be_bytes());
    v.extend_from_slice(&w.to_be_bytes());
    v.push(comps);
    for c in 0..comps {
        v.extend_from_slice(&[c + 1, 0x11, 0]);
    }
    v.extend_from_slice(&[0xFF, 0xDA, 0x00, 0x08, 0x01, 0x01, 0x00, 0x00, 0x3F, 0x00]);
    let n = rng.below(40) as usize;
    v.extend(rng.bytes(n).into_iter().map(|b| if b == 0xFF { 0xFE } else { b }));
    // bytes that look like PDF syntax / EOLs must survive unchanged
    v.extend_from_slice(b"\r\nendstream\nendobj\r");
    v.extend_from_slice(&[0xFF, 0xD9]);
    v
}

fn gen(rng: &mut Rng, tier: Tier) -> Vec<Case> {
    let mut cases = vec![];
    let widths: [usize; 14] = [1, 2, 3, 4, 5, 7, 8, 9, 11, 15, 16, 17, 31, 33];
    let heights: [usize; 8] = [1, 2, 3, 4, 5, 8, 9, 13];
    let reps = if tier == Tier::Quick { 1 } else { 6 };

    // 1. systematic: every colour type x bit depth x interlace x filter style, varied sizes
    for _ in 0..reps {
        for &(ct, depth) in COMBOS.iter() {
            for il in 0..2u8 {
                for fstyle in 0..7u64 {
                    let w = *rng.pick(&widths);
                    let h = *rng.pick(&heights);
                    let d = gen_desc(rng, ct, depth, w, h, il, fstyle);
                    push_png(&mut cases, rng, &d);
                }
            }
        }
    }
    // 2. size boundaries for the layouts the decoder accepts and the ones it mis-sizes
    for &(ct, depth) in COMBOS.iter() {
        for &(w, h) in &[(1usize, 1usize), (1, 2), (2, 1), (8, 1), (9, 1), (1, 9), (7, 3), (16, 2)] {
            let d = gen_desc(rng, ct, depth, w, h, 0, 6);
            push_png(&mut cases, rng, &d);
        }
    }
    // 2b. packed layouts: widths around the byte boundaries of 1/2/4-bit samples (grey, grey with
    // a tRNS key, palette with and without tRNS), Paeth and mixed filters; one-pixel-wide images
    // (every filter then only sees the row above); 16-bit alpha layouts with filter mixes; a full
    // 256-entry palette
    for &(depth, ws) in &[
        (1u8, &[1usize, 2, 7, 8, 9, 15, 16, 17][..]),
        (2, &[1, 2, 3, 4, 5, 8, 9][..]),
        (4, &[1, 2, 3, 4, 5][..]),
    ] {
        for &ct in &[0u8, 3] {
            for &w in ws {
                let h = 1 + rng.below(4) as usize;
                let fstyle = *rng.pick(&[4u64, 6, 6]);
                let d = gen_desc(rng, ct, depth, w, h, 0, fstyle);
                push_png(&mut cases, rng, &d);
            }
        }
    }
    for &(ct, depth) in &[(4u8, 16u8), (6, 16), (4, 8), (6, 8), (2, 16), (0, 16)] {
        for &w in &[1usize, 2, 3] {
            for &fstyle in &[5u64, 6, 4, 3] {
                let h = 2 + rng.below(4) as usize;
                let d = gen_desc(rng, ct, depth, w, h, 0, fstyle);
                push_png(&mut cases, rng, &d);
            }
        }
    }
    for _ in 0..3 {
        // all 256 palette entries, tRNS shorter than the palette; indices cover 0 and 255
        let (w, h) = (16usize, 1 + rng.below(3) as usize);
        let mut d = gen_desc(rng, 3, 8, w, h, 0, 6);
        d.plte = Some(rng.bytes(768));
        let nt = 1 + rng.below(255) as usize;
        d.trns = Some(rng.bytes(nt));
        d.rows = rng.bytes(w * h);
        d.rows[0] = 255;
        d.rows[1] = 0;
        push_png(&mut cases, rng, &d);
    }
    // 3. random valid
    let n_rand = if tier == Tier::Quick { 500 } else { 6000 };
    for _ in 0..n_rand {
        let (ct, depth) = *rng.pick(&COMBOS);
        // a quarter of the cases are the plain 8-bit layouts
        let (ct, depth) = if rng.chance(1, 4) { (*rng.pick(&[0u8, 2, 4, 6]), 8) } else { (ct, depth) };
        let il = if rng.chance(1, 6) { 1 } else { 0 };
        let w = if rng.chance(1, 10) { 1 + rng.below(70) as usize } else { 1 + rng.below(20) as usize };
        let hm = if rng.chance(1, 10) { 40 } else { 12 };
        let h = 1 + rng.below(hm) as usize;
        let d = gen_desc(rng, ct, depth, w, h, il, 6);
        push_png(&mut cases, rng, &d);
    }
    // 4. malformed stream: mutations of valid files
    let n_mut = if tier == Tier::Quick { 500 } else { 5000 };
    for _ in 0..n_mut {
        let (ct, depth) = if rng.chance(2, 3) { (*rng.pick(&[0u8, 2, 4, 6]), 8) } else { *rng.pick(&COMBOS) };
        let w = 1 + rng.below(9) as usize;
        let h = 1 + rng.below(6) as usize;
        let mut d = gen_desc(rng, ct, depth, w, h, 0, 6);
        if d.z == "f" {
            // mutated files always use stored deflate blocks: the model's own inflater covers them
            d.z = "s7".into();
        }
        let (label, m) = mutate(rng, &d);
        let tag = format!("png-mut {} nt", label);
        let label = format!("{}:{}", label, ext_inflate(&m));
        let cfg = if rng.chance(1, 2) { "u" } else { "c" };
        cases.push(Case::new(show_png_req(cfg, &d, &label, &m), tag));
    }
    // 5. raw buffers
    let n_raw = if tier == Tier::Quick { 300 } else { 3000 };
    for _ in 0..n_raw {
        let kind = *rng.pick(&["rgb", "gray", "cmyk", "grayd", "rgba", "rgba", "grayd"]);
        let w = 1 + rng.below(12) as usize;
        let h = 1 + rng.below(9) as usize;
        let bpc: usize = if kind == "grayd" || kind == "rgba" { 8 } else { *rng.pick(&[1usize, 2, 4, 8, 8, 8, 16]) };
        let comps = match kind {
            "rgb" => 3,
            "cmyk" => 4,
            "rgba" => 4,
            _ => 1,
        };
        let mut n = h * (w * comps * bpc).div_ceil(8);
        let mut tag = "exact";
        if rng.chance(1, 8) {
            // wrong length: the checked constructors must refuse, from_raw_data embeds as given
            n = if rng.chance(1, 2) { n + 1 + rng.below(4) as usize } else { n.saturating_sub(1 + rng.below(3) as usize) };
            tag = "wrong-len";
        }
        let data = match rng.below(3) {
            0 => rng.bytes(n),
            1 => (0..n).map(|i| (i * 7) as u8).collect(),
            _ => (0..n).map(|_| *rng.pick(&[0u8, 255, 10, 13, 0x65])).collect(),
        };
        let cfg = if rng.chance(1, 2) { "u" } else { "c" };
        cases.push(Case::new(
            format!("raw {} {} {} {} {} {}", kind, cfg, w, h, bpc, hex(&data)),
            format!("raw {} {}{}", kind, tag, if w * h >= 2 { " nt" } else { "" }),
        ));
    }
    // u32 arithmetic of the checked constructors
    for (kind, w, h) in [("rgba", 65536u64, 16384u64), ("rgba", 32768, 32768), ("grayd", 65536, 65536), ("rgba", 65535, 16385), ("grayd", 65535, 65537)] {
        cases.push(Case::new(format!("raw {} u {} {} 8 -", kind, w, h), "raw overflow nt"));
    }
    // 6. JPEG pass-through
    let n_jpg = if tier == Tier::Quick { 120 } else { 1200 };
    for _ in 0..n_jpg {
        let comps = *rng.pick(&[1u8, 3, 3, 4, 2, 0]);
        let sof = *rng.pick(&[0xC0u8, 0xC0, 0xC1, 0xC2, 0xC4, 0xC8, 0xCC, 0xCF]);
        let w = *rng.pick(&[0u16, 1, 2, 255, 256, 65535]);
        let h = *rng.pick(&[0u16, 1, 3, 255, 256, 65535]);
        let mut j = tiny_jpeg(rng, w, h, comps, sof);
        let mut tag = "wellformed";
        if rng.chance(1, 5) {
            let n = rng.below(j.len() as u64) as usize;
            j.truncate(n);
            tag = "trunc";
        } else if rng.chance(1, 8) {
            let i = rng.below(j.len().min(30) as u64) as usize;
            j[i] ^= 0x40;
            tag = "flip";
        }
        let cfg = if rng.chance(1, 2) { "u" } else { "c" };
        cases.push(Case::new(format!("jpeg {} {}", cfg, hex(&j)), format!("jpeg {} nt", tag)));
    }
    cases
}

fn main() {
    harness_main(gen, run, Limits::default());
}
