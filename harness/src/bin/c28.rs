//! C28 — outlines, destinations, named destinations and GoTo actions written by the real writer,
//! read back from the bytes.
//!
//! Requests:
//!   out  <npages> <forest> [<names> [<open>]]   forest built with OutlineItem::add_child / OutlineTree::add_item
//!   outb <npages> <forest> [<names> [<open>]]   same forest built with OutlineBuilder (push_item/add_item/pop_item)
//!   dst  <dest>                                 Destination::to_array, then Destination::from_array on it
//!   dsta <elem>,<elem>,…                        Destination::from_array on an arbitrary array
//! <forest>  item*            item = ('o'|'c') <tid> '.' <dest> '[' item* ']'   (`_` = no items)
//! <dest>    `-` | <page><K>[ '(' p ';' p … ')' ]
//!           K = F Fit | X XYZ left top zoom | H FitH top | V FitV left | R FitR l b r t | B FitB
//!               | G FitBH top | W FitBV left;   p = `n` (null) | integer, millionths of a unit
//!           (no parentheses = all parameters null)
//! <names>   `_` | <hex(name)>=<dest>,…   Document::set_named_destinations, insertion order
//! <open>    `_` | G<dest>                Document::set_open_action(Action::goto(dest))
//! <elem>    i<int> | r<millionths> | n<Name> | x (null) | R<objnum> | s (a string)
//! title of an item = title_of(tid) (eight shapes, see below)
//!
//! Answer (ids relative to the outline root's object number):
//!   `R:F<f>:L<l>:C<c>|<id>:P<parent>:p<prev>:n<next>:f<first>:l<last>:c<count>:t<titlehex>:d<dest>|…`
//!   items sorted by id, `-` for an absent entry; `none` when the catalog has no /Outlines;
//!   with names: ` N:<hex>=<dest>,…` (the written /Names array in order) ` L:<hexmin>,<hexmax>`
//!   (/Limits) ` G:<dest>,…` (NamedDestinations::get_destination for every authored name in order
//!   of first appearance, then for a name that was never added; `~` = None);
//!   with an open action: ` A:<S>/<dest>`.
//!   written <dest> = `<page>/<Kind>(<p>;…)`, p = `null` | millionths; page `r<n>` for a reference
use oxiharness::*;
use oxidize_pdf::actions::Action;
use oxidize_pdf::geometry::{Point, Rectangle};
use oxidize_pdf::objects::{Array, Object, ObjectId};
use oxidize_pdf::structure::{
    Destination, DestinationType, NamedDestinations, OutlineBuilder, OutlineItem, OutlineTree, PageDestination,
};
use oxidize_pdf::{Document, Page};
use std::collections::BTreeMap;

#[derive(Clone, Debug, PartialEq)]
struct D {
    page: u32,
    kind: char,
    params: Vec<Option<i64>>,
}

#[derive(Clone, Debug)]
struct It {
    open: bool,
    tid: u32,
    dest: Option<D>,
    kids: Vec<It>,
}

fn title_of(tid: u32) -> String {
    match tid % 8 {
        0 => format!("T{}", tid),
        1 => format!("Sec ({})", tid),
        2 => format!("B\\{}", tid),
        3 => format!("Ü\u{1F600}{}", tid),
        4 => format!("{})(", tid),
        5 => format!("{}\r\n\tx\r", tid),
        6 => String::new(),
        _ => format!("L{}#/<>[]{{}}%\\){}", tid, "x".repeat(120)),
    }
}

fn arity(k: char) -> Option<usize> {
    Some(match k {
        'F' | 'B' => 0,
        'X' => 3,
        'H' | 'V' | 'G' | 'W' => 1,
        'R' => 4,
        _ => return None,
    })
}

fn num(s: &[u8], i: &mut usize) -> Option<i64> {
    let st = *i;
    if s.get(*i) == Some(&b'-') {
        *i += 1;
    }
    let d0 = *i;
    while *i < s.len() && s[*i].is_ascii_digit() {
        *i += 1;
    }
    if *i == d0 {
        return None;
    }
    std::str::from_utf8(&s[st..*i]).ok()?.parse().ok()
}

/// `-` → Some(None); a destination → Some(Some(d))
fn parse_dest(s: &[u8], i: &mut usize) -> Option<Option<D>> {
    if s.get(*i) == Some(&b'-') {
        *i += 1;
        return Some(None);
    }
    let d0 = *i;
    while *i < s.len() && s[*i].is_ascii_digit() {
        *i += 1;
    }
    if *i == d0 {
        return None;
    }
    let page: u32 = std::str::from_utf8(&s[d0..*i]).ok()?.parse().ok()?;
    let kind = *s.get(*i)? as char;
    let n = arity(kind)?;
    *i += 1;
    let mut params = vec![];
    if s.get(*i) == Some(&b'(') {
        *i += 1;
        loop {
            if s.get(*i) == Some(&b'n') {
                *i += 1;
                params.push(None);
            } else {
                params.push(Some(num(s, i)?));
            }
            match s.get(*i)? {
                b';' => *i += 1,
                b')' => {
                    *i += 1;
                    break;
                }
                _ => return None,
            }
        }
        if params.len() != n {
            return None;
        }
    } else {
        params = vec![None; n];
    }
    if kind == 'R' && params.iter().any(|p| p.is_none()) {
        return None;
    }
    Some(Some(D { page, kind, params }))
}

fn parse_dest_str(s: &str) -> Option<Option<D>> {
    let b = s.as_bytes();
    let mut i = 0;
    let d = parse_dest(b, &mut i)?;
    if i == b.len() {
        Some(d)
    } else {
        None
    }
}

fn show_dest_req(d: &Option<D>) -> String {
    match d {
        None => "-".into(),
        Some(d) => {
            let mut s = format!("{}{}", d.page, d.kind);
            if d.params.iter().any(|p| p.is_some()) {
                let ps: Vec<String> = d.params.iter().map(|p| p.map(|v| v.to_string()).unwrap_or("n".into())).collect();
                s.push_str(&format!("({})", ps.join(";")));
            }
            s
        }
    }
}

fn parse_items(s: &[u8], i: &mut usize) -> Option<Vec<It>> {
    let mut out = vec![];
    while *i < s.len() && (s[*i] == b'o' || s[*i] == b'c') {
        let open = s[*i] == b'o';
        *i += 1;
        let d0 = *i;
        while *i < s.len() && s[*i].is_ascii_digit() {
            *i += 1;
        }
        if *i == d0 || s.get(*i) != Some(&b'.') {
            return None;
        }
        let tid: u32 = std::str::from_utf8(&s[d0..*i]).ok()?.parse().ok()?;
        *i += 1;
        let dest = parse_dest(s, i)?;
        if s.get(*i) != Some(&b'[') {
            return None;
        }
        *i += 1;
        let kids = parse_items(s, i)?;
        if s.get(*i) != Some(&b']') {
            return None;
        }
        *i += 1;
        out.push(It { open, tid, dest, kids });
    }
    Some(out)
}

fn parse_forest(s: &str) -> Option<Vec<It>> {
    if s == "_" {
        return Some(vec![]);
    }
    let b = s.as_bytes();
    let mut i = 0;
    let v = parse_items(b, &mut i)?;
    if i == b.len() {
        Some(v)
    } else {
        None
    }
}

fn fl(p: Option<i64>) -> Option<f64> {
    p.map(|m| m as f64 / 1_000_000.0)
}

fn mk_dest(d: &D) -> Destination {
    let page = PageDestination::PageNumber(d.page);
    let p = &d.params;
    match d.kind {
        'F' => Destination::fit(page),
        'X' => Destination::xyz(page, fl(p[0]), fl(p[1]), fl(p[2])),
        'H' => Destination::fit_h(page, fl(p[0])),
        'V' => Destination::fit_v(page, fl(p[0])),
        'R' => Destination::fit_r(
            page,
            Rectangle::new(
                Point::new(fl(p[0]).unwrap_or(0.0), fl(p[1]).unwrap_or(0.0)),
                Point::new(fl(p[2]).unwrap_or(0.0), fl(p[3]).unwrap_or(0.0)),
            ),
        ),
        'B' => Destination::fit_b(page),
        'G' => Destination::fit_bh(page, fl(p[0])),
        _ => Destination::fit_bv(page, fl(p[0])),
    }
}

fn bare(it: &It) -> OutlineItem {
    let mut o = OutlineItem::new(title_of(it.tid));
    if let Some(d) = &it.dest {
        o = o.with_destination(mk_dest(d));
    }
    if !it.open {
        o = o.closed();
    }
    o
}

fn direct(it: &It) -> OutlineItem {
    let mut o = bare(it);
    for k in &it.kids {
        o.add_child(direct(k));
    }
    o
}

fn with_builder(b: &mut OutlineBuilder, it: &It) {
    if it.kids.is_empty() {
        b.add_item(bare(it));
    } else {
        b.push_item(bare(it));
        for k in &it.kids {
            with_builder(b, k);
        }
        b.pop_item();
    }
}

// ---- a small reader for the written bytes ---------------------------------------------------

#[derive(Debug, Clone)]
enum V {
    Int(i64),
    Real(String),
    Name(String),
    Str(Vec<u8>),
    Ref(u32),
    Arr(Vec<V>),
    Dict(Vec<(String, V)>),
    Kw(String),
}

struct P<'a> {
    b: &'a [u8],
    i: usize,
}

impl<'a> P<'a> {
    fn ws(&mut self) {
        while self.i < self.b.len() && matches!(self.b[self.i], 0 | 9 | 10 | 12 | 13 | 32) {
            self.i += 1;
        }
    }
    fn regular(c: u8) -> bool {
        !matches!(c, 0 | 9 | 10 | 12 | 13 | 32 | b'(' | b')' | b'<' | b'>' | b'[' | b']' | b'{' | b'}' | b'/' | b'%')
    }
    fn word(&mut self) -> String {
        let s = self.i;
        while self.i < self.b.len() && Self::regular(self.b[self.i]) {
            self.i += 1;
        }
        String::from_utf8_lossy(&self.b[s..self.i]).into_owned()
    }
    fn value(&mut self) -> Option<V> {
        self.ws();
        let c = *self.b.get(self.i)?;
        match c {
            b'/' => {
                self.i += 1;
                Some(V::Name(self.word()))
            }
            b'(' => {
                self.i += 1;
                let mut depth = 0;
                let mut out = vec![];
                loop {
                    let c = *self.b.get(self.i)?;
                    self.i += 1;
                    match c {
                        b'\\' => {
                            let d = *self.b.get(self.i)?;
                            self.i += 1;
                            match d {
                                b'n' => out.push(10),
                                b'r' => out.push(13),
                                b't' => out.push(9),
                                b'b' => out.push(8),
                                b'f' => out.push(12),
                                b'0'..=b'7' => {
                                    let mut v = (d - b'0') as u32;
                                    for _ in 0..2 {
                                        match self.b.get(self.i) {
                                            Some(&e) if (b'0'..=b'7').contains(&e) => {
                                                v = v * 8 + (e - b'0') as u32;
                                                self.i += 1;
                                            }
                                            _ => break,
                                        }
                                    }
                                    out.push(v as u8);
                                }
                                b'\n' => {}
                                b'\r' => {
                                    if self.b.get(self.i) == Some(&b'\n') {
                                        self.i += 1;
                                    }
                                }
                                other => out.push(other),
                            }
                        }
                        b'(' => {
                            depth += 1;
                            out.push(c);
                        }
                        b')' => {
                            if depth == 0 {
                                break;
                            }
                            depth -= 1;
                            out.push(c);
                        }
                        b'\r' => {
                            if self.b.get(self.i) == Some(&b'\n') {
                                self.i += 1;
                            }
                            out.push(10);
                        }
                        _ => out.push(c),
                    }
                }
                Some(V::Str(out))
            }
            b'[' => {
                self.i += 1;
                let mut vs: Vec<V> = vec![];
                loop {
                    self.ws();
                    if *self.b.get(self.i)? == b']' {
                        self.i += 1;
                        break;
                    }
                    let v = self.value()?;
                    Self::push(&mut vs, v);
                }
                Some(V::Arr(vs))
            }
            b'<' => {
                if self.b.get(self.i + 1) == Some(&b'<') {
                    self.i += 2;
                    let mut vs: Vec<V> = vec![];
                    loop {
                        self.ws();
                        if self.b.get(self.i) == Some(&b'>') && self.b.get(self.i + 1) == Some(&b'>') {
                            self.i += 2;
                            break;
                        }
                        let v = self.value()?;
                        Self::push(&mut vs, v);
                    }
                    let mut kv = vec![];
                    let mut it = vs.into_iter();
                    while let Some(k) = it.next() {
                        let V::Name(k) = k else { return None };
                        kv.push((k, it.next()?));
                    }
                    Some(V::Dict(kv))
                } else {
                    self.i += 1;
                    let mut out = vec![];
                    let mut pend: Option<u8> = None;
                    loop {
                        let c = *self.b.get(self.i)?;
                        self.i += 1;
                        if c == b'>' {
                            break;
                        }
                        if let Some(h) = (c as char).to_digit(16) {
                            match pend.take() {
                                Some(p) => out.push(p * 16 + h as u8),
                                None => pend = Some(h as u8),
                            }
                        }
                    }
                    if let Some(p) = pend {
                        out.push(p * 16);
                    }
                    Some(V::Str(out))
                }
            }
            _ => {
                let w = self.word();
                if w.is_empty() {
                    return None;
                }
                if let Ok(i) = w.parse::<i64>() {
                    Some(V::Int(i))
                } else if w.parse::<f64>().is_ok() {
                    Some(V::Real(w))
                } else {
                    Some(V::Kw(w))
                }
            }
        }
    }
    /// `N G R` becomes a reference
    fn push(vs: &mut Vec<V>, v: V) {
        if let V::Kw(k) = &v {
            if k == "R" && vs.len() >= 2 {
                if let (V::Int(n), V::Int(_)) = (&vs[vs.len() - 2], &vs[vs.len() - 1]) {
                    let n = *n as u32;
                    vs.truncate(vs.len() - 2);
                    vs.push(V::Ref(n));
                    return;
                }
            }
        }
        vs.push(v);
    }
}

/// every `N 0 obj <dict>` of the file
fn scan_objects(bytes: &[u8]) -> BTreeMap<u32, Vec<(String, V)>> {
    let mut objs = BTreeMap::new();
    let needle = b" 0 obj";
    let mut i = 0;
    while i + needle.len() <= bytes.len() {
        if &bytes[i..i + needle.len()] == needle {
            let mut s = i;
            while s > 0 && bytes[s - 1].is_ascii_digit() {
                s -= 1;
            }
            if s < i && (s == 0 || bytes[s - 1] == b'\n' || bytes[s - 1] == b'\r') {
                if let Ok(n) = std::str::from_utf8(&bytes[s..i]).unwrap_or("").parse::<u32>() {
                    let mut p = P { b: bytes, i: i + needle.len() };
                    if let Some(V::Dict(d)) = p.value() {
                        objs.insert(n, d);
                        i = p.i;
                        continue;
                    }
                }
            }
        }
        i += 1;
    }
    objs
}


fn get<'a>(d: &'a [(String, V)], k: &str) -> Option<&'a V> {
    d.iter().find(|(kk, _)| kk == k).map(|(_, v)| v)
}

/// decimal text → millionths, exactly (no floating point); `None` for exponents / > 6 decimals
fn micro_of_text(t: &str) -> Option<i64> {
    let (neg, t) = match t.strip_prefix('-') {
        Some(r) => (true, r),
        None => (false, t.strip_prefix('+').unwrap_or(t)),
    };
    let (ip, fp) = match t.split_once('.') {
        Some((a, b)) => (a, b),
        None => (t, ""),
    };
    if (ip.is_empty() && fp.is_empty()) || fp.len() > 6 || !ip.bytes().all(|c| c.is_ascii_digit()) || !fp.bytes().all(|c| c.is_ascii_digit()) {
        return None;
    }
    let i: i64 = if ip.is_empty() { 0 } else { ip.parse().ok()? };
    let mut f: i64 = if fp.is_empty() { 0 } else { fp.parse().ok()? };
    for _ in fp.len()..6 {
        f *= 10;
    }
    let v = i.checked_mul(1_000_000)?.checked_add(f)?;
    Some(if neg { -v } else { v })
}

fn show_dest(v: Option<&V>) -> String {
    match v {
        None => "-".into(),
        Some(V::Arr(a)) => {
            let page = match a.first() {
                Some(V::Int(i)) => i.to_string(),
                Some(V::Ref(r)) => format!("r{}", r),
                _ => "?".into(),
            };
            let kind = match a.get(1) {
                Some(V::Name(n)) => n.clone(),
                _ => "?".into(),
            };
            let ps: Vec<String> = a
                .iter()
                .skip(2)
                .map(|x| match x {
                    V::Kw(k) if k == "null" => "null".to_string(),
                    V::Int(i) => i.checked_mul(1_000_000).map(|m| m.to_string()).unwrap_or("?".into()),
                    V::Real(t) => micro_of_text(t).map(|m| m.to_string()).unwrap_or("?".into()),
                    _ => "?".into(),
                })
                .collect();
            format!("{}/{}({})", page, kind, ps.join(";"))
        }
        _ => "?".into(),
    }
}

/// the same rendering for an `Array` held by the library (API answers)
fn show_dest_obj(a: &Array) -> String {
    let page = match a.get(0) {
        Some(Object::Integer(i)) => i.to_string(),
        Some(Object::Reference(r)) => format!("r{}", r.number()),
        _ => "?".into(),
    };
    let kind = match a.get(1) {
        Some(Object::Name(n)) => n.clone(),
        _ => "?".into(),
    };
    let ps: Vec<String> = (2..a.len())
        .map(|i| match a.get(i) {
            Some(Object::Null) => "null".to_string(),
            Some(Object::Integer(i)) => (i * 1_000_000).to_string(),
            Some(Object::Real(f)) => ((f * 1_000_000.0).round() as i64).to_string(),
            _ => "?".into(),
        })
        .collect();
    format!("{}/{}({})", page, kind, ps.join(";"))
}

/// a `Destination` held by the library, in request syntax
fn show_dest_value(d: &Destination) -> String {
    let m = |f: &Option<f64>| f.map(|v| (v * 1_000_000.0).round() as i64);
    let page = match &d.page {
        PageDestination::PageNumber(n) => n.to_string(),
        PageDestination::PageRef(r) => format!("r{}", r.number()),
    };
    let (k, ps): (char, Vec<Option<i64>>) = match &d.dest_type {
        DestinationType::XYZ { left, top, zoom } => ('X', vec![m(left), m(top), m(zoom)]),
        DestinationType::Fit => ('F', vec![]),
        DestinationType::FitH { top } => ('H', vec![m(top)]),
        DestinationType::FitV { left } => ('V', vec![m(left)]),
        DestinationType::FitR { rect } => (
            'R',
            vec![m(&Some(rect.lower_left.x)), m(&Some(rect.lower_left.y)), m(&Some(rect.upper_right.x)), m(&Some(rect.upper_right.y))],
        ),
        DestinationType::FitB => ('B', vec![]),
        DestinationType::FitBH { top } => ('G', vec![m(top)]),
        DestinationType::FitBV { left } => ('W', vec![m(left)]),
    };
    let ps: Vec<String> = ps.iter().map(|p| p.map(|v| v.to_string()).unwrap_or("n".into())).collect();
    format!("{}{}({})", page, k, ps.join(";"))
}

fn parse_elem(e: &str) -> Option<Object> {
    if e == "x" {
        return Some(Object::Null);
    }
    if e == "s" {
        return Some(Object::String("Fit".into()));
    }
    let (h, r) = e.split_at(1);
    match h {
        "i" => Some(Object::Integer(r.parse().ok()?)),
        "r" => Some(Object::Real(r.parse::<i64>().ok()? as f64 / 1_000_000.0)),
        "n" => Some(Object::Name(r.to_string())),
        "R" => Some(Object::Reference(ObjectId::new(r.parse().ok()?, 0))),
        _ => None,
    }
}

fn run_dst(parts: &[&str]) -> String {
    match parts {
        ["dst", d] => {
            let Some(Some(d)) = parse_dest_str(d) else { return "bad-request".into() };
            let arr = mk_dest(&d).to_array();
            let back = match Destination::from_array(&arr) {
                Ok(d2) => format!("ok:{}", show_dest_value(&d2)),
                Err(_) => "err".into(),
            };
            format!("{}|{}", show_dest_obj(&arr), back)
        }
        ["dsta", elems] => {
            let mut arr = Array::new();
            if *elems != "_" {
                for e in elems.split(',') {
                    let Some(o) = parse_elem(e) else { return "bad-request".into() };
                    arr.push(o);
                }
            }
            match Destination::from_array(&arr) {
                Ok(d2) => format!("ok:{}", show_dest_value(&d2)),
                Err(_) => "err".into(),
            }
        }
        _ => "bad-request".into(),
    }
}

fn run(req: &str) -> String {
    let parts: Vec<&str> = req.split(' ').collect();
    if matches!(parts.first(), Some(&"dst") | Some(&"dsta")) {
        return run_dst(&parts);
    }
    let (op, npages, forest, names, open) = match parts.as_slice() {
        [op @ ("out" | "outb"), np, f] => (*op, *np, *f, None, None),
        [op @ ("out" | "outb"), np, f, n] => (*op, *np, *f, Some(*n), None),
        [op @ ("out" | "outb"), np, f, n, a] => (*op, *np, *f, Some(*n), Some(*a)),
        _ => return "bad-request".into(),
    };
    let names = names.filter(|n| *n != "_");
    let open = open.filter(|n| *n != "_");
    let (Ok(npages), Some(items)) = (npages.parse::<usize>(), parse_forest(forest)) else { return "bad-request".into() };
    let mut doc = Document::new();
    for _ in 0..npages.max(1) {
        doc.add_page(Page::a4());
    }
    let tree = if op == "out" {
        let mut t = OutlineTree::new();
        for it in &items {
            t.add_item(direct(it));
        }
        t
    } else {
        let mut b = OutlineBuilder::new();
        for it in &items {
            with_builder(&mut b, it);
        }
        b.build()
    };
    doc.set_outline(tree);
    let mut authored_names: Vec<String> = vec![];
    if let Some(ns) = names {
        let mut nd = NamedDestinations::new();
        for e in ns.split(',') {
            let Some((n, d)) = e.split_once('=') else { return "bad-request".into() };
            let Some(Ok(n)) = unhex(n).map(String::from_utf8) else { return "bad-request".into() };
            let Some(Some(d)) = parse_dest_str(d) else { return "bad-request".into() };
            if !authored_names.contains(&n) {
                authored_names.push(n.clone());
            }
            nd.add_destination(n, mk_dest(&d).to_array());
        }
        doc.set_named_destinations(nd);
    }
    if let Some(a) = open {
        let Some(Some(d)) = a.strip_prefix('G').and_then(parse_dest_str) else { return "bad-request".into() };
        doc.set_open_action(Action::goto(mk_dest(&d)));
    }
    let cfg = oxidize_pdf::writer::WriterConfig {
        compress_streams: false,
        use_xref_streams: false,
        use_object_streams: false,
        ..Default::default()
    };
    let mut out = Vec::new();
    {
        let mut w = oxidize_pdf::writer::PdfWriter::with_config(&mut out, cfg);
        if let Err(e) = w.write_document(&mut doc) {
            return format!("err:write:{}", e);
        }
    }
    let objs = scan_objects(&out);
    let Some(cat) = objs.values().find(|d| matches!(get(d, "Type"), Some(V::Name(n)) if n == "Catalog")) else {
        return "err:no-catalog".into();
    };
    let mut ans = match get(cat, "Outlines") {
        None => "none".to_string(),
        Some(V::Ref(root)) => {
            let root = *root;
            let Some(rd) = objs.get(&root) else { return "err:no-outline-root".into() };
            let rel = |v: Option<&V>| -> String {
                match v {
                    None => "-".into(),
                    Some(V::Ref(r)) => (*r as i64 - root as i64).to_string(),
                    Some(V::Int(i)) => i.to_string(),
                    _ => "?".into(),
                }
            };
            if !matches!(get(rd, "Type"), Some(V::Name(n)) if n == "Outlines") {
                return "err:root-type".into();
            }
            let mut s = format!("R:F{}:L{}:C{}", rel(get(rd, "First")), rel(get(rd, "Last")), rel(get(rd, "Count")));
            for (id, d) in &objs {
                if get(d, "Title").is_some() && get(d, "Parent").is_some() {
                    let t = match get(d, "Title") {
                        Some(V::Str(b)) => hex(b),
                        _ => "?".into(),
                    };
                    s.push_str(&format!(
                        "|{}:P{}:p{}:n{}:f{}:l{}:c{}:t{}:d{}",
                        *id as i64 - root as i64,
                        rel(get(d, "Parent")),
                        rel(get(d, "Prev")),
                        rel(get(d, "Next")),
                        rel(get(d, "First")),
                        rel(get(d, "Last")),
                        rel(get(d, "Count")),
                        t,
                        show_dest(get(d, "Dest"))
                    ));
                }
            }
            s
        }
        _ => return "err:outlines-not-a-reference".into(),
    };
    if names.is_some() {
        let nd = match get(cat, "Names") {
            Some(V::Ref(r)) => objs.get(r).and_then(|d| match get(d, "Dests") {
                Some(V::Ref(t)) => objs.get(t),
                _ => None,
            }),
            _ => None,
        };
        let Some(nd) = nd else { return format!("{} N:?", ans) };
        let Some(V::Arr(a)) = get(nd, "Names") else { return format!("{} N:?names", ans) };
        let mut ps = vec![];
        for pair in a.chunks(2) {
            let k = match pair.first() {
                Some(V::Str(b)) => hex(b),
                _ => "?".into(),
            };
            ps.push(format!("{}={}", k, show_dest(pair.get(1))));
        }
        ans.push_str(&format!(" N:{}", if ps.is_empty() { "_".to_string() } else { ps.join(",") }));
        let lim = match get(nd, "Limits") {
            Some(V::Arr(l)) => match l.as_slice() {
                [V::Str(a), V::Str(b)] => format!("{},{}", hex(a), hex(b)),
                _ => "?".into(),
            },
            None => "~".into(),
            _ => "?".into(),
        };
        ans.push_str(&format!(" L:{}", lim));
        // the API's own lookup
        let mut probe = "zz-missing".to_string();
        while authored_names.contains(&probe) {
            probe.push('z');
        }
        let nd = doc.named_destinations();
        let mut gs = vec![];
        for n in authored_names.iter().chain(std::iter::once(&probe)) {
            gs.push(match nd.and_then(|t| t.get_destination(n)) {
                Some(a) => show_dest_obj(&a),
                None => "~".into(),
            });
        }
        ans.push_str(&format!(" G:{}", gs.join(",")));
    }
    if open.is_some() {
        let a = match get(cat, "OpenAction") {
            Some(V::Dict(d)) => {
                let s = match get(d, "S") {
                    Some(V::Name(n)) => n.clone(),
                    _ => "?".into(),
                };
                let ty = matches!(get(d, "Type"), Some(V::Name(n)) if n == "Action");
                format!("{}{}/{}", s, if ty { "" } else { "!type" }, show_dest(get(d, "D")))
            }
            None => "~".into(),
            _ => "?".into(),
        };
        ans.push_str(&format!(" A:{}", a));
    }
    ans
}

// ---------------------------------------------------------------------------------------------
// generator

fn show(items: &[It]) -> String {
    if items.is_empty() {
        return "_".into();
    }
    fn go(items: &[It], s: &mut String) {
        for it in items {
            s.push(if it.open { 'o' } else { 'c' });
            s.push_str(&it.tid.to_string());
            s.push('.');
            s.push_str(&show_dest_req(&it.dest));
            s.push('[');
            go(&it.kids, s);
            s.push(']');
        }
    }
    let mut s = String::new();
    go(items, &mut s);
    s
}

/// parameter values in millionths: round numbers, fractions, negatives, zero, tiny, large
fn gen_param(rng: &mut Rng) -> Option<i64> {
    match rng.below(10) {
        0 | 1 => None,
        2 => Some(0),
        3 => Some(rng.below(900) as i64 * 1_000_000),
        4 => Some(rng.below(3600) as i64 * 250_000),
        5 => Some(-(rng.below(500) as i64) * 500_000),
        6 => Some(*rng.pick(&[1i64, -1, 999_999, 1_000_001, 500_000, 1_500_000, 123_456, -123_456, 841_889_764])),
        7 => Some(rng.range(-2_000_000_000, 2_000_000_000)),
        8 => Some(rng.below(14400) as i64 * 1_000_000),
        _ => Some(rng.below(1_000_000) as i64),
    }
}

fn gen_dest(rng: &mut Rng, npages: u32) -> D {
    let kind = *rng.pick(&['F', 'F', 'X', 'X', 'X', 'H', 'V', 'R', 'B', 'G', 'W']);
    let n = arity(kind).unwrap();
    let params = (0..n).map(|_| if kind == 'R' { Some(gen_param(rng).unwrap_or(0)) } else { gen_param(rng) }).collect();
    D { page: rng.below(npages as u64) as u32, kind, params }
}

struct Ctx {
    next_tid: u32,
    npages: u32,
    budget: usize,
}

fn gen_items(rng: &mut Rng, cx: &mut Ctx, depth: u32, max_depth: u32, max_width: u64, p_closed: u64, p_branch: u64) -> Vec<It> {
    let n = 1 + rng.below(max_width) as usize;
    let mut v = vec![];
    for _ in 0..n {
        if cx.budget == 0 {
            break;
        }
        cx.budget -= 1;
        let tid = cx.next_tid;
        cx.next_tid += 1;
        let dest = if rng.chance(2, 3) { Some(gen_dest(rng, cx.npages)) } else { None };
        let open = !rng.chance(p_closed, 10);
        let kids = if depth < max_depth && rng.chance(p_branch, 10) {
            gen_items(rng, cx, depth + 1, max_depth, max_width, p_closed, p_branch)
        } else {
            vec![]
        };
        v.push(It { open, tid, dest, kids });
    }
    v
}

/// all shapes with at most `n` items (open flags chosen by `flags` bit by bit in pre-order)
fn all_forests(n: usize) -> Vec<Vec<It>> {
    // forests with exactly k nodes: first tree has j nodes (1 root + forest of j-1), rest forest of k-j
    let mut memo: Vec<Vec<Vec<It>>> = vec![vec![vec![]]];
    for k in 1..=n {
        let mut fs = vec![];
        for j in 1..=k {
            for kids in &memo[j - 1] {
                for rest in &memo[k - j] {
                    let mut f = vec![It { open: true, tid: 0, dest: None, kids: kids.clone() }];
                    f.extend(rest.iter().cloned());
                    fs.push(f);
                }
            }
        }
        memo.push(fs);
    }
    memo.into_iter().skip(1).flatten().collect()
}

fn relabel(items: &mut [It], next: &mut u32, flags: &mut u64, npages: u32) {
    for it in items {
        it.tid = *next;
        *next += 1;
        it.open = *flags & 1 == 0;
        *flags >>= 1;
        it.dest = if it.tid % 3 == 2 {
            None
        } else {
            let kind = ['F', 'X', 'H', 'B', 'V', 'G', 'W', 'R'][(it.tid % 8) as usize];
            let n = arity(kind).unwrap();
            let params = (0..n).map(|j| if kind == 'R' || (it.tid + j as u32) % 2 == 0 { Some((it.tid as i64 + j as i64) * 250_000) } else { None }).collect();
            Some(D { page: it.tid % npages, kind, params })
        };
        relabel(&mut it.kids, next, flags, npages);
    }
}

fn count(items: &[It]) -> usize {
    items.iter().map(|i| 1 + count(&i.kids)).sum()
}

fn depth_of(items: &[It]) -> usize {
    items.iter().map(|i| 1 + depth_of(&i.kids)).max().unwrap_or(0)
}

fn non_last_branches(items: &[It]) -> bool {
    let n = items.len();
    items.iter().enumerate().any(|(i, it)| (i + 1 < n && !it.kids.is_empty()) || non_last_branches(&it.kids))
}

fn closed_over_closed(items: &[It], under_closed: bool) -> bool {
    items.iter().any(|it| {
        (under_closed && !it.open && !it.kids.is_empty()) || closed_over_closed(&it.kids, under_closed || (!it.open && !it.kids.is_empty()))
    })
}

fn tags(kind: &str, items: &[It]) -> String {
    let n = count(items);
    let mut t = format!("{} n{}", kind, if n < 8 { n.to_string() } else if n < 100 { format!("{}+", (n / 8) * 8) } else { "100+".into() });
    let d = depth_of(items);
    t.push_str(&format!(" depth{}", if d < 6 { d.to_string() } else { "6+".into() }));
    if non_last_branches(items) {
        t.push_str(" nonlast-branch");
    } else {
        t.push_str(" chain-shaped");
    }
    if closed_over_closed(items, false) {
        t.push_str(" closed-in-closed");
    }
    // non-trivial: at least one nested level
    if items.iter().any(|i| !i.kids.is_empty()) {
        t.push_str(" nt");
    }
    t
}

const NAMES: [&str; 24] = [
    "a", "B", "ch1", "ch10", "ch2", "Z", "intro", "Intro", "", " ", "a b", "(x)", ")(", "back\\slash", "cr\rlf\n", "Ünï", "ñ", "é",
    "日本", "~", "a\u{0}b", "#hash/%", "aa", "\u{10000}",
];

fn gen_names(rng: &mut Rng, npages: u32) -> String {
    let k = match rng.below(6) {
        0 => 1,
        1 | 2 => 2 + rng.below(3),
        3 | 4 => 4 + rng.below(6),
        _ => 12 + rng.below(30),
    };
    let v: Vec<String> = (0..k)
        .map(|_| {
            let n = if rng.chance(1, 5) { format!("k{}", rng.below(40)) } else { rng.pick(&NAMES).to_string() };
            format!("{}={}", hex(n.as_bytes()), show_dest_req(&Some(gen_dest(rng, npages))))
        })
        .collect();
    v.join(",")
}

fn leaf(tid: u32, rng: &mut Rng, npages: u32) -> It {
    It { open: !rng.chance(1, 4), tid, dest: if rng.chance(1, 2) { Some(gen_dest(rng, npages)) } else { None }, kids: vec![] }
}

/// large forests (> 100 items): wide, deep, left-heavy, right-heavy, bushy
fn gen_large(rng: &mut Rng, shape: u64) -> Vec<It> {
    let npages = 4;
    let mut tid = rng.below(500) as u32;
    let mut nt = || {
        tid += 1;
        tid
    };
    match shape {
        // wide: many roots, every third one with a few children (branching non-last siblings)
        0 => (0..120 + rng.below(60))
            .map(|i| {
                let mut it = leaf(nt(), rng, npages);
                if i % 3 == 0 {
                    it.kids = (0..1 + rng.below(3)).map(|_| leaf(nt(), rng, npages)).collect();
                }
                it
            })
            .collect(),
        // left-heavy: the first sibling of every level carries the deep part, followed by leaves
        1 => {
            let mut cur: Vec<It> = (0..3).map(|_| leaf(nt(), rng, npages)).collect();
            for _ in 0..40 + rng.below(20) {
                let mut head = leaf(nt(), rng, npages);
                head.kids = cur;
                cur = vec![head];
                for _ in 0..1 + rng.below(3) {
                    cur.push(leaf(nt(), rng, npages));
                }
            }
            cur
        }
        // right-heavy: the last sibling carries the deep part (the shape the old code got right)
        2 => {
            let mut cur: Vec<It> = (0..3).map(|_| leaf(nt(), rng, npages)).collect();
            for _ in 0..40 + rng.below(20) {
                let mut tail = leaf(nt(), rng, npages);
                tail.kids = cur;
                cur = (0..1 + rng.below(3)).map(|_| leaf(nt(), rng, npages)).collect();
                cur.push(tail);
            }
            cur
        }
        // bushy: complete-ish tree, width 3..4, depth 4
        3 => {
            fn bush(d: u32, rng: &mut Rng, nt: &mut dyn FnMut() -> u32) -> Vec<It> {
                (0..3 + rng.below(2))
                    .map(|_| {
                        let mut it = leaf(nt(), rng, 4);
                        if d > 0 && rng.chance(4, 5) {
                            it.kids = bush(d - 1, rng, nt);
                        }
                        it
                    })
                    .collect()
            }
            bush(3, rng, &mut nt)
        }
        // middle-heavy: in every sibling list a middle item branches
        _ => {
            let mut cur: Vec<It> = (0..2).map(|_| leaf(nt(), rng, npages)).collect();
            for _ in 0..35 + rng.below(20) {
                let mut mid = leaf(nt(), rng, npages);
                mid.kids = cur;
                cur = vec![leaf(nt(), rng, npages), mid, leaf(nt(), rng, npages)];
            }
            cur
        }
    }
}

fn gen_elem(rng: &mut Rng, pos: usize) -> String {
    match (pos, rng.below(10)) {
        (0, 0..=5) => format!("i{}", rng.below(30)),
        (0, 6) => format!("i{}", *rng.pick(&[-1i64, 4294967295, 4294967296, 4294967301, -4294967295, i64::MAX, i64::MIN])),
        (0, 7) => format!("R{}", 1 + rng.below(50)),
        (1, 0..=7) => format!("n{}", rng.pick(&["XYZ", "Fit", "FitH", "FitV", "FitR", "FitB", "FitBH", "FitBV", "fit", "FitX", "XYZ", "FitR"])),
        (p, 0..=4) if p >= 2 => format!("r{}", rng.range(-5_000_000, 900_000_000)),
        (p, 5) if p >= 2 => format!("i{}", rng.range(-50, 1000)),
        (p, 6 | 7) if p >= 2 => "x".into(),
        _ => rng.pick(&["x", "s", "nFit", "i3", "r500000", "R7"]).to_string(),
    }
}

fn gen(rng: &mut Rng, tier: Tier) -> Vec<Case> {
    let mut cases = vec![];
    let quick = tier == Tier::Quick;
    // (1) every forest shape up to N items, with a few open/closed patterns each
    let n = if quick { 5 } else { 7 };
    for (k, shape) in all_forests(n).into_iter().enumerate() {
        let total = count(&shape) as u32;
        let patterns: Vec<u64> = if quick {
            vec![0, (1u64 << total) - 1, rng.next()]
        } else {
            vec![0, (1u64 << total) - 1, rng.next(), rng.next(), 0x5555_5555, 0xAAAA_AAAA]
        };
        for (pi, pat) in patterns.into_iter().enumerate() {
            let mut f = shape.clone();
            let mut next = rng.below(50) as u32;
            let mut flags = pat;
            relabel(&mut f, &mut next, &mut flags, 3);
            let op = if (k + pi) % 3 == 0 { "outb" } else { "out" };
            cases.push(Case::new(format!("{} 3 {}", op, show(&f)), tags("exh", &f)));
        }
    }
    // (2) random larger forests, a third with named destinations, some with an open action
    let n_rand = if quick { 500 } else { 6000 };
    for j in 0..n_rand {
        let npages = 1 + rng.below(6) as u32;
        let mut cx = Ctx { next_tid: rng.below(1000) as u32, npages, budget: 4 + rng.below(40) as usize };
        let max_depth = 1 + rng.below(5) as u32;
        let max_width = 1 + rng.below(5);
        let p_closed = rng.below(8);
        let p_branch = 2 + rng.below(7);
        let f = gen_items(rng, &mut cx, 0, max_depth, max_width, p_closed, p_branch);
        let op = if j % 4 == 0 { "outb" } else { "out" };
        let names = if rng.chance(1, 3) { gen_names(rng, npages) } else { "_".into() };
        let open = if rng.chance(1, 4) { format!("G{}", show_dest_req(&Some(gen_dest(rng, npages)))) } else { "_".into() };
        let mut t = tags("rand", &f);
        if names != "_" {
            t.push_str(" names");
        }
        if open != "_" {
            t.push_str(" openaction");
        }
        let tail = if names == "_" && open == "_" { String::new() } else { format!(" {} {}", names, open) };
        cases.push(Case::new(format!("{} {} {}{}", op, npages, show(&f), tail), t));
    }
    // (3) deep chains (a leaf before the deep item at every level)
    for d in [10usize, 30, 80, 200] {
        let mut it = It { open: true, tid: 1, dest: None, kids: vec![] };
        for k in 0..d {
            it = It {
                open: k % 3 != 0,
                tid: k as u32 + 2,
                dest: Some(D { page: 0, kind: 'F', params: vec![] }),
                kids: vec![It { open: true, tid: 900 + k as u32, dest: None, kids: vec![] }, it],
            };
        }
        let f = vec![it];
        cases.push(Case::new(format!("out 1 {}", show(&f)), tags("deep", &f)));
    }
    // (4) large forests (> 100 items) of five shapes, both build paths
    for j in 0..(if quick { 15 } else { 150 }) {
        let f = gen_large(rng, j % 5);
        let op = if j % 2 == 0 { "out" } else { "outb" };
        let names = if j % 3 == 0 { gen_names(rng, 4) } else { "_".into() };
        let tail = if names == "_" { String::new() } else { format!(" {} _", names) };
        cases.push(Case::new(format!("{} 4 {}{}", op, show(&f), tail), tags(["wide", "left-heavy", "right-heavy", "bushy", "middle-heavy"][(j % 5) as usize], &f)));
    }
    // (5) name trees on their own: many names, odd characters, repeated names
    for _ in 0..(if quick { 120 } else { 1500 }) {
        let npages = 1 + rng.below(5) as u32;
        let names = gen_names(rng, npages);
        let open = if rng.chance(1, 2) { format!("G{}", show_dest_req(&Some(gen_dest(rng, npages)))) } else { "_".into() };
        cases.push(Case::new(format!("out {} o1.0F[] {} {}", npages, names, open), "names nt"));
    }
    // (6) destinations through to_array / from_array
    for _ in 0..(if quick { 400 } else { 5000 }) {
        let d = gen_dest(rng, 50);
        cases.push(Case::new(format!("dst {}", show_dest_req(&Some(d.clone()))), format!("dst kind{}{}", d.kind, if d.params.iter().any(|p| p.is_some()) { " nt" } else { "" })));
    }
    for k in ['F', 'X', 'H', 'V', 'R', 'B', 'G', 'W'] {
        let n = arity(k).unwrap();
        let d = D { page: u32::MAX, kind: k, params: vec![Some(0); n] };
        cases.push(Case::new(format!("dst {}", show_dest_req(&Some(d))), format!("dst kind{} boundary", k)));
    }
    // arbitrary arrays (malformed stream): wrong lengths, wrong types, unknown kinds
    for _ in 0..(if quick { 600 } else { 8000 }) {
        let len = match rng.below(8) {
            0 => rng.below(2) as usize,
            1 => 2,
            2 => 3,
            3 => 4,
            4 => 5,
            5 => 6,
            _ => 2 + rng.below(6) as usize,
        };
        let elems: Vec<String> = (0..len).map(|p| gen_elem(rng, p)).collect();
        let s = if elems.is_empty() { "_".to_string() } else { elems.join(",") };
        cases.push(Case::new(format!("dsta {}", s), format!("dsta len{}{}", len, if len >= 2 { " nt" } else { "" })));
    }
    cases.push(Case::new("out 1 _", "empty"));
    cases
}

fn main() {
    harness_main(gen, run, Limits::default());
}
