//! C28 — outlines written by the real writer, read back from the bytes.
//!
//! Requests:
//!   out  <npages> <forest> [<names>]   forest built with OutlineItem::add_child / OutlineTree::add_item
//!   outb <npages> <forest> [<names>]   same forest built with OutlineBuilder (push_item/add_item/pop_item)
//! <forest>  item*            item = ('o'|'c') <tid> '.' <dest> '[' item* ']'   (`_` = no items)
//! <dest>    `-` | <page><K>  K = F (Fit) | X (XYZ, all null) | H (FitH null) | B (FitB)
//! <names>   `n<id>=<page>,…` named destinations (Document::set_named_destinations), optional
//! title of an item = title_of(tid) (five shapes: plain, parentheses, backslash, UTF-8, unbalanced)
//!
//! Answer (ids relative to the outline root's object number):
//!   `R:F<f>:L<l>:C<c>|<id>:P<parent>:p<prev>:n<next>:f<first>:l<last>:c<count>:t<titlehex>:d<dest>|…`
//!   items sorted by id, `-` for an absent entry; then ` N:<name>=<page>/<K>,…` when names were given
//!   `none` when the catalog has no /Outlines.
use oxiharness::*;
use oxidize_pdf::structure::{Destination, NamedDestinations, OutlineBuilder, OutlineItem, OutlineTree, PageDestination};
use oxidize_pdf::{Document, Page};
use std::collections::BTreeMap;

#[derive(Clone, Debug)]
struct It {
    open: bool,
    tid: u32,
    dest: Option<(u32, char)>,
    kids: Vec<It>,
}

fn title_of(tid: u32) -> String {
    match tid % 5 {
        0 => format!("T{}", tid),
        1 => format!("Sec ({})", tid),
        2 => format!("B\\{}", tid),
        3 => format!("Ü{}", tid),
        _ => format!("{})(", tid),
    }
}

fn parse_items(s: &[u8], i: &mut usize) -> Option<Vec<It>> {
    let mut out = vec![];
    while *i < s.len() && (s[*i] == b'o' || s[*i] == b'c') {
        let open = s[*i] == b'o';
        *i += 1;
        let mut tid = 0u32;
        let mut any = false;
        while *i < s.len() && s[*i].is_ascii_digit() {
            tid = tid.checked_mul(10)?.checked_add((s[*i] - b'0') as u32)?;
            *i += 1;
            any = true;
        }
        if !any || *i >= s.len() || s[*i] != b'.' {
            return None;
        }
        *i += 1;
        let dest = if s.get(*i) == Some(&b'-') {
            *i += 1;
            None
        } else {
            let mut p = 0u32;
            let mut any = false;
            while *i < s.len() && s[*i].is_ascii_digit() {
                p = p.checked_mul(10)?.checked_add((s[*i] - b'0') as u32)?;
                *i += 1;
                any = true;
            }
            let k = *s.get(*i)? as char;
            if !any || !"FXHB".contains(k) {
                return None;
            }
            *i += 1;
            Some((p, k))
        };
        if s.get(*i) != Some(&b'[') {
            return None;
        }
        *i += 1;
        let kids = parse_items(s, i)?;
        if s.get(*i) != Some(&b']') {
            return None;
        }
        *i += 1;
        out.push(It { open, tid, dest, kids });
    }
    Some(out)
}

fn parse_forest(s: &str) -> Option<Vec<It>> {
    if s == "_" {
        return Some(vec![]);
    }
    let b = s.as_bytes();
    let mut i = 0;
    let v = parse_items(b, &mut i)?;
    if i == b.len() {
        Some(v)
    } else {
        None
    }
}

fn mk_dest(p: u32, k: char) -> Destination {
    let page = PageDestination::PageNumber(p);
    match k {
        'F' => Destination::fit(page),
        'X' => Destination::xyz(page, None, None, None),
        'H' => Destination::fit_h(page, None),
        _ => Destination::fit_b(page),
    }
}

fn bare(it: &It) -> OutlineItem {
    let mut o = OutlineItem::new(title_of(it.tid));
    if let Some((p, k)) = it.dest {
        o = o.with_destination(mk_dest(p, k));
    }
    if !it.open {
        o = o.closed();
    }
    o
}

fn direct(it: &It) -> OutlineItem {
    let mut o = bare(it);
    for k in &it.kids {
        o.add_child(direct(k));
    }
    o
}

fn with_builder(b: &mut OutlineBuilder, it: &It) {
    if it.kids.is_empty() {
        b.add_item(bare(it));
    } else {
        b.push_item(bare(it));
        for k in &it.kids {
            with_builder(b, k);
        }
        b.pop_item();
    }
}

// ---- a small reader for the written bytes ---------------------------------------------------

#[derive(Debug, Clone)]
enum V {
    Int(i64),
    Real,
    Name(String),
    Str(Vec<u8>),
    Ref(u32),
    Arr(Vec<V>),
    Dict(Vec<(String, V)>),
    Kw(String),
}

struct P<'a> {
    b: &'a [u8],
    i: usize,
}

impl<'a> P<'a> {
    fn ws(&mut self) {
        while self.i < self.b.len() && matches!(self.b[self.i], 0 | 9 | 10 | 12 | 13 | 32) {
            self.i += 1;
        }
    }
    fn regular(c: u8) -> bool {
        !matches!(c, 0 | 9 | 10 | 12 | 13 | 32 | b'(' | b')' | b'<' | b'>' | b'[' | b']' | b'{' | b'}' | b'/' | b'%')
    }
    fn word(&mut self) -> String {
        let s = self.i;
        while self.i < self.b.len() && Self::regular(self.b[self.i]) {
            self.i += 1;
        }
        String::from_utf8_lossy(&self.b[s..self.i]).into_owned()
    }
    fn value(&mut self) -> Option<V> {
        self.ws();
        let c = *self.b.get(self.i)?;
        match c {
            b'/' => {
                self.i += 1;
                Some(V::Name(self.word()))
            }
            b'(' => {
                self.i += 1;
                let mut depth = 0;
                let mut out = vec![];
                loop {
                    let c = *self.b.get(self.i)?;
                    self.i += 1;
                    match c {
                        b'\\' => {
                            let d = *self.b.get(self.i)?;
                            self.i += 1;
                            match d {
                                b'n' => out.push(10),
                                b'r' => out.push(13),
                                b't' => out.push(9),
                                b'b' => out.push(8),
                                b'f' => out.push(12),
                                b'0'..=b'7' => {
                                    let mut v = (d - b'0') as u32;
                                    for _ in 0..2 {
                                        match self.b.get(self.i) {
                                            Some(&e) if (b'0'..=b'7').contains(&e) => {
                                                v = v * 8 + (e - b'0') as u32;
                                                self.i += 1;
                                            }
                                            _ => break,
                                        }
                                    }
                                    out.push(v as u8);
                                }
                                b'\n' => {}
                                b'\r' => {
                                    if self.b.get(self.i) == Some(&b'\n') {
                                        self.i += 1;
                                    }
                                }
                                other => out.push(other),
                            }
                        }
                        b'(' => {
                            depth += 1;
                            out.push(c);
                        }
                        b')' => {
                            if depth == 0 {
                                break;
                            }
                            depth -= 1;
                            out.push(c);
                        }
                        b'\r' => {
                            if self.b.get(self.i) == Some(&b'\n') {
                                self.i += 1;
                            }
                            out.push(10);
                        }
                        _ => out.push(c),
                    }
                }
                Some(V::Str(out))
            }
            b'[' => {
                self.i += 1;
                let mut vs: Vec<V> = vec![];
                loop {
                    self.ws();
                    if *self.b.get(self.i)? == b']' {
                        self.i += 1;
                        break;
                    }
                    let v = self.value()?;
                    Self::push(&mut vs, v);
                }
                Some(V::Arr(vs))
            }
            b'<' => {
                if self.b.get(self.i + 1) == Some(&b'<') {
                    self.i += 2;
                    let mut vs: Vec<V> = vec![];
                    loop {
                        self.ws();
                        if self.b.get(self.i) == Some(&b'>') && self.b.get(self.i + 1) == Some(&b'>') {
                            self.i += 2;
                            break;
                        }
                        let v = self.value()?;
                        Self::push(&mut vs, v);
                    }
                    let mut kv = vec![];
                    let mut it = vs.into_iter();
                    while let Some(k) = it.next() {
                        let V::Name(k) = k else { return None };
                        kv.push((k, it.next()?));
                    }
                    Some(V::Dict(kv))
                } else {
                    self.i += 1;
                    let mut out = vec![];
                    let mut pend: Option<u8> = None;
                    loop {
                        let c = *self.b.get(self.i)?;
                        self.i += 1;
                        if c == b'>' {
                            break;
                        }
                        if let Some(h) = (c as char).to_digit(16) {
                            match pend.take() {
                                Some(p) => out.push(p * 16 + h as u8),
                                None => pend = Some(h as u8),
                            }
                        }
                    }
                    if let Some(p) = pend {
                        out.push(p * 16);
                    }
                    Some(V::Str(out))
                }
            }
            _ => {
                let w = self.word();
                if w.is_empty() {
                    return None;
                }
                if let Ok(i) = w.parse::<i64>() {
                    Some(V::Int(i))
                } else if w.parse::<f64>().is_ok() {
                    Some(V::Real)
                } else {
                    Some(V::Kw(w))
                }
            }
        }
    }
    /// `N G R` becomes a reference
    fn push(vs: &mut Vec<V>, v: V) {
        if let V::Kw(k) = &v {
            if k == "R" && vs.len() >= 2 {
                if let (V::Int(n), V::Int(_)) = (&vs[vs.len() - 2], &vs[vs.len() - 1]) {
                    let n = *n as u32;
                    vs.truncate(vs.len() - 2);
                    vs.push(V::Ref(n));
                    return;
                }
            }
        }
        vs.push(v);
    }
}

/// every `N 0 obj <dict>` of the file
fn scan_objects(bytes: &[u8]) -> BTreeMap<u32, Vec<(String, V)>> {
    let mut objs = BTreeMap::new();
    let needle = b" 0 obj";
    let mut i = 0;
    while i + needle.len() <= bytes.len() {
        if &bytes[i..i + needle.len()] == needle {
            let mut s = i;
            while s > 0 && bytes[s - 1].is_ascii_digit() {
                s -= 1;
            }
            if s < i && (s == 0 || bytes[s - 1] == b'\n' || bytes[s - 1] == b'\r') {
                if let Ok(n) = std::str::from_utf8(&bytes[s..i]).unwrap_or("").parse::<u32>() {
                    let mut p = P { b: bytes, i: i + needle.len() };
                    if let Some(V::Dict(d)) = p.value() {
                        objs.insert(n, d);
                        i = p.i;
                        continue;
                    }
                }
            }
        }
        i += 1;
    }
    objs
}

fn get<'a>(d: &'a [(String, V)], k: &str) -> Option<&'a V> {
    d.iter().find(|(kk, _)| kk == k).map(|(_, v)| v)
}

fn show_dest(v: Option<&V>) -> String {
    match v {
        None => "-".into(),
        Some(V::Arr(a)) => {
            let page = match a.first() {
                Some(V::Int(i)) => i.to_string(),
                Some(V::Ref(r)) => format!("r{}", r),
                _ => "?".into(),
            };
            let kind = match a.get(1) {
                Some(V::Name(n)) => n.clone(),
                _ => "?".into(),
            };
            let rest_null = a.iter().skip(2).all(|x| matches!(x, V::Kw(k) if k == "null"));
            format!("{}/{}{}", page, kind, if rest_null { "" } else { "+" })
        }
        _ => "?".into(),
    }
}

fn run(req: &str) -> String {
    let parts: Vec<&str> = req.split(' ').collect();
    let (op, npages, forest, names) = match parts.as_slice() {
        [op @ ("out" | "outb"), np, f] => (*op, *np, *f, None),
        [op @ ("out" | "outb"), np, f, n] => (*op, *np, *f, Some(*n)),
        _ => return "bad-request".into(),
    };
    let (Ok(npages), Some(items)) = (npages.parse::<usize>(), parse_forest(forest)) else { return "bad-request".into() };
    let mut doc = Document::new();
    for _ in 0..npages.max(1) {
        doc.add_page(Page::a4());
    }
    let tree = if op == "out" {
        let mut t = OutlineTree::new();
        for it in &items {
            t.add_item(direct(it));
        }
        t
    } else {
        let mut b = OutlineBuilder::new();
        for it in &items {
            with_builder(&mut b, it);
        }
        b.build()
    };
    doc.set_outline(tree);
    if let Some(ns) = names {
        let mut nd = NamedDestinations::new();
        for e in ns.split(',') {
            let Some((n, p)) = e.split_once('=') else { return "bad-request".into() };
            let Ok(p) = p.parse::<u32>() else { return "bad-request".into() };
            nd.add_destination(n.to_string(), Destination::fit(PageDestination::PageNumber(p)).to_array());
        }
        doc.set_named_destinations(nd);
    }
    let cfg = oxidize_pdf::writer::WriterConfig {
        compress_streams: false,
        use_xref_streams: false,
        use_object_streams: false,
        ..Default::default()
    };
    let mut out = Vec::new();
    {
        let mut w = oxidize_pdf::writer::PdfWriter::with_config(&mut out, cfg);
        if let Err(e) = w.write_document(&mut doc) {
            return format!("err:write:{}", e);
        }
    }
    let objs = scan_objects(&out);
    let Some(cat) = objs.values().find(|d| matches!(get(d, "Type"), Some(V::Name(n)) if n == "Catalog")) else {
        return "err:no-catalog".into();
    };
    let mut ans = match get(cat, "Outlines") {
        None => "none".to_string(),
        Some(V::Ref(root)) => {
            let root = *root;
            let Some(rd) = objs.get(&root) else { return "err:no-outline-root".into() };
            let rel = |v: Option<&V>| -> String {
                match v {
                    None => "-".into(),
                    Some(V::Ref(r)) => (*r as i64 - root as i64).to_string(),
                    Some(V::Int(i)) => i.to_string(),
                    _ => "?".into(),
                }
            };
            if !matches!(get(rd, "Type"), Some(V::Name(n)) if n == "Outlines") {
                return "err:root-type".into();
            }
            let mut s = format!("R:F{}:L{}:C{}", rel(get(rd, "First")), rel(get(rd, "Last")), rel(get(rd, "Count")));
            for (id, d) in &objs {
                if get(d, "Title").is_some() && get(d, "Parent").is_some() {
                    let t = match get(d, "Title") {
                        Some(V::Str(b)) => hex(b),
                        _ => "?".into(),
                    };
                    s.push_str(&format!(
                        "|{}:P{}:p{}:n{}:f{}:l{}:c{}:t{}:d{}",
                        *id as i64 - root as i64,
                        rel(get(d, "Parent")),
                        rel(get(d, "Prev")),
                        rel(get(d, "Next")),
                        rel(get(d, "First")),
                        rel(get(d, "Last")),
                        rel(get(d, "Count")),
                        t,
                        show_dest(get(d, "Dest"))
                    ));
                }
            }
            s
        }
        _ => return "err:outlines-not-a-reference".into(),
    };
    if names.is_some() {
        let nd = match get(cat, "Names") {
            Some(V::Ref(r)) => objs.get(r).and_then(|d| match get(d, "Dests") {
                Some(V::Ref(t)) => objs.get(t),
                _ => None,
            }),
            _ => None,
        };
        let Some(nd) = nd else { return format!("{} N:?", ans) };
        let Some(V::Arr(a)) = get(nd, "Names") else { return format!("{} N:?names", ans) };
        let mut ps = vec![];
        for pair in a.chunks(2) {
            let k = match pair.first() {
                Some(V::Str(b)) => String::from_utf8_lossy(b).into_owned(),
                _ => "?".into(),
            };
            ps.push(format!("{}={}", k, show_dest(pair.get(1))));
        }
        ans.push_str(&format!(" N:{}", if ps.is_empty() { "-".to_string() } else { ps.join(",") }));
    }
    ans
}

// ---------------------------------------------------------------------------------------------
// generator

fn show(items: &[It]) -> String {
    if items.is_empty() {
        return "_".into();
    }
    fn go(items: &[It], s: &mut String) {
        for it in items {
            s.push(if it.open { 'o' } else { 'c' });
            s.push_str(&it.tid.to_string());
            s.push('.');
            match it.dest {
                None => s.push('-'),
                Some((p, k)) => {
                    s.push_str(&p.to_string());
                    s.push(k);
                }
            }
            s.push('[');
            go(&it.kids, s);
            s.push(']');
        }
    }
    let mut s = String::new();
    go(items, &mut s);
    s
}

struct Ctx {
    next_tid: u32,
    npages: u32,
    budget: usize,
}

fn gen_items(rng: &mut Rng, cx: &mut Ctx, depth: u32, max_depth: u32, max_width: u64, p_closed: u64, p_branch: u64) -> Vec<It> {
    let n = 1 + rng.below(max_width) as usize;
    let mut v = vec![];
    for _ in 0..n {
        if cx.budget == 0 {
            break;
        }
        cx.budget -= 1;
        let tid = cx.next_tid;
        cx.next_tid += 1;
        let dest = if rng.chance(2, 3) {
            Some((rng.below(cx.npages as u64) as u32, *rng.pick(&['F', 'F', 'X', 'H', 'B'])))
        } else {
            None
        };
        let open = !rng.chance(p_closed, 10);
        let kids = if depth < max_depth && rng.chance(p_branch, 10) {
            gen_items(rng, cx, depth + 1, max_depth, max_width, p_closed, p_branch)
        } else {
            vec![]
        };
        v.push(It { open, tid, dest, kids });
    }
    v
}

/// all shapes with at most `n` items (open flags chosen by `flags` bit by bit in pre-order)
fn all_forests(n: usize) -> Vec<Vec<It>> {
    // forests with exactly k nodes: first tree has j nodes (1 root + forest of j-1), rest forest of k-j
    let mut memo: Vec<Vec<Vec<It>>> = vec![vec![vec![]]];
    for k in 1..=n {
        let mut fs = vec![];
        for j in 1..=k {
            for kids in &memo[j - 1] {
                for rest in &memo[k - j] {
                    let mut f = vec![It { open: true, tid: 0, dest: None, kids: kids.clone() }];
                    f.extend(rest.iter().cloned());
                    fs.push(f);
                }
            }
        }
        memo.push(fs);
    }
    memo.into_iter().skip(1).flatten().collect()
}

fn relabel(items: &mut [It], next: &mut u32, flags: &mut u64, npages: u32) {
    for it in items {
        it.tid = *next;
        *next += 1;
        it.open = *flags & 1 == 0;
        *flags >>= 1;
        it.dest = if it.tid % 3 == 2 { None } else { Some((it.tid % npages, ['F', 'X', 'H', 'B'][(it.tid % 4) as usize])) };
        relabel(&mut it.kids, next, flags, npages);
    }
}

fn count(items: &[It]) -> usize {
    items.iter().map(|i| 1 + count(&i.kids)).sum()
}

fn non_last_branches(items: &[It]) -> bool {
    let n = items.len();
    items.iter().enumerate().any(|(i, it)| (i + 1 < n && !it.kids.is_empty()) || non_last_branches(&it.kids))
}

fn closed_over_closed(items: &[It], under_closed: bool) -> bool {
    items.iter().any(|it| {
        (under_closed && !it.open && !it.kids.is_empty()) || closed_over_closed(&it.kids, under_closed || (!it.open && !it.kids.is_empty()))
    })
}

fn tags(kind: &str, items: &[It]) -> String {
    let n = count(items);
    let mut t = format!("{} n{}", kind, if n < 8 { n.to_string() } else { format!("{}+", (n / 8) * 8) });
    if non_last_branches(items) {
        t.push_str(" nonlast-branch");
    } else {
        t.push_str(" chain-shaped");
    }
    if closed_over_closed(items, false) {
        t.push_str(" closed-in-closed");
    }
    // non-trivial: at least one nested level
    if items.iter().any(|i| !i.kids.is_empty()) {
        t.push_str(" nt");
    }
    t
}

fn gen(rng: &mut Rng, tier: Tier) -> Vec<Case> {
    let mut cases = vec![];
    // (1) every forest shape up to N items, with a few open/closed patterns each
    let n = if tier == Tier::Quick { 5 } else { 7 };
    for (k, shape) in all_forests(n).into_iter().enumerate() {
        let total = count(&shape) as u32;
        let patterns: Vec<u64> = if tier == Tier::Quick {
            vec![0, (1u64 << total) - 1, rng.next()]
        } else {
            vec![0, (1u64 << total) - 1, rng.next(), rng.next(), 0x5555_5555, 0xAAAA_AAAA]
        };
        for (pi, pat) in patterns.into_iter().enumerate() {
            let mut f = shape.clone();
            let mut next = rng.below(50) as u32;
            let mut flags = pat;
            relabel(&mut f, &mut next, &mut flags, 3);
            let op = if (k + pi) % 3 == 0 { "outb" } else { "out" };
            cases.push(Case::new(format!("{} 3 {}", op, show(&f)), tags("exh", &f)));
        }
    }
    // (2) random larger forests
    let n_rand = if tier == Tier::Quick { 500 } else { 6000 };
    for j in 0..n_rand {
        let npages = 1 + rng.below(6) as u32;
        let mut cx = Ctx { next_tid: rng.below(1000) as u32, npages, budget: 4 + rng.below(40) as usize };
        let max_depth = 1 + rng.below(5) as u32;
        let max_width = 1 + rng.below(5);
        let p_closed = rng.below(8);
        let p_branch = 2 + rng.below(7);
        let f = gen_items(rng, &mut cx, 0, max_depth, max_width, p_closed, p_branch);
        let op = if j % 4 == 0 { "outb" } else { "out" };
        let names = if rng.chance(1, 3) {
            let k = 1 + rng.below(5);
            let v: Vec<String> = (0..k)
                .map(|_| format!("{}={}", rng.pick(&["a", "B", "ch1", "ch10", "ch2", "Z", "intro", "Intro"]), rng.below(npages as u64)))
                .collect();
            format!(" {}", v.join(","))
        } else {
            String::new()
        };
        cases.push(Case::new(format!("{} {} {}{}", op, npages, show(&f), names), tags("rand", &f)));
    }
    // (3) deep chains and wide levels
    for d in [10usize, 30, 80] {
        let mut it = It { open: true, tid: 1, dest: None, kids: vec![] };
        for k in 0..d {
            it = It { open: k % 3 != 0, tid: k as u32 + 2, dest: Some((0, 'F')), kids: vec![It { open: true, tid: 900 + k as u32, dest: None, kids: vec![] }, it] };
        }
        let f = vec![it];
        cases.push(Case::new(format!("out 1 {}", show(&f)), tags("deep", &f)));
    }
    cases.push(Case::new("out 1 _", "empty"));
    cases
}

fn main() {
    harness_main(gen, run, Limits::default());
}
