//! C17 — incremental updates are append-only and take effect.
//!
//! Request: `e <base> <fields> <notes> <steps>`
//!   base   = rc | rs | rz | ro | rO | lc | lx   (+ optional suffixes `m`: the base already has a second
//!            cross-reference section appended by the reference writer; `n`: base without trailing EOL)
//!            r* = written by the reference writer (classic / xref stream raw / xref stream Flate /
//!                 xref stream + fields, AcroForm, page and notes inside an object stream raw / Flate)
//!            l* = written by the library's own writer (classic / xref-stream config)
//!   fields = <namehex>:<type>,…  | .      type: t merged text widget (has /Rect), p plain text field,
//!            b button, k kid of the group field "grp" (qualified name grp.<name>), w text field
//!            with a separate widget kid.  (library bases: text fields only)
//!   notes  = number of /Text annotations initially on the page (reference bases only)
//!   steps  = step;step;…   step = F<namehex>=<valuehex>,…          (IncrementalFormFiller::fill_many)
//!                               | A<x>.<y>.<contentshex>          (TextNoteMutation::Add, page 0)
//!                               | U<i>.<x>.<y>.<contentshex>      (Update of the i-th note of notes())
//!                               | R<i>                            (Remove the i-th note)
//!                               | P<k>   PdfWriter::write_incremental_update: ADD k blank pages
//!                               | Q<k>   PdfWriter::write_incremental_with_page_replacement: k blank
//!                                        pages REPLACE the first k pages
//! Answer: `B<len>,<startxref>,<size>,<eol>|<step>|…|<final>`
//!   step  = <status>:<prefix>:<suffixhex>   status ok | err:<class>; prefix 1 = output starts with
//!           the previous file's bytes; suffix = the appended bytes
//!           P/Q steps: <status>:<prefix>:G<prev>.<startxref>.<xrefpos>.<size>.<bad entries>.<appended length>.<kids>
//!           = what an independent scan of the appended bytes finds: /Prev and /Size of the last
//!           trailer, the last startxref, where the last `xref` keyword stands, the number of
//!           cross-reference entries that do not point at their `N G obj` header (or free a
//!           number), and the page list of the NEW /Pages object as written (`<num>_…`)
//!   final = L<namehex>=<hex of to_text(/V) as UTF-8 | none>,…;N<x>.<y>.<contentshex>,…;U<ok|diff-n>
//!           ;K<page object numbers of the base, as the library walks /Kids>_><the same for the last file>
//!           as read back by the library from the last file (fields, notes(), untouched objects)
use oxiharness::*;
#[path = "../shared_b0417/reffile.rs"]
mod reffile;
use oxidize_pdf::forms::{FormManager, TextField, Widget, WidgetAppearance};
use oxidize_pdf::geometry::{Point, Rectangle};
use oxidize_pdf::parser::{PdfObject, PdfReader};
use oxidize_pdf::writer::{
    IncrementalFormFiller, IncrementalTextNoteEditor, TextNoteMutation, WriterConfig,
};
use oxidize_pdf::{Document, Page};
use reffile::*;
use std::io::Cursor;

fn hex_text(s: &str) -> String {
    hex(s.as_bytes())
}

fn pdf_text_hex(s: &str) -> String {
    // UTF-16BE with BOM, as a PDF hex string
    let mut out = String::from("<FEFF");
    for u in s.encode_utf16() {
        out.push_str(&format!("{:04X}", u));
    }
    out.push('>');
    out
}

struct FieldSpec {
    name: String,
    ty: char,
}

fn build_ref_base(kind: &str, fields: &[FieldSpec], notes: usize) -> Vec<u8> {
    // numbering: 1 catalog, 2 pages, 3 page, 4 acroform, then group parent (if any), fields, widgets, notes
    let mut next = 5u32;
    let mut bodies: Vec<(u32, String)> = vec![];
    let mut annots: Vec<u32> = vec![];
    let mut top_fields: Vec<u32> = vec![];
    let has_group = fields.iter().any(|f| f.ty == 'k');
    let group = if has_group {
        let g = next;
        next += 1;
        Some(g)
    } else {
        None
    };
    let mut group_kids = vec![];
    let mut y = 700;
    for f in fields {
        let n = next;
        next += 1;
        let t = pdf_text_hex(&f.name);
        match f.ty {
            't' => {
                bodies.push((
                    n,
                    format!(
                        "<< /Type /Annot /Subtype /Widget /FT /Tx /T {} /Rect [100 {} 300 {}] /P 3 0 R >>",
                        t,
                        y,
                        y + 20
                    ),
                ));
                annots.push(n);
                top_fields.push(n);
            }
            'b' => {
                bodies.push((n, format!("<< /FT /Btn /T {} /V /Off >>", t)));
                top_fields.push(n);
            }
            'k' => {
                bodies.push((n, format!("<< /FT /Tx /T {} /Parent {} 0 R >>", t, group.unwrap())));
                group_kids.push(n);
            }
            'w' => {
                let w = next;
                next += 1;
                bodies.push((n, format!("<< /FT /Tx /T {} /Kids [{} 0 R] >>", t, w)));
                bodies.push((
                    w,
                    format!(
                        "<< /Type /Annot /Subtype /Widget /Parent {} 0 R /Rect [100 {} 300 {}] /P 3 0 R >>",
                        n,
                        y,
                        y + 20
                    ),
                ));
                annots.push(w);
                top_fields.push(n);
            }
            _ => {
                bodies.push((n, format!("<< /FT /Tx /T {} >>", t)));
                top_fields.push(n);
            }
        }
        y -= 30;
    }
    if let Some(g) = group {
        let kids: Vec<String> = group_kids.iter().map(|k| format!("{} 0 R", k)).collect();
        bodies.push((g, format!("<< /T (grp) /Kids [{}] >>", kids.join(" "))));
        top_fields.push(g);
    }
    for i in 0..notes {
        let n = next;
        next += 1;
        let x = 20 + 30 * i;
        bodies.push((
            n,
            format!(
                "<< /Type /Annot /Subtype /Text /Rect [{} 40 {} 60] /Contents {} >>",
                x,
                x + 20,
                pdf_text_hex(&format!("note {}", i))
            ),
        ));
        annots.push(n);
    }
    let fl: Vec<String> = top_fields.iter().map(|k| format!("{} 0 R", k)).collect();
    let al: Vec<String> = annots.iter().map(|k| format!("{} 0 R", k)).collect();
    bodies.push((4, format!("<< /Fields [{}] /DA (/Helv 0 Tf 0 g) >>", fl.join(" "))));
    bodies.push((
        3,
        format!(
            "<< /Type /Page /Parent 2 0 R /MediaBox [0 0 612 792] /Annots [{}] >>",
            al.join(" ")
        ),
    ));
    bodies.sort_by_key(|b| b.0);
    let cat = "<< /Type /Catalog /Pages 2 0 R /AcroForm 4 0 R >>".to_string();
    let pages = "<< /Type /Pages /Kids [3 0 R] /Count 1 >>".to_string();
    let mut objs = vec![
        Phys { num: 1, gen: 0, body: Body::Raw(cat.into_bytes()) },
        Phys { num: 2, gen: 0, body: Body::Raw(pages.into_bytes()) },
    ];
    let mut ents: Vec<(u32, Ent)> = vec![
        (0, Ent::Free { next: 0, gen: 65535 }),
        (1, Ent::At { phys: 0, gen: 0 }),
        (2, Ent::At { phys: 1, gen: 0 }),
    ];
    let k = kind.as_bytes()[1];
    let xk;
    if k == b'o' || k == b'O' {
        let stm = next;
        let xnum = next + 1;
        let items: Vec<(u32, Vec<u8>)> = bodies.iter().map(|(n, b)| (*n, b.clone().into_bytes())).collect();
        for (i, (n, _)) in bodies.iter().enumerate() {
            ents.push((*n, Ent::Comp { stm, idx: i as u32 }));
        }
        objs.push(Phys { num: stm, gen: 0, body: Body::ObjStmRaw { items, flate: k == b'O' } });
        ents.push((stm, Ent::At { phys: 2, gen: 0 }));
        ents.push((xnum, Ent::At { phys: 3, gen: 0 }));
        xk = XKind::Stream { num: xnum, flate: k == b'O' };
    } else {
        for (n, b) in &bodies {
            ents.push((*n, Ent::At { phys: objs.len(), gen: 0 }));
            objs.push(Phys { num: *n, gen: 0, body: Body::Raw(b.clone().into_bytes()) });
        }
        if k == b'c' {
            xk = XKind::Classic;
        } else {
            let xnum = next;
            ents.push((xnum, Ent::At { phys: objs.len(), gen: 0 }));
            xk = XKind::Stream { num: xnum, flate: k == b'z' };
        }
    }
    ents.sort_by_key(|e| e.0);
    let multi = kind.len() > 2 && kind[2..].contains('m');
    let stream_base = !matches!(xk, XKind::Classic);
    let phys1 = objs.len() + if stream_base { 1 } else { 0 };
    let top = ents.iter().map(|e| e.0).max().unwrap_or(0);
    let rev = Rev { objs, xk, ents, root: 1, trailer_extra: String::new(), size_override: None };
    if !multi {
        return build(&[rev]).bytes;
    }
    // the base already HAS a second cross-reference section: a reference-writer revision that
    // rewrites /Pages (same content) and adds an unrelated object; classic over classic bases,
    // a cross-reference stream otherwise
    let pages = "<< /Type /Pages /Kids [3 0 R] /Count 1 >>".to_string();
    let extra = top + 1;
    let objs2 = vec![
        Phys { num: 2, gen: 0, body: Body::Raw(pages.into_bytes()) },
        Phys { num: extra, gen: 0, body: Body::Raw(b"<< /Marker /SecondRevision >>".to_vec()) },
    ];
    let mut ents2 = vec![(2, Ent::At { phys: phys1, gen: 0 }), (extra, Ent::At { phys: phys1 + 1, gen: 0 })];
    let xk2 = if stream_base {
        ents2.push((extra + 1, Ent::At { phys: phys1 + 2, gen: 0 }));
        XKind::Stream { num: extra + 1, flate: k == b'z' || k == b'O' }
    } else {
        XKind::Classic
    };
    let rev2 = Rev { objs: objs2, xk: xk2, ents: ents2, root: 1, trailer_extra: String::new(), size_override: None };
    build(&[rev, rev2]).bytes
}

fn build_lib_base(kind: &str, fields: &[FieldSpec]) -> Result<Vec<u8>, String> {
    let mut doc = Document::new();
    let mut page = Page::a4();
    let mut fm = FormManager::new();
    let mut y = 700.0;
    for f in fields {
        let rect = Rectangle::new(Point::new(100.0, y), Point::new(300.0, y + 20.0));
        let widget = Widget::new(rect).with_appearance(WidgetAppearance::default());
        let field = TextField::new(f.name.clone());
        let field_ref = fm.add_text_field(field, widget.clone(), None).map_err(|e| e.to_string())?;
        page.add_form_widget_with_ref(widget, field_ref).map_err(|e| e.to_string())?;
        y -= 40.0;
    }
    doc.add_page(page);
    doc.set_form_manager(fm);
    let cfg = if kind.as_bytes()[1] == b'x' {
        WriterConfig { use_xref_streams: true, ..WriterConfig::default() }
    } else {
        WriterConfig::default()
    };
    doc.to_bytes_with_config(cfg).map_err(|e| e.to_string())
}

fn last_startxref(bytes: &[u8]) -> u64 {
    // independent of the library: last "startxref" keyword, the decimal number after it
    let pat = b"startxref";
    let mut pos = None;
    for i in (0..bytes.len().saturating_sub(pat.len())).rev() {
        if &bytes[i..i + pat.len()] == pat {
            pos = Some(i + pat.len());
            break;
        }
    }
    let Some(mut p) = pos else { return 0 };
    while p < bytes.len() && (bytes[p] == b'\n' || bytes[p] == b'\r' || bytes[p] == b' ') {
        p += 1;
    }
    let mut v = 0u64;
    while p < bytes.len() && bytes[p].is_ascii_digit() {
        v = v * 10 + (bytes[p] - b'0') as u64;
        p += 1;
    }
    v
}

fn err_cls(e: &oxidize_pdf::PdfError) -> &'static str {
    use oxidize_pdf::PdfError as E;
    match e {
        E::FieldNotFound(_) => "field-not-found",
        E::EncodingError(_) => "encoding",
        E::InvalidStructure(_) => "structure",
        E::PermissionDenied(_) => "permission",
        _ => "other",
    }
}

fn walk_fields(
    r: &mut PdfReader<Cursor<&[u8]>>,
    node: (u32, u16),
    prefix: &str,
    out: &mut Vec<(String, Option<String>)>,
    depth: u32,
) {
    if depth > 8 {
        return;
    }
    let Some(d) = r.get_object(node.0, node.1).ok().and_then(|o| o.as_dict().cloned()) else { return };
    let partial = d.get("T").and_then(|o| o.as_string()).map(|s| s.to_text());
    let full = match (&partial, prefix.is_empty()) {
        (Some(t), true) => t.clone(),
        (Some(t), false) => format!("{prefix}.{t}"),
        (None, _) => prefix.to_string(),
    };
    let kids: Vec<(u32, u16)> = match d.get("Kids") {
        Some(PdfObject::Array(a)) => a.0.iter().filter_map(|o| o.as_reference()).collect(),
        _ => vec![],
    };
    let sub = kids.iter().any(|(n, g)| {
        r.get_object(*n, *g).ok().and_then(|o| o.as_dict()).map(|d| d.contains_key("T")).unwrap_or(false)
    });
    if kids.is_empty() || !sub {
        if partial.is_some() {
            let v = match d.get("V") {
                Some(PdfObject::String(s)) => Some(s.to_text()),
                Some(PdfObject::Name(n)) => Some(format!("/{}", n.0)),
                _ => None,
            };
            out.push((full, v));
        }
    } else {
        for k in kids {
            walk_fields(r, k, &full, out, depth + 1);
        }
    }
}

fn lib_fields(bytes: &[u8]) -> Vec<(String, Option<String>)> {
    let mut out = vec![];
    let Ok(mut r) = PdfReader::new(Cursor::new(bytes)) else { return out };
    let Some(cat) = r.catalog().ok().cloned() else { return out };
    let acro = match cat.get("AcroForm") {
        Some(PdfObject::Reference(n, g)) => r.get_object(*n, *g).ok().and_then(|o| o.as_dict().cloned()),
        Some(PdfObject::Dictionary(d)) => Some(d.clone()),
        _ => None,
    };
    let Some(acro) = acro else { return out };
    let refs: Vec<(u32, u16)> = match acro.get("Fields") {
        Some(PdfObject::Array(a)) => a.0.iter().filter_map(|o| o.as_reference()).collect(),
        _ => vec![],
    };
    for rf in refs {
        walk_fields(&mut r, rf, "", &mut out, 0);
    }
    out
}

/// numbers mentioned by the appended classic sections (read from the xref subsection headers)
fn appended_numbers(suffixes: &[Vec<u8>]) -> std::collections::BTreeSet<u32> {
    let mut s = std::collections::BTreeSet::new();
    for suf in suffixes {
        let text = String::from_utf8_lossy(suf);
        if let Some(p) = text.rfind("\nxref\n").map(|p| p + 6).or(if text.starts_with("xref\n") { Some(5) } else { None }) {
            for line in text[p..].lines() {
                let parts: Vec<&str> = line.split(' ').collect();
                if line.starts_with("trailer") {
                    break;
                }
                if parts.len() == 2 {
                    if let (Ok(a), Ok(c)) = (parts[0].parse::<u32>(), parts[1].parse::<u32>()) {
                        for k in 0..c {
                            s.insert(a + k);
                        }
                    }
                }
            }
        }
    }
    s
}

fn canon(o: &PdfObject) -> String {
    match o {
        PdfObject::Dictionary(d) => {
            let mut ks: Vec<_> = d.0.iter().map(|(k, v)| format!("/{} {}", k.0, canon(v))).collect();
            ks.sort();
            format!("<<{}>>", ks.join(" "))
        }
        PdfObject::Array(a) => format!("[{}]", a.0.iter().map(canon).collect::<Vec<_>>().join(" ")),
        PdfObject::Stream(st) => {
            format!("stream{}#{}", canon(&PdfObject::Dictionary(st.dict.clone())), hex(&st.data))
        }
        other => format!("{:?}", other),
    }
}

fn untouched(base: &[u8], fin: &[u8], size: u32, touched: &std::collections::BTreeSet<u32>) -> String {
    let (Ok(mut a), Ok(mut b)) = (PdfReader::new(Cursor::new(base)), PdfReader::new(Cursor::new(fin))) else {
        return "open".into();
    };
    for n in 1..size {
        if touched.contains(&n) {
            continue;
        }
        let x = a.get_object(n, 0).map(canon).unwrap_or_else(|e| format!("E{}", err_class(&e)));
        let y = b.get_object(n, 0).map(canon).unwrap_or_else(|e| format!("E{}", err_class(&e)));
        if x != y {
            return format!("diff-{}", n);
        }
    }
    "ok".into()
}

/// independent scan (no library code) of the bytes a page step appended
fn scan_appended(all: &[u8], from: usize) -> String {
    let suf = &all[from..];
    let rfind = |hay: &[u8], pat: &[u8]| -> Option<usize> {
        if hay.len() < pat.len() {
            return None;
        }
        (0..=hay.len() - pat.len()).rev().find(|&i| &hay[i..i + pat.len()] == pat)
    };
    let num_after = |hay: &[u8], mut p: usize| -> Option<u64> {
        while p < hay.len() && (hay[p] == b' ' || hay[p] == b'\n' || hay[p] == b'\r') {
            p += 1;
        }
        let st = p;
        let mut v = 0u64;
        while p < hay.len() && hay[p].is_ascii_digit() {
            v = v * 10 + (hay[p] - b'0') as u64;
            p += 1;
        }
        if p == st {
            None
        } else {
            Some(v)
        }
    };
    let sx = rfind(suf, b"startxref").and_then(|p| num_after(suf, p + 9));
    let tr = rfind(suf, b"trailer");
    let key = |k: &[u8]| -> Option<u64> {
        let t = tr?;
        let rel = rfind(&suf[t..], k)?;
        num_after(suf, t + rel + k.len())
    };
    let prev = key(b"/Prev");
    let size = key(b"/Size");
    let xr = rfind(suf, b"\nxref\n").map(|p| p + 1);
    // entries
    let mut bad = 0usize;
    if let (Some(x), Some(t)) = (xr, tr) {
        let text = String::from_utf8_lossy(&suf[x + 5..t]).into_owned();
        let mut cur: Option<(u64, u64)> = None;
        for line in text.lines() {
            let parts: Vec<&str> = line.split_whitespace().collect();
            if parts.len() == 2 {
                if let (Ok(a), Ok(c)) = (parts[0].parse::<u64>(), parts[1].parse::<u64>()) {
                    cur = Some((a, c));
                    continue;
                }
            }
            if parts.len() == 3 {
                let Some((n, _)) = cur else {
                    bad += 1;
                    continue;
                };
                cur = cur.map(|(a, c)| (a + 1, c));
                let off: usize = parts[0].parse().unwrap_or(usize::MAX);
                if parts[2] == "n" {
                    let hdr = format!("{} {} obj", n, parts[1].parse::<u64>().unwrap_or(99999));
                    if off >= all.len() || !all[off..].starts_with(hdr.as_bytes()) {
                        bad += 1;
                    }
                } else if n != 0 {
                    bad += 1; // an appended section that FREES a number
                }
            }
        }
    } else {
        bad = 9999;
    }
    let f = |v: Option<u64>| v.map(|x| x.to_string()).unwrap_or_else(|| "x".into());
    format!(
        "G{}.{}.{}.{}.{}.{}",
        f(prev),
        f(sx),
        xr.map(|p| (from + p).to_string()).unwrap_or_else(|| "x".into()),
        f(size),
        bad,
        suf.len()
    )
}

/// page object numbers in /Kids order, as the library resolves catalog -> /Pages -> /Kids (flat)
fn lib_kids(bytes: &[u8]) -> String {
    let Ok(mut r) = PdfReader::new(Cursor::new(bytes)) else { return "open".into() };
    let Some(cat) = r.catalog().ok().cloned() else { return "cat".into() };
    let Some((pn, pg)) = cat.get("Pages").and_then(|o| o.as_reference()) else { return "nopages".into() };
    let Some(pages) = r.get_object(pn, pg).ok().and_then(|o| o.as_dict().cloned()) else { return "pages".into() };
    let kids: Vec<(u32, u16)> = match pages.get("Kids") {
        Some(PdfObject::Array(a)) => a.0.iter().filter_map(|o| o.as_reference()).collect(),
        _ => vec![],
    };
    let mut out = vec![];
    for (n, g) in kids {
        // a kid must still be a page
        let ty = r
            .get_object(n, g)
            .ok()
            .and_then(|o| o.as_dict())
            .and_then(|d| d.get("Type"))
            .and_then(|o| o.as_name())
            .map(|n| n.0.clone())
            .unwrap_or_else(|| "?".into());
        out.push(format!("{}{}", n, if ty == "Page" { "" } else { "x" }));
    }
    out.join("_")
}

fn page_step(cur: &[u8], replace: bool, k: usize) -> Result<Vec<u8>, String> {
    let dir = std::env::temp_dir().join(format!("c17-{}", std::process::id()));
    let _ = std::fs::create_dir_all(&dir);
    let path = dir.join("base.pdf");
    std::fs::write(&path, cur).map_err(|e| format!("err:io-{}", e.kind()))?;
    let mut doc = Document::new();
    for _ in 0..k {
        doc.add_page(Page::a4());
    }
    let mut out: Vec<u8> = vec![];
    let res = {
        let mut w = oxidize_pdf::writer::PdfWriter::with_config(&mut out, WriterConfig::incremental());
        if replace {
            w.write_incremental_with_page_replacement(&path, &mut doc)
        } else {
            w.write_incremental_update(&path, &mut doc)
        }
    };
    let _ = std::fs::remove_file(&path);
    let _ = std::fs::remove_dir(&dir);
    res.map(|_| out).map_err(|e| format!("err:{}", err_cls(&e)))
}

fn parse_fields(s: &str) -> Option<Vec<FieldSpec>> {
    if s == "." {
        return Some(vec![]);
    }
    s.split(',')
        .map(|t| {
            let (h, ty) = t.split_once(':')?;
            Some(FieldSpec { name: String::from_utf8(unhex(h)?).ok()?, ty: ty.chars().next()? })
        })
        .collect()
}

fn fnum(s: &str) -> Option<f64> {
    s.parse::<i64>().ok().map(|v| v as f64)
}

fn run(req: &str) -> String {
    let p: Vec<&str> = req.split(' ').collect();
    if p.len() != 5 || p[0] != "e" {
        return "bad-request".into();
    }
    let kind = p[1];
    let Some(fields) = parse_fields(p[2]) else { return "bad-request".into() };
    let Ok(notes) = p[3].parse::<usize>() else { return "bad-request".into() };
    let mut base = if kind.starts_with('r') {
        build_ref_base(kind, &fields, notes)
    } else {
        match build_lib_base(kind, &fields) {
            Ok(b) => b,
            Err(e) => return format!("base-err:{}", e),
        }
    };
    if kind.ends_with('n') {
        while base.last() == Some(&b'\n') {
            base.pop();
        }
    }
    let bsize = PdfReader::new(Cursor::new(&base[..])).ok().and_then(|r| r.trailer().size().ok()).unwrap_or(0);
    let beol = matches!(base.last(), Some(b'\n') | Some(b'\r')) as u8;
    let mut out = format!("B{},{},{},{}", base.len(), last_startxref(&base), bsize, beol);
    let mut cur = base.clone();
    let mut suffixes: Vec<Vec<u8>> = vec![];
    for step in p[4].split(';') {
        if step.is_empty() || step == "." {
            continue;
        }
        let res: Result<Vec<u8>, String> = match step.as_bytes()[0] {
            b'F' => {
                let mut pairs: Vec<(String, String)> = vec![];
                for kv in step[1..].split(',') {
                    let Some((k, v)) = kv.split_once('=') else { return "bad-request".into() };
                    let (Some(k), Some(v)) = (unhex(k), unhex(v)) else { return "bad-request".into() };
                    let (Ok(k), Ok(v)) = (String::from_utf8(k), String::from_utf8(v)) else { return "bad-request".into() };
                    pairs.push((k, v));
                }
                let refs: Vec<(&str, &str)> = pairs.iter().map(|(a, b)| (a.as_str(), b.as_str())).collect();
                IncrementalFormFiller::new(&cur).fill_many(&refs).map_err(|e| format!("err:{}", err_cls(&e)))
            }
            b'A' | b'U' | b'R' => {
                let ed = IncrementalTextNoteEditor::new(&cur);
                let parts: Vec<&str> = step[1..].split('.').collect();
                let existing = ed.notes().unwrap_or_default();
                let m = match (step.as_bytes()[0], parts.as_slice()) {
                    (b'A', [x, y, c]) => {
                        let (Some(x), Some(y), Some(c)) = (fnum(x), fnum(y), unhex(c)) else { return "bad-request".into() };
                        Some(TextNoteMutation::Add {
                            page_index: 0,
                            position: Point::new(x, y),
                            contents: String::from_utf8_lossy(&c).into_owned(),
                        })
                    }
                    (b'U', [i, x, y, c]) => {
                        let (Ok(i), Some(x), Some(y), Some(c)) = (i.parse::<usize>(), fnum(x), fnum(y), unhex(c)) else {
                            return "bad-request".into();
                        };
                        existing.get(i).map(|n| TextNoteMutation::Update {
                            id: n.id,
                            position: Point::new(x, y),
                            contents: String::from_utf8_lossy(&c).into_owned(),
                        })
                    }
                    (b'R', [i]) => {
                        let Ok(i) = i.parse::<usize>() else { return "bad-request".into() };
                        existing.get(i).map(|n| TextNoteMutation::Remove { id: n.id })
                    }
                    _ => return "bad-request".into(),
                };
                match m {
                    Some(m) => ed.apply(&[m]).map(|u| u.pdf_bytes).map_err(|e| format!("err:{}", err_cls(&e))),
                    None => Err("err:no-such-note".into()),
                }
            }
            b'P' | b'Q' => {
                let Ok(k) = step[1..].parse::<usize>() else { return "bad-request".into() };
                page_step(&cur, step.as_bytes()[0] == b'Q', k)
            }
            _ => return "bad-request".into(),
        };
        let is_page = matches!(step.as_bytes()[0], b'P' | b'Q');
        match res {
            Ok(bytes) if is_page => {
                let prefix = bytes.len() >= cur.len() && bytes[..cur.len()] == cur[..];
                let obs = if prefix { scan_appended(&bytes, cur.len()) } else { "Gx.x.x.x.9999.0".into() };
                out.push_str(&format!("|ok:{}:{}.{}", prefix as u8, obs, lib_kids(&bytes)));
                if prefix {
                    suffixes.push(bytes[cur.len()..].to_vec());
                }
                cur = bytes;
            }
            Ok(bytes) => {
                let prefix = bytes.len() >= cur.len() && bytes[..cur.len()] == cur[..];
                let suf = if prefix { bytes[cur.len()..].to_vec() } else { vec![] };
                out.push_str(&format!("|ok:{}:{}", prefix as u8, hex(&suf)));
                if prefix {
                    suffixes.push(suf);
                }
                cur = bytes;
            }
            Err(e) => out.push_str(&format!("|{}:1:-", e)),
        }
    }
    // what the library reads back from the last file
    let lf = lib_fields(&cur);
    let mut l: Vec<String> = lf
        .iter()
        .map(|(n, v)| format!("{}={}", hex_text(n), v.as_ref().map(|v| hex_text(v)).unwrap_or_else(|| "none".into())))
        .collect();
    l.sort();
    let mut nl: Vec<String> = IncrementalTextNoteEditor::new(&cur)
        .notes()
        .map(|ns| {
            ns.iter()
                .map(|n| format!("{}.{}.{}", n.position.x as i64, n.position.y as i64, hex_text(&n.contents)))
                .collect()
        })
        .unwrap_or_else(|_| vec!["err".into()]);
    nl.sort();
    let touched = appended_numbers(&suffixes);
    let un = untouched(&base, &cur, bsize, &touched);
    out.push_str(&format!("|L{};N{};U{};K{}>{}", l.join(","), nl.join(","), un, lib_kids(&base), lib_kids(&cur)));
    out
}

// ------------------------------------------------------------------ generator

const NAME_POOL: &[&str] = &["name", "a", "Straße", "名前", "emoji😀", "x y", "né", "f(1)", "Ω", "q#1"];
const VALUE_POOL: &[&str] = &[
    "Ada", "Grace Hopper", "", "42", "a(b)c\\d", "line1\nline2", "tab\there", "(", ")", "~", "<<x>>", "/Name", "100%",
    "Ada", "Grace Hopper", "", "42", "a(b)c\\d", "line1\nline2", "tab\there", "(", ")", "~", "<<x>>", "/Name", "100%",
    "Año", "café", "€uro", "日本語", "😀 ok", "Ωmega", "ÿ", "naïve", "\u{7f}", "\u{a0}nbsp",
];

fn gen(rng: &mut Rng, tier: Tier) -> Vec<Case> {
    let mut cases = vec![];
    let n = if tier == Tier::Quick { 260 } else { 4000 };
    let kinds = ["rc", "rs", "rz", "ro", "rO", "lc", "lx", "rcn", "rsn", "rcm", "rsm", "rom", "rOm", "rcmn", "rzm"];
    for i in 0..n {
        let kind = kinds[(i % kinds.len() as u64) as usize];
        let lib = kind.starts_with('l');
        let nf = 1 + rng.below(4) as usize;
        let mut names: Vec<&str> = vec![];
        while names.len() < nf {
            let c = *rng.pick(NAME_POOL);
            // library-written bases: ASCII names only (the document writer stores /T as raw UTF-8,
            // which its own reader decodes as WinAnsi -- that is C10's finding, not C17's subject)
            if lib && !c.is_ascii() {
                continue;
            }
            if !names.contains(&c) {
                names.push(c);
            }
        }
        let types: Vec<char> = (0..nf)
            .map(|_| if lib { 't' } else { *rng.pick(&['t', 'p', 'p', 'b', 'k', 'w']) })
            .collect();
        let fspec: Vec<String> = names.iter().zip(types.iter()).map(|(n, t)| format!("{}:{}", hex_text(n), t)).collect();
        let notes = if lib { 0 } else { rng.below(3) as usize };
        let k = 1 + rng.below(if tier == Tier::Quick { 5 } else { 7 }) as usize;
        let mut steps = vec![];
        let mut live_notes = notes;
        let mut unicode = false;
        for _ in 0..k {
            let note_step = !lib && rng.chance(1, 3);
            if note_step {
                match rng.below(3) {
                    0 => {
                        let c = *rng.pick(VALUE_POOL);
                        let c = if c.trim().is_empty() { "n" } else { c };
                        steps.push(format!("A{}.{}.{}", 10 + rng.below(500), 100 + rng.below(600), hex_text(c)));
                        live_notes += 1;
                    }
                    1 if live_notes > 0 => {
                        let c = *rng.pick(VALUE_POOL);
                        let c = if c.trim().is_empty() { "u" } else { c };
                        steps.push(format!(
                            "U{}.{}.{}.{}",
                            rng.below(live_notes as u64),
                            10 + rng.below(500),
                            100 + rng.below(600),
                            hex_text(c)
                        ));
                    }
                    2 if live_notes > 0 => {
                        steps.push(format!("R{}", rng.below(live_notes as u64)));
                        live_notes -= 1;
                    }
                    _ => {
                        steps.push(format!("A{}.{}.{}", 10 + rng.below(500), 100 + rng.below(600), hex_text("first")));
                        live_notes += 1;
                    }
                }
            } else {
                let m = 1 + rng.below(3) as usize;
                let mut kv = vec![];
                for _ in 0..m {
                    let idx = rng.below(nf as u64) as usize;
                    let full = if types[idx] == 'k' { format!("grp.{}", names[idx]) } else { names[idx].to_string() };
                    let v = if types[idx] == 'b' { *rng.pick(&["Yes", "Off", "On"]) } else { *rng.pick(VALUE_POOL) };
                    if !v.is_ascii() {
                        unicode = true;
                    }
                    kv.push(format!("{}={}", hex_text(&full), hex_text(v)));
                }
                steps.push(format!("F{}", kv.join(",")));
            }
        }
        // page paths of PdfWriter (add / replace pages): as the last step, sometimes followed by a fill
        let mut page_step = false;
        if i % 8 == 3 {
            let st = format!("{}{}", if rng.chance(1, 2) { 'P' } else { 'Q' }, 1 + rng.below(2));
            if rng.chance(1, 3) && !steps.is_empty() {
                let last = steps.pop().unwrap();
                steps.push(st);
                steps.push(last);
            } else {
                steps.push(st);
            }
            page_step = true;
        }
        let tags = format!(
            "base-{} steps{}{}{}{}",
            kind,
            steps.len(),
            if unicode { " unicode-value" } else { "" },
            if page_step { " page-step" } else { "" },
            if steps.len() >= 2 || kind.contains('m') { " nt" } else { "" }
        );
        cases.push(Case::new(
            format!("e {} {} {} {}", kind, if fspec.is_empty() { ".".into() } else { fspec.join(",") }, notes, steps.join(";")),
            tags,
        ));
    }
    cases
}

fn main() {
    harness_main(gen, run, Limits::default());
}
